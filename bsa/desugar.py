"""Layer A0, pass D0: newer surface syntax is rewritten into the statement kinds the rules and the other passes know.

  D0a  `match subject:` with class / literal / singleton / capture / wildcard / or-patterns and guards
                                                    -> if / elif chain of isinstance / == / is tests
  D0b  assignment expressions `(x := e)`            -> `x = e` hoisted in front of the statement when every expression
                                                       evaluated before it is pure; `if a and (x := e): ..` is first split into
                                                       nested ifs; `while (x := e) ..:` re-binds x at the top of the body and
                                                       after the loop (pure e) or becomes `while True: x = e; if not ..: break`
Both keep the evaluation order and the values of every expression; anything outside the supported forms is left as it is
(the rules then meet a statement kind they do not know and answer UNDECIDED, never HOLDS).
"""
import ast
import copy

_SCOPES = (ast.FunctionDef, ast.AsyncFunctionDef, ast.ClassDef, ast.Lambda)
_COMPS = (ast.ListComp, ast.SetComp, ast.DictComp, ast.GeneratorExp)
_SELF_MATCH = {"bool", "bytearray", "bytes", "dict", "float", "frozenset", "int", "list", "set", "str", "tuple"}
_PURE_CALLS = {"len", "isinstance", "id", "type", "bool"}


class Unsupported(Exception):
    pass


def _chain(e):
    return isinstance(e, ast.Name) or (isinstance(e, ast.Attribute) and _chain(e.value))


def is_pure(e):
    """no effect and no dependence on anything a hoisted binding could change except through names (checked separately)"""
    for n in ast.walk(e):
        if isinstance(n, (ast.Await, ast.Yield, ast.YieldFrom, ast.NamedExpr, ast.Lambda) + _COMPS):
            return False
        if isinstance(n, ast.Call):
            if not (isinstance(n.func, ast.Name) and n.func.id in _PURE_CALLS and not n.keywords):
                return False
    return True


class _Sub(ast.NodeTransformer):
    def __init__(self, mapping):
        self.m = mapping

    def visit_Name(self, n):
        if isinstance(n.ctx, ast.Load) and n.id in self.m:
            return ast.copy_location(copy.deepcopy(self.m[n.id]), n)
        return n


# ------------------------------------------------------------------------------------------------ D0a match
def _pattern(p, subj):
    """-> (test expression or None when irrefutable, [(name, expression)])"""
    if isinstance(p, ast.MatchValue):
        return ast.Compare(left=copy.deepcopy(subj), ops=[ast.Eq()], comparators=[p.value]), []
    if isinstance(p, ast.MatchSingleton):
        return ast.Compare(left=copy.deepcopy(subj), ops=[ast.Is()], comparators=[ast.Constant(value=p.value)]), []
    if isinstance(p, ast.MatchAs):
        if p.pattern is None:
            return None, ([(p.name, copy.deepcopy(subj))] if p.name else [])
        t, b = _pattern(p.pattern, subj)
        return t, b + [(p.name, copy.deepcopy(subj))]
    if isinstance(p, ast.MatchOr):
        tests = []
        for q in p.patterns:
            t, b = _pattern(q, subj)
            if b:
                raise Unsupported("binding inside an or-pattern")
            if t is None:
                return None, []
            tests.append(t)
        return ast.BoolOp(op=ast.Or(), values=tests), []
    if isinstance(p, ast.MatchClass):
        test = ast.Call(func=ast.Name(id="isinstance", ctx=ast.Load()), args=[copy.deepcopy(subj), p.cls], keywords=[])
        tests, binds = [test], []
        if p.patterns:
            if len(p.patterns) == 1 and isinstance(p.cls, ast.Name) and p.cls.id in _SELF_MATCH:
                t, b = _pattern(p.patterns[0], subj)
                if t is not None:
                    tests.append(t)
                binds += b
            else:
                raise Unsupported("positional sub-patterns")
        for attr, q in zip(p.kwd_attrs, p.kwd_patterns):
            t, b = _pattern(q, ast.Attribute(value=copy.deepcopy(subj), attr=attr, ctx=ast.Load()))
            if t is not None:
                tests.append(t)
            binds += b
        return (tests[0] if len(tests) == 1 else ast.BoolOp(op=ast.And(), values=tests)), binds
    raise Unsupported(type(p).__name__)


class Desugar:
    def __init__(self):
        self.counter = 0
        self.changes = {"match": 0, "walrus": 0, "chained": 0, "unsupported": []}

    def fresh(self, prefix):
        self.counter += 1
        return f"__{prefix}{self.counter}"

    # ---- match
    def match(self, s):
        pre = []
        subj = s.subject
        if not _chain(subj):
            tmp = self.fresh("m")
            pre.append(ast.Assign(targets=[ast.Name(id=tmp, ctx=ast.Store())], value=subj, lineno=s.lineno))
            subj = ast.Name(id=tmp, ctx=ast.Load())
        branches = []
        for c in s.cases:
            t, binds = _pattern(c.pattern, subj)
            guard = c.guard
            if guard is not None and binds:
                guard = _Sub({n: e for n, e in binds}).visit(copy.deepcopy(guard))
            if guard is not None:
                t = guard if t is None else ast.BoolOp(op=ast.And(), values=[t, guard])
            body = [ast.Assign(targets=[ast.Name(id=n, ctx=ast.Store())], value=e, lineno=c.body[0].lineno) for n, e in binds
                    if not (isinstance(e, ast.Name) and e.id == n)] + c.body
            branches.append((t, body))
            if t is None:
                break
        chain = []
        for t, body in reversed(branches):
            if t is None:
                chain = body
            else:
                chain = [ast.If(test=t, body=body, orelse=chain)]
        if not chain:
            chain = [ast.Pass()]
        out = pre + chain
        for x in out:
            ast.copy_location(x, s)
            ast.fix_missing_locations(x)
        self.changes["match"] += 1
        return out

    # ---- walrus
    @staticmethod
    def _walruses(e):
        """NamedExpr nodes of e that belong to the enclosing statement's scope, innermost-first in evaluation order"""
        out = []

        def walk(n):
            if isinstance(n, _COMPS + (ast.Lambda,)):
                return
            for c in ast.iter_child_nodes(n):
                walk(c)
            if isinstance(n, ast.NamedExpr):
                out.append(n)
        walk(e)
        return out

    @staticmethod
    def _before(e, target):
        """expressions evaluated before `target` inside e, or None when target is evaluated conditionally"""
        if e is target:
            return []
        if isinstance(e, _COMPS + (ast.Lambda,)):
            return None
        kids = list(ast.iter_child_nodes(e))
        idx = next((i for i, c in enumerate(kids) if any(x is target for x in ast.walk(c))), None)
        if idx is None:
            return None
        if isinstance(e, ast.BoolOp):
            vi = next(i for i, v in enumerate(e.values) if any(x is target for x in ast.walk(v)))
            if vi > 0:
                return None
            return Desugar._before(e.values[0], target)
        if isinstance(e, ast.IfExp):
            if any(x is target for x in ast.walk(e.test)):
                return Desugar._before(e.test, target)
            return None
        if isinstance(e, ast.Compare) and len(e.ops) > 1:
            if not any(x is target for x in ast.walk(e.left)) and not any(x is target for x in ast.walk(e.comparators[0])):
                return None
        acc = []
        for c in kids[:idx]:
            if isinstance(c, ast.expr):
                acc.append(c)
        if isinstance(e, ast.Dict):
            # a display evaluates key, value, key, value ... (a `**mapping` entry has no key)
            order = []
            for k_, v_ in zip(e.keys, e.values):
                if k_ is not None:
                    order.append(k_)
                order.append(v_)
            pos = next(i for i, x in enumerate(order) if x is kids[idx])
            acc = order[:pos]
        rest = Desugar._before(kids[idx], target)
        if rest is None:
            return None
        return acc + rest

    def _hoistable(self, root, w):
        b = self._before(root, w)
        if b is None:
            return False
        name = w.target.id
        for x in b:
            if not is_pure(x):
                return False
            if any(isinstance(n, ast.Name) and n.id == name for n in ast.walk(x)):
                return False
        return True

    @staticmethod
    def _replace(root_holder, fld, old, new):
        root = getattr(root_holder, fld)
        if root is old:
            setattr(root_holder, fld, new)
            return
        for parent in ast.walk(root):
            for f, val in ast.iter_fields(parent):
                if val is old:
                    setattr(parent, f, new)
                    return
                if isinstance(val, list):
                    for i, x in enumerate(val):
                        if x is old:
                            val[i] = new
                            return

    def _header_fields(self, s):
        if isinstance(s, (ast.Expr, ast.Return)) and s.value is not None:
            return [(s, "value")]
        if isinstance(s, (ast.Assign, ast.AugAssign)) or (isinstance(s, ast.AnnAssign) and s.value is not None):
            return [(s, "value")]
        if isinstance(s, (ast.If, ast.While, ast.Assert)):
            return [(s, "test")]
        if isinstance(s, ast.For):
            return [(s, "iter")]
        if isinstance(s, ast.With) and len(s.items) == 1:
            return [(s.items[0], "context_expr")]
        if isinstance(s, ast.Raise) and s.exc is not None:
            return [(s, "exc")]
        return []

    def walrus_stmt(self, s):
        """-> list of statements replacing s"""
        pre = []
        for _ in range(12):
            done = True
            for holder, fld in self._header_fields(s):
                root = getattr(holder, fld)
                ws = self._walruses(root)
                if not ws:
                    continue
                w = ws[0]
                if not isinstance(w.target, ast.Name):
                    continue
                if isinstance(s, ast.While):
                    return pre + self._walrus_while(s, w)
                if self._hoistable(root, w):
                    pre.append(ast.fix_missing_locations(ast.copy_location(
                        ast.Assign(targets=[ast.Name(id=w.target.id, ctx=ast.Store())], value=w.value, lineno=s.lineno), s)))
                    self._replace(holder, fld, w, ast.copy_location(ast.Name(id=w.target.id, ctx=ast.Load()), w))
                    self.changes["walrus"] += 1
                    done = False
                    break
                if isinstance(s, ast.If) and isinstance(root, ast.BoolOp):
                    k = next(i for i, v in enumerate(root.values) if any(x is w for x in ast.walk(v)))
                    if k > 0 and self._hoistable(root.values[k], w) and self._size(s.orelse if isinstance(root.op, ast.And) else s.body) <= 12:
                        outer, inner = root.values[:k], root.values[k:]
                        ot = outer[0] if len(outer) == 1 else ast.copy_location(ast.BoolOp(op=root.op, values=outer), root)
                        it = inner[0] if len(inner) == 1 else ast.copy_location(ast.BoolOp(op=root.op, values=inner), root)
                        if isinstance(root.op, ast.And):
                            inner_if = ast.copy_location(ast.If(test=it, body=s.body, orelse=copy.deepcopy(s.orelse)), s)
                            s.test, s.body = ot, self.block([inner_if])
                        else:
                            inner_if = ast.copy_location(ast.If(test=it, body=copy.deepcopy(s.body), orelse=s.orelse), s)
                            s.test, s.orelse = ot, self.block([inner_if])
                        ast.fix_missing_locations(s)
                        self.changes["walrus"] += 1
                        done = False
                        break
                self.changes["unsupported"].append(("walrus", getattr(s, "lineno", 0)))
            if done:
                break
        return pre + [s]

    @staticmethod
    def _size(stmts):
        return sum(1 for b in stmts for n in ast.walk(b) if isinstance(n, ast.stmt))

    def _walrus_while(self, s, w):
        name = w.target.id
        has_break = any(isinstance(n, ast.Break) for b in s.body for n in self._own(b))
        stores_in_test = [x for x in self._walruses(s.test) if x is not w]
        fn = getattr(self, "cur_fn", None)
        inside = {id(n) for n in ast.walk(s)}
        used_outside = fn is None or any(isinstance(n, ast.Name) and n.id == name and isinstance(n.ctx, ast.Load) and id(n) not in inside
                                         for n in ast.walk(fn))
        if self._hoistable(s.test, w) and is_pure(w.value) and not stores_in_test and not s.orelse and (not used_outside or not has_break):
            bind = lambda: ast.Assign(targets=[ast.Name(id=name, ctx=ast.Store())], value=copy.deepcopy(w.value), lineno=s.lineno)
            self._replace(s, "test", w, copy.deepcopy(w.value))
            s.body = [bind()] + s.body
            out = [s] + ([bind()] if used_outside else [])
            for x in out:
                ast.copy_location(x, s) if x is not s else None
                ast.fix_missing_locations(x)
            self.changes["walrus"] += 1
            return out
        if self._hoistable(s.test, w):
            bind = ast.Assign(targets=[ast.Name(id=name, ctx=ast.Store())], value=w.value, lineno=s.lineno)
            self._replace(s, "test", w, ast.Name(id=name, ctx=ast.Load()))
            exit_ = ast.If(test=ast.UnaryOp(op=ast.Not(), operand=s.test), body=list(s.orelse) + [ast.Break()], orelse=[])
            s.test = ast.Constant(value=True)
            s.orelse = []
            s.body = [bind] + self.walrus_stmt(exit_) + s.body
            ast.fix_missing_locations(s)
            self.changes["walrus"] += 1
            return [s]
        self.changes["unsupported"].append(("walrus-while", getattr(s, "lineno", 0)))
        return [s]

    @staticmethod
    def _own(stmt):
        """nodes of a statement that belong to the same loop level (not nested loops / scopes)"""
        todo = [stmt]
        while todo:
            n = todo.pop()
            yield n
            for c in ast.iter_child_nodes(n):
                if isinstance(c, (ast.For, ast.While) + _SCOPES):
                    continue
                todo.append(c)

    # ---- driver
    def block(self, stmts):
        out = []
        for s in stmts:
            if isinstance(s, ast.Match):
                try:
                    out.extend(self.block(self.match(s)))
                    continue
                except Unsupported as e:
                    self.changes["unsupported"].append(("match", getattr(s, "lineno", 0), str(e)))
            for fld in ("body", "orelse", "finalbody"):
                b = getattr(s, fld, None)
                if isinstance(b, list) and b and isinstance(b[0], ast.stmt) and not isinstance(s, ast.ClassDef):
                    setattr(s, fld, self.block(b))
            if isinstance(s, ast.Try):
                for h in s.handlers:
                    h.body = self.block(h.body)
            if isinstance(s, ast.Match):
                for c in s.cases:
                    c.body = self.block(c.body)
            if isinstance(s, (ast.FunctionDef, ast.AsyncFunctionDef, ast.ClassDef)):
                out.append(s)
                continue
            for x in self.walrus_stmt(s):
                out.extend(self.chained(x))
        return out

    # ---- D0c chained assignment: a = b = v  ->  a = v; b = v   (targets are bound left to right to the one value)
    def chained(self, s):
        if not (isinstance(s, ast.Assign) and len(s.targets) > 1):
            return [s]
        v = s.value
        pre = []
        if not (isinstance(v, (ast.Constant, ast.Name))):
            tmp = self.fresh("v")
            pre.append(ast.Assign(targets=[ast.Name(id=tmp, ctx=ast.Store())], value=v, lineno=s.lineno))
            v = ast.Name(id=tmp, ctx=ast.Load())
        elif isinstance(v, ast.Name) and any(isinstance(n, ast.Name) and n.id == v.id for t in s.targets for n in ast.walk(t)):
            return [s]
        out = pre + [ast.Assign(targets=[t], value=copy.deepcopy(v), lineno=s.lineno) for t in s.targets]
        self.changes["chained"] = self.changes.get("chained", 0) + 1
        return [ast.fix_missing_locations(ast.copy_location(x, s)) for x in out]


def desugar(fn, state=None):
    d = state or Desugar()
    d.cur_fn = fn
    fn.body = d.block(fn.body)
    d.cur_fn = None
    return d
