"""L0: module loader, symbol resolution, class table (C3 MRO), constant folder.

Pure stdlib; nothing from the analysed repository is imported or executed.
"""
import ast
import os
import collections


class Unknown:
    """Result of a fold that could not be evaluated."""
    def __init__(self, why=""):
        self.why = why

    def __repr__(self):
        return f"Unknown({self.why})"

    def __bool__(self):
        return False


def is_unknown(v):
    return isinstance(v, Unknown)


class Mod:
    def __init__(self, name, path, root):
        self.name = name
        self.path = path
        self.rel = os.path.relpath(path, root)
        self.src = open(path, encoding="utf-8").read()
        self.tree = ast.parse(self.src, path)
        self.is_pkg = path.endswith("__init__.py")
        self.funcs = {}                      # top-level name -> FunctionDef (last wins)
        self.class_defs = collections.defaultdict(list)  # name -> [ClassDef,...] in order
        self.imports = {}                    # local name -> (module, attr|None)
        self.star = []                       # star-imported modules in order
        self.assigns = collections.defaultdict(list)     # name -> [value nodes]
        for s in self.tree.body:
            self._top(s)
        for s in ast.walk(self.tree):
            if isinstance(s, ast.ImportFrom):
                base = self.name.split(".")
                if not self.is_pkg:
                    base = base[:-1]
                if s.level:
                    base = base[:len(base) - (s.level - 1)]
                else:
                    base = []
                tgt = ".".join(base + ([s.module] if s.module else []))
                for a in s.names:
                    if a.name == "*":
                        if tgt not in self.star:
                            self.star.append(tgt)
                    else:
                        self.imports[a.asname or a.name] = (tgt, a.name)
            elif isinstance(s, ast.Import):
                for a in s.names:
                    self.imports[(a.asname or a.name).split(".")[0]] = (a.name, None)

    def _top(self, s):
        if isinstance(s, (ast.FunctionDef, ast.AsyncFunctionDef)):
            self.funcs[s.name] = s
        elif isinstance(s, ast.ClassDef):
            self.class_defs[s.name].append(s)
        elif isinstance(s, ast.Assign):
            for t in s.targets:
                if isinstance(t, ast.Name):
                    self.assigns[t.id].append(s.value)
                elif isinstance(t, ast.Tuple) and isinstance(s.value, ast.Tuple) \
                        and len(t.elts) == len(s.value.elts):
                    for tt, vv in zip(t.elts, s.value.elts):
                        if isinstance(tt, ast.Name):
                            self.assigns[tt.id].append(vv)
        elif isinstance(s, ast.AnnAssign) and isinstance(s.target, ast.Name) and s.value is not None:
            self.assigns[s.target.id].append(s.value)
        elif isinstance(s, (ast.If, ast.Try)):
            for b in ast.iter_child_nodes(s):
                if isinstance(b, ast.stmt):
                    self._top(b)


class Sym:
    def __init__(self, kind, mod, node, name):
        self.kind, self.mod, self.node, self.name = kind, mod, node, name

    def __repr__(self):
        return f"Sym({self.kind},{self.mod.name if isinstance(self.mod, Mod) else self.mod},{self.name})"


class ClassInfo:
    def __init__(self, repo, mod, node):
        self.repo, self.mod, self.node = repo, mod, node
        self.name = node.name
        self.qual = f"{mod.name}.{node.name}"
        self.key = (mod.name, node.lineno)
        self.methods = {}
        self.attrs = {}
        self.props = {}        # name -> {"get": FunctionDef, "set": FunctionDef}
        for s in node.body:
            if isinstance(s, (ast.FunctionDef, ast.AsyncFunctionDef)):
                kind = None
                for d in s.decorator_list:
                    if isinstance(d, ast.Name) and d.id == "property":
                        kind = "get"
                    elif isinstance(d, ast.Attribute) and d.attr == "setter":
                        kind = "set"
                if kind:
                    self.props.setdefault(s.name, {})[kind] = s
                    if kind == "get":
                        self.methods.setdefault(s.name, s)
                else:
                    self.methods[s.name] = s
            elif isinstance(s, ast.Assign):
                for t in s.targets:
                    if isinstance(t, ast.Name):
                        self.attrs[t.id] = s.value
                    elif isinstance(t, (ast.Tuple, ast.List)) and isinstance(s.value, (ast.Tuple, ast.List)) \
                            and len(t.elts) == len(s.value.elts) and not any(isinstance(x, ast.Starred) for x in t.elts + s.value.elts):
                        for tt, vv in zip(t.elts, s.value.elts):     # a, b = [], []
                            if isinstance(tt, ast.Name):
                                self.attrs[tt.id] = vv
            elif isinstance(s, ast.AnnAssign) and isinstance(s.target, ast.Name) and s.value is not None:
                self.attrs[s.target.id] = s.value
        self.bases = []        # ClassInfo or str (external)
        self._mro = None

    def where(self, node=None):
        n = node or self.node
        return f"{self.mod.rel}:{getattr(n, 'lineno', 0)}"

    def mro(self):
        if self._mro is None:
            self._mro = _c3(self)
        return self._mro

    def is_subclass_of(self, other):
        return other in self.mro()

    def find_method(self, name):
        for k in self.mro():
            if name in k.methods:
                return k, k.methods[name]
        return None

    def find_prop(self, name, kind):
        for k in self.mro():
            if name in k.props and kind in k.props[name]:
                return k, k.props[name][kind]
        return None

    def find_attr(self, name):
        for k in self.mro():
            if name in k.attrs:
                return k, k.attrs[name]
        return None

    def ext_bases(self):
        out = set()
        for k in self.mro():
            for b in k.bases:
                if isinstance(b, str):
                    out.add(b)
        return out

    def __repr__(self):
        return f"<Class {self.qual}@{self.node.lineno}>"


def _c3(cls):
    def merge(seqs):
        res = []
        seqs = [list(s) for s in seqs if s]
        while seqs:
            for s in seqs:
                h = s[0]
                if not any(h in t[1:] for t in seqs):
                    break
            else:
                # inconsistent hierarchy: fall back to DFS order
                h = seqs[0][0]
            res.append(h)
            for s in seqs:
                if s and s[0] is h:
                    del s[0]
            seqs = [s for s in seqs if s]
        return res
    bases = [b for b in cls.bases if isinstance(b, ClassInfo)]
    return [cls] + merge([b.mro() for b in bases] + [bases])


class FuncInfo:
    def __init__(self, repo, mod, cls, node, prop_kind=None):
        self.repo, self.mod, self.cls, self.node = repo, mod, cls, node
        self.name = node.name
        self.prop_kind = prop_kind
        base = cls.qual if cls else mod.name
        self.qual = f"{base}.{node.name}" + (f"[{prop_kind}ter]" if prop_kind == "set" else "")

    def where(self, node=None):
        n = node or self.node
        return f"{self.mod.rel}:{getattr(n, 'lineno', 0)}"

    def params(self):
        a = self.node.args
        return [x.arg for x in a.posonlyargs + a.args + a.kwonlyargs]

    def __repr__(self):
        return f"<Func {self.qual}>"


class Repo:
    def __init__(self, root, pkg="bromelia"):
        self.root = os.path.abspath(root)
        self.pkg = pkg
        self.mods = {}
        pkgdir = os.path.join(self.root, pkg)
        if not os.path.isdir(pkgdir):
            raise FileNotFoundError(pkgdir)
        for dp, dn, fn in os.walk(pkgdir):
            dn[:] = [d for d in dn if d != "__pycache__"]
            for f in sorted(fn):
                if f.endswith(".py"):
                    p = os.path.join(dp, f)
                    rel = os.path.relpath(p, self.root)[:-3].replace(os.sep, ".")
                    if rel.endswith(".__init__"):
                        rel = rel[:-9]
                    self.mods[rel] = Mod(rel, p, self.root)
        # classes
        self.classes = []               # all definitions, incl. duplicates
        self.class_by_node = {}
        for m in self.mods.values():
            for name, defs in m.class_defs.items():
                for d in defs:
                    ci = ClassInfo(self, m, d)
                    self.classes.append(ci)
                    self.class_by_node[id(d)] = ci
        for ci in self.classes:
            for b in ci.node.bases:
                r = None
                if isinstance(b, ast.Name):
                    r = self.resolve(ci.mod, b.id, before=ci.node.lineno)
                elif isinstance(b, ast.Attribute):
                    r = self.resolve_expr(ci.mod, b)
                if r is not None and r.kind == "class":
                    ci.bases.append(self.class_by_node[id(r.node)])
                else:
                    ci.bases.append(ast.unparse(b))
        self.subs = collections.defaultdict(list)      # transitive
        self.direct_subs = collections.defaultdict(list)
        for ci in self.classes:
            for b in ci.bases:
                if isinstance(b, ClassInfo):
                    self.direct_subs[b.key].append(ci)
            for a in ci.mro()[1:]:
                self.subs[a.key].append(ci)
        # functions
        self.funcs = {}
        for m in self.mods.values():
            for f in m.funcs.values():
                fi = FuncInfo(self, m, None, f)
                self.funcs[fi.qual] = fi
        for ci in self.classes:
            for n, f in ci.methods.items():
                fi = FuncInfo(self, ci.mod, ci, f)
                self.funcs[fi.qual] = fi
            for n, d in ci.props.items():
                if "set" in d:
                    fi = FuncInfo(self, ci.mod, ci, d["set"], "set")
                    self.funcs[fi.qual] = fi
        self._helper_width_cache = {}
        from . import normalize
        from . import sym as _sym
        _sym.SENTINELS.clear()
        for m_ in self.mods.values():
            for name_, vals_ in m_.assigns.items():
                if vals_ and all(isinstance(v_, ast.Call) and isinstance(v_.func, ast.Name) and v_.func.id == "object" and not v_.args
                                 for v_ in vals_):
                    _sym.SENTINELS.add(name_)
        self.normalizer = normalize.apply(self)

    # ------------------------------------------------------------ lookup
    def mod(self, name):
        return self.mods.get(name)

    def cls(self, qual):
        """Last definition of the class with this qualified name (module.Class)."""
        mname, _, cname = qual.rpartition(".")
        m = self.mods.get(mname)
        if m and cname in m.class_defs:
            return self.class_by_node[id(m.class_defs[cname][-1])]
        return None

    def func(self, qual):
        return self.funcs.get(qual)

    def method(self, cls_qual, name):
        c = self.cls(cls_qual)
        if not c:
            return None
        r = c.find_method(name)
        if not r:
            return None
        return self.funcs.get(f"{r[0].qual}.{name}")

    def setter(self, cls_qual, name):
        c = self.cls(cls_qual)
        if not c:
            return None
        r = c.find_prop(name, "set")
        if not r:
            return None
        return self.funcs.get(f"{r[0].qual}.{name}[setter]")

    def resolve(self, mod, name, seen=None, before=None):
        seen = seen if seen is not None else set()
        if (mod.name, name) in seen:
            return None
        seen.add((mod.name, name))
        if name in mod.funcs:
            return Sym("func", mod, mod.funcs[name], name)
        if name in mod.class_defs:
            defs = mod.class_defs[name]
            if before is not None:
                prior = [d for d in defs if d.lineno < before]
                if prior:
                    return Sym("class", mod, prior[-1], name)
            return Sym("class", mod, defs[-1], name)
        if name in mod.assigns:
            return Sym("const", mod, mod.assigns[name][-1], name)
        if name in mod.imports:
            tm, attr = mod.imports[name]
            if attr is None:
                if tm in self.mods:
                    return Sym("module", self.mods[tm], None, name)
                return Sym("ext", tm, None, name)
            if tm in self.mods:
                r = self.resolve(self.mods[tm], attr, seen)
                if r:
                    return r
                sub = tm + "." + attr
                if sub in self.mods:
                    return Sym("module", self.mods[sub], None, name)
                return None
            return Sym("ext", tm, attr, name)
        for tm in mod.star:
            if tm in self.mods:
                r = self.resolve(self.mods[tm], name, seen)
                if r and r.kind != "ext":
                    return r
        return None

    def resolve_expr(self, mod, node):
        """Resolve Name / dotted Attribute to a Sym (module.attr chains)."""
        if isinstance(node, ast.Name):
            return self.resolve(mod, node.id)
        if isinstance(node, ast.Attribute):
            base = self.resolve_expr(mod, node.value)
            if base is None:
                return None
            if base.kind == "module":
                return self.resolve(base.mod, node.attr)
            if base.kind == "class":
                ci = self.class_by_node[id(base.node)]
                r = ci.find_attr(node.attr)
                if r:
                    return Sym("const", r[0].mod, r[1], node.attr)
                r = ci.find_method(node.attr)
                if r:
                    return Sym("func", r[0].mod, r[1], node.attr)
            if base.kind == "ext":
                return Sym("ext", f"{base.mod}.{base.node}" if base.node else base.mod, node.attr, node.attr)
        return None

    def class_of_sym(self, sym):
        if sym is not None and sym.kind == "class":
            return self.class_by_node[id(sym.node)]
        return None

    # ------------------------------------------------------------ folding
    def helper_width(self, mod, fname):
        """Byte width produced by a convert_to_N_bytes-like helper, derived from
        the helper's own body (struct.pack format / int.to_bytes length)."""
        r = self.resolve(mod, fname)
        if not r or r.kind != "func":
            return None
        key = id(r.node)
        if key in self._helper_width_cache:
            return self._helper_width_cache[key]
        f = r.node
        w = None
        body = [s for s in f.body if not (isinstance(s, ast.Expr) and isinstance(s.value, ast.Constant))]
        if len(body) == 1 and isinstance(body[0], ast.Return) and isinstance(body[0].value, ast.Call):
            e = body[0].value
            fn = ast.unparse(e.func)
            if fn == "struct.pack" and e.args and isinstance(e.args[0], ast.Constant):
                fmt = e.args[0].value
                sizes = {"B": 1, "b": 1, "H": 2, "h": 2, "L": 4, "l": 4, "I": 4, "i": 4, "Q": 8, "q": 8}
                if isinstance(fmt, str) and len(fmt) == 2 and fmt[0] in ">!" and fmt[1] in sizes:
                    w = (sizes[fmt[1]], "big", fmt[1].islower())
            elif isinstance(e.func, ast.Attribute) and e.func.attr == "to_bytes":
                n = None
                if e.args and isinstance(e.args[0], ast.Constant):
                    n = e.args[0].value
                bo = None
                if len(e.args) > 1 and isinstance(e.args[1], ast.Constant):
                    bo = e.args[1].value
                for k in e.keywords:
                    if k.arg == "byteorder" and isinstance(k.value, ast.Constant):
                        bo = k.value.value
                    if k.arg == "length" and isinstance(k.value, ast.Constant):
                        n = k.value.value
                if isinstance(n, int) and bo in ("big", "little"):
                    w = (n, bo, False)
        self._helper_width_cache[key] = w
        return w

    def fold(self, mod, node, env=None, depth=0):
        """Evaluate a constant expression.  Returns a Python value or Unknown."""
        if depth > 40:
            return Unknown("too deep")
        if isinstance(node, ast.Constant):
            return node.value
        if isinstance(node, ast.Name):
            if env and node.id in env:
                return env[node.id]
            if node.id in ("None", "True", "False"):
                return {"None": None, "True": True, "False": False}[node.id]
            r = self.resolve(mod, node.id)
            if r and r.kind == "const":
                return self.fold(r.mod, r.node, None, depth + 1)
            return Unknown(f"name {node.id}")
        if isinstance(node, ast.Attribute):
            r = self.resolve_expr(mod, node)
            if r and r.kind == "const":
                return self.fold(r.mod, r.node, None, depth + 1)
            return Unknown(f"attr {ast.unparse(node)}")
        if isinstance(node, ast.UnaryOp) and isinstance(node.op, ast.USub):
            v = self.fold(mod, node.operand, env, depth + 1)
            return -v if isinstance(v, int) else Unknown("usub")
        if isinstance(node, ast.BinOp):
            a = self.fold(mod, node.left, env, depth + 1)
            b = self.fold(mod, node.right, env, depth + 1)
            if is_unknown(a) or is_unknown(b):
                return Unknown("binop operand")
            try:
                if isinstance(node.op, ast.Add):
                    return a + b
                if isinstance(node.op, ast.Sub):
                    return a - b
                if isinstance(node.op, ast.Mult):
                    return a * b
                if isinstance(node.op, ast.BitOr):
                    return a | b
                if isinstance(node.op, ast.BitAnd):
                    return a & b
                if isinstance(node.op, ast.LShift):
                    return a << b
                if isinstance(node.op, ast.Pow) and isinstance(b, int) and 0 <= b < 64:
                    return a ** b
                if isinstance(node.op, ast.FloorDiv):
                    return a // b
                if isinstance(node.op, ast.Mod) and isinstance(a, int):
                    return a % b
            except Exception as e:     # noqa
                return Unknown(f"binop {e}")
            return Unknown("binop kind")
        if isinstance(node, (ast.List, ast.Tuple)):
            vals = [self.fold(mod, e, env, depth + 1) for e in node.elts]
            if any(is_unknown(v) for v in vals):
                return Unknown("seq elt")
            return vals if isinstance(node, ast.List) else tuple(vals)
        if isinstance(node, ast.JoinedStr):
            parts = []
            for v in node.values:
                if isinstance(v, ast.Constant):
                    parts.append(str(v.value))
                else:
                    return Unknown("fstring")
            return "".join(parts)
        if isinstance(node, ast.Call):
            fn = node.func
            if isinstance(fn, ast.Name) and len(node.args) == 1 and not node.keywords:
                w = self.helper_width(mod, fn.id)
                if w:
                    v = self.fold(mod, node.args[0], env, depth + 1)
                    if isinstance(v, int) and not isinstance(v, bool):
                        try:
                            return v.to_bytes(w[0], w[1], signed=w[2] and v < 0)
                        except OverflowError:
                            return Unknown("overflow")
                    return Unknown("helper arg")
                if fn.id == "bytes":
                    v = self.fold(mod, node.args[0], env, depth + 1)
                    if isinstance(v, int) and 0 <= v < 1 << 16:
                        return bytes(v)
                    if isinstance(v, list) and all(isinstance(x, int) for x in v):
                        try:
                            return bytes(v)
                        except ValueError:
                            return Unknown("bytes()")
                if fn.id == "len":
                    v = self.fold(mod, node.args[0], env, depth + 1)
                    if isinstance(v, (bytes, str, list, tuple)):
                        return len(v)
            if isinstance(fn, ast.Attribute) and ast.unparse(fn) == "bytes.fromhex" and len(node.args) == 1:
                v = self.fold(mod, node.args[0], env, depth + 1)
                if isinstance(v, str):
                    try:
                        return bytes.fromhex(v)
                    except ValueError:
                        return Unknown("fromhex")
            return Unknown(f"call {ast.unparse(fn)}")
        return Unknown(type(node).__name__)

    def fold_class_attr(self, ci, name):
        r = ci.find_attr(name)
        if not r:
            return Unknown(f"no attr {name}")
        return self.fold(r[0].mod, r[1])


# ---------------------------------------------------------------- digest-keyed reuse of the loaded, normalised program
CACHE_INFO = {"state": "off", "digest": None}


def _digest(root, pkg="bromelia"):
    """sha256 over every byte the loader and the normaliser consult: all .py files of the analysed package (path + content),
    every engine source under bsa/ (not the per-property checkers, which run after loading), the frozen inventory, and the
    BSA_* switches.  Identical digest = identical normal form, whatever directory the tree lives in."""
    import hashlib
    h = hashlib.sha256()
    h.update(b"v1\0" + (".".join(map(str, __import__("sys").version_info[:3]))).encode())
    pkgdir = os.path.join(os.path.abspath(root), pkg)
    for dp, dn, fn in sorted(os.walk(pkgdir)):
        dn[:] = sorted(d for d in dn if d != "__pycache__")
        for f in sorted(fn):
            if f.endswith(".py"):
                p = os.path.join(dp, f)
                h.update(os.path.relpath(p, pkgdir).encode() + b"\0")
                h.update(open(p, "rb").read() + b"\0")
    here = os.path.dirname(os.path.abspath(__file__))
    for f in sorted(os.listdir(here)):
        if f.endswith(".py"):
            h.update(f.encode() + b"\0" + open(os.path.join(here, f), "rb").read() + b"\0")
    inv = os.path.join(os.path.dirname(here), "reference", "inventory.json")
    if os.path.exists(inv):
        h.update(open(inv, "rb").read())
    for k in sorted(os.environ):
        if k.startswith("BSA_") and k != "BSA_CACHE_DIR":
            h.update(f"{k}={os.environ[k]}\0".encode())
    return h.hexdigest()


def load_repo(root):
    """Repo(root), reusing a previous run's loaded+normalised program when (and only when) every consulted byte is the same.
    The sources are read and hashed on every run; nothing is reused across different source text.  BSA_CACHE=0 disables."""
    import pickle
    import sys
    import tempfile
    import zlib
    if os.environ.get("BSA_CACHE", "1") == "0":
        CACHE_INFO.update(state="disabled", digest=None)
        return Repo(root)
    cdir = os.environ.get("BSA_CACHE_DIR") or os.path.join(os.path.dirname(os.path.dirname(os.path.abspath(__file__))), ".cache")
    try:
        dg = _digest(root)
    except OSError:
        return Repo(root)
    path = os.path.join(cdir, dg + ".pkl")
    from . import sym as _sym
    lim = sys.getrecursionlimit()
    sys.setrecursionlimit(max(lim, 200000))
    try:
        if os.path.exists(path):
            try:
                with open(path, "rb") as f:
                    repo, sentinels = pickle.loads(zlib.decompress(f.read()))
                repo.root = os.path.abspath(root)
                for m in repo.mods.values():
                    m.path = os.path.join(repo.root, m.rel)
                repo.class_by_node = {id(ci.node): ci for ci in repo.classes}
                repo._helper_width_cache = {}
                _sym.SENTINELS.clear()
                _sym.SENTINELS.update(sentinels)
                try:
                    os.utime(path)
                except OSError:
                    pass
                CACHE_INFO.update(state="reused (identical digest of all consulted sources)", digest=dg)
                return repo
            except Exception:   # noqa  - unreadable entry: rebuild
                pass
        repo = Repo(root)
        CACHE_INFO.update(state="computed", digest=dg)
        try:
            os.makedirs(cdir, exist_ok=True)
            fd, tmp = tempfile.mkstemp(dir=cdir, suffix=".tmp")
            with os.fdopen(fd, "wb") as f:
                f.write(zlib.compress(pickle.dumps((repo, set(_sym.SENTINELS)), protocol=pickle.HIGHEST_PROTOCOL), 1))
            os.replace(tmp, path)
            ents = sorted((os.path.join(cdir, x) for x in os.listdir(cdir) if x.endswith(".pkl")), key=lambda x: os.path.getmtime(x))
            for old in ents[:-int(os.environ.get("BSA_CACHE_KEEP", "1500"))]:
                try:
                    os.remove(old)
                except OSError:
                    pass
        except Exception:   # noqa  - a cache that cannot be written is only slower
            pass
        return repo
    finally:
        sys.setrecursionlimit(lim)


def norm_stmt(node):
    """Normalised statement text used to key findings (never line numbers)."""
    try:
        s = ast.unparse(node)
    except Exception:
        s = type(node).__name__
    s = " ".join(s.split())
    return s[:160]
