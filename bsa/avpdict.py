"""Extraction of the AVP dictionary (every definition that directly subclasses DiameterAVP)."""
import ast

from .astutil import fn_calls, call_name, kwarg, arg_or_kw
from .loader import is_unknown

BASE = "bromelia.base.DiameterAVP"
TYPES_MOD = "bromelia.types"


class AvpRow:
    def __init__(self, ci):
        self.ci = ci
        self.name = ci.name
        self.module = ci.mod.name
        self.code = None
        self.vendor = None
        self.type_cls = None      # ClassInfo of the type class from types.py (direct base)
        self.type_bases = []
        self.init = None

    @property
    def qual(self):
        return self.ci.qual


def type_classes(repo):
    m = repo.mods.get(TYPES_MOD)
    out = []
    if not m:
        return out
    base = repo.cls(f"{TYPES_MOD}.BaseDataType")
    for c in repo.classes:
        if c.mod is m and base is not None and base in c.mro() and c is not base:
            out.append(c)
    return out


def avp_rows(repo):
    base = repo.cls(BASE)
    if base is None:
        return None, []
    rows = []
    tcs = set(id(c) for c in type_classes(repo))
    for ci in repo.classes:
        if ci is base:
            continue
        if base in ci.bases:
            r = AvpRow(ci)
            own_code = ci.attrs.get("code")
            own_vendor = ci.attrs.get("vendor_id")
            r.code = repo.fold(ci.mod, own_code) if own_code is not None else None
            r.vendor_node = own_vendor
            r.vendor = repo.fold(ci.mod, own_vendor) if own_vendor is not None else "MISSING"
            r.type_bases = [b for b in ci.bases if not isinstance(b, str) and id(b) in tcs]
            r.type_cls = r.type_bases[0] if len(r.type_bases) == 1 else None
            r.init = ci.methods.get("__init__")
            rows.append(r)
    return base, rows


def indirect_avp_classes(repo):
    """Classes that inherit DiameterAVP only through another class (invisible to __subclasses__())."""
    base = repo.cls(BASE)
    out = []
    for ci in repo.classes:
        if ci is base or base is None:
            continue
        if base in ci.mro() and base not in ci.bases:
            out.append(ci)
    return out


def ctor_calls(row):
    """Classify the calls in an AVP constructor."""
    res = {"base_init": [], "flag": [], "type_init": [], "other": []}
    if row.init is None:
        return res
    for c in fn_calls(row.init):
        n = call_name(c)
        if n == "DiameterAVP.__init__":
            res["base_init"].append(c)
        elif n.startswith("DiameterAVP.set_") and n.endswith("_bit"):
            res["flag"].append((n.split(".")[1], c))
        elif n.startswith("self.set_") and n.endswith("_bit"):
            res["flag"].append((n.split(".")[1], c))
        elif n.endswith(".__init__") and n != "DiameterAVP.__init__":
            res["type_init"].append((n[:-9], c))
        else:
            res["other"].append(c)
    return res


def default_flags(row):
    """(M, V, P) defaults established by the constructor (True iff set_X_bit(self, True) is called)."""
    cc = ctor_calls(row)
    out = {"set_mandatory_bit": False, "set_vendor_id_bit": False, "set_protected_bit": False}
    for name, c in cc["flag"]:
        args = [a for a in c.args if not (isinstance(a, ast.Name) and a.id == "self")]
        v = args[0] if args else kwarg(c, "state")
        if isinstance(v, ast.Constant) and v.value is True and name in out:
            out[name] = True
    return out


def fold_values(repo, row):
    v = row.ci.attrs.get("values")
    if v is None:
        return None
    return repo.fold(row.ci.mod, v)


def table(repo, ci, name):
    """mandatory / optionals dict literal of a class -> {key: (value node, resolved ClassInfo|None)}"""
    r = ci.find_attr(name)
    if not r:
        return None
    owner, node = r
    if isinstance(node, ast.Call) and isinstance(node.func, ast.Name) and node.func.id == "dict" and len(node.args) == 1 and not node.keywords:
        # dict(<pairs>) where the pairs are literal tuples / module-level tuples of (name, class) joined by `+`
        def pairs_of(e, mod, depth=0):
            if isinstance(e, (ast.Tuple, ast.List)):
                out_ = []
                for x in e.elts:
                    if isinstance(x, (ast.Tuple, ast.List)) and len(x.elts) == 2:
                        out_.append((x.elts[0], x.elts[1], mod))
                    else:
                        return None
                return out_
            if isinstance(e, ast.BinOp) and isinstance(e.op, ast.Add):
                a_, b_ = pairs_of(e.left, mod, depth), pairs_of(e.right, mod, depth)
                return None if a_ is None or b_ is None else a_ + b_
            if isinstance(e, ast.Name) and depth < 4:
                r_ = repo.resolve(mod, e.id)
                if r_ is not None and r_.kind == "const":
                    return pairs_of(r_.node, r_.mod, depth + 1)
            return None
        prs = pairs_of(node.args[0], owner.mod)
        if prs is None:
            return "NOT_DICT"
        out = {}
        for k, v, vmod in prs:
            ks = k.value if isinstance(k, ast.Constant) else None
            sym = None
            if isinstance(v, (ast.Name, ast.Attribute)):
                sym = repo.resolve_expr(vmod, v) if isinstance(v, ast.Attribute) else repo.resolve(vmod, v.id)
            out[ks if ks is not None else ast.unparse(k)] = (v, repo.class_of_sym(sym))
        return out
    if not isinstance(node, ast.Dict):
        return "NOT_DICT"
    out = {}
    pairs = []

    def flat(d, mod, depth=0):
        # `**NAME` of a module-level dict literal contributes its entries in place (later keys win, as in Python)
        for k, v in zip(d.keys, d.values):
            if k is None:
                r_ = repo.resolve(mod, v.id) if isinstance(v, ast.Name) else None
                if r_ is not None and r_.kind == "const" and isinstance(r_.node, ast.Dict) and depth < 4:
                    if flat(r_.node, r_.mod, depth + 1) is False:
                        return False
                    continue
                return False
            pairs.append((k, v, mod))
        return True
    if flat(node, owner.mod) is False:
        return "NOT_DICT"
    for k, v, vmod in pairs:
        ks = k.value if isinstance(k, ast.Constant) else None
        sym = None
        if isinstance(v, (ast.Name, ast.Attribute)):
            sym = repo.resolve_expr(vmod, v) if isinstance(v, ast.Attribute) else \
                repo.resolve(vmod, v.id, before=owner.node.lineno if (owner.mod is ci.mod and vmod is owner.mod) else None)
        out[ks if ks is not None else ast.unparse(k)] = (v, repo.class_of_sym(sym))
    return out
