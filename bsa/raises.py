"""L2: call resolution, may-raise model and escape sets (A11).

esc(f) = explicit raises and hazards of f not caught in f  U  esc(callee) filtered by the handlers that
enclose the call.  Computed as a least fixpoint by rebuilding f's CFG with the callees' current sets.
"""
import ast

from .astutil import call_name, walk_no_nested, header_exprs
from .cfg import CFG, ExcHierarchy
from .locks import FIELD_TYPE_HINTS

# parameter-name conventions the code base uses consistently (confirmed against every call site that the
# receiver-type analysis does resolve); one line of reason each
PARAM_TYPE_HINTS = {
    "msg": "bromelia.base.DiameterMessage", "message": "bromelia.base.DiameterMessage",
    "request": "bromelia.base.DiameterMessage", "answer": "bromelia.base.DiameterMessage",
    "avp": "bromelia.base.DiameterAVP", "item": "bromelia.base.DiameterAVP",
    "header": "bromelia.base.DiameterHeader",
    "association": "bromelia.setup.DiameterAssociation", "diameter_association": "bromelia.setup.DiameterAssociation",
}
ATTR_TYPE_HINTS = {          # attribute name -> class, wherever the receiver is one of the typed objects
    "header": "bromelia.base.DiameterHeader",
    "processor": "bromelia.process.BaseMessageProcessor",
    "current_state": "bromelia.statemachine.State",
}
# library operations on possibly-closed OS resources
CLOSED_RESOURCE = {
    "selector.modify": {"KeyError#res", "ValueError#res", "OSError#res"}, "selector.register": {"KeyError#res", "ValueError#res", "OSError#res"},
    "selector.unregister": {"KeyError#res", "ValueError#res"}, "sock.send": {"OSError#send"}, "sock.recv": {"OSError#recv"},
    "sock.close": set(), "sock.accept": {"OSError#res"}, "sock.sctp_send": {"OSError#send"}, "sock.sctp_recv": {"OSError#recv"},
}


class Raises:
    def __init__(self, repo):
        self.repo = repo
        self.hier = ExcHierarchy(repo)
        self.lib_exc = set(self.repo.mods["bromelia.exceptions"].class_defs) if "bromelia.exceptions" in repo.mods else set()
        self.esc = {}
        self.origin = {}          # (func qual, exc) -> description of where it comes from
        self._calls_cache = {}
        self.unresolved = {}
        self._avp_inits = None
        self.class_by_name = {}
        for ci in repo.classes:
            self.class_by_name.setdefault(ci.name, ci)

    # ------------------------------------------------------------------ call resolution
    def avp_inits(self):
        if self._avp_inits is None:
            base = self.repo.cls("bromelia.base.DiameterAVP")
            self._avp_inits = []
            for ci in self.repo.classes:
                if base is not None and base in ci.bases and "__init__" in ci.methods:
                    self._avp_inits.append(self.repo.funcs[f"{ci.qual}.__init__"])
        return self._avp_inits

    def _methods_of(self, ci, name, cha=True):
        out = []
        r = ci.find_method(name)
        if r:
            fi = self.repo.funcs.get(f"{r[0].qual}.{name}")
            if fi:
                out.append(fi)
        if cha:
            for s in self.repo.subs.get(ci.key, []):
                if name in s.methods:
                    fi = self.repo.funcs.get(f"{s.qual}.{name}")
                    if fi and fi not in out:
                        out.append(fi)
        return out

    def _type_of(self, fi, e, local_types):
        """ClassInfo of expression e inside function fi (or None)."""
        if isinstance(e, ast.Name):
            if e.id == "self" and fi.cls is not None:
                return fi.cls
            if e.id in local_types:
                return local_types[e.id]
            if e.id in fi.params() and e.id in PARAM_TYPE_HINTS:
                return self.repo.cls(PARAM_TYPE_HINTS[e.id])
            return None
        if isinstance(e, ast.Attribute):
            base = self._type_of(fi, e.value, local_types)
            if base is not None:
                for k in base.mro():
                    t = FIELD_TYPE_HINTS.get((k.name, e.attr))
                    if t and t in self.class_by_name:
                        return self.class_by_name[t]
                if e.attr in ATTR_TYPE_HINTS:
                    return self.repo.cls(ATTR_TYPE_HINTS[e.attr])
                if e.attr == "msg" and base.name in ("State", "Closed", "Open", "WaitConnAck", "WaitInitiatorCEA", "Closing"):
                    return self.repo.cls("bromelia.base.DiameterMessage")
            return None
        return None

    def resolve_call(self, fi, call, local_types):
        """-> (list of FuncInfo callees, note).  note: 'registry' for AVP registry dispatch, 'ext' for library calls,
        'unresolved' when an attribute call on an unknown receiver could not be typed."""
        fn = call.func
        if isinstance(fn, ast.Name):
            if fn.id in local_types and local_types[fn.id] == "REGISTRY":
                return self.avp_inits(), "registry"
            if fn.id == "cls" and fi.cls is not None:
                return self._methods_of(fi.cls, "__init__", cha=False), "ctor"
            sym = self.repo.resolve(fi.mod, fn.id)
            if sym is not None and sym.kind == "func":
                q = f"{sym.mod.name}.{sym.node.name}"
                f = self.repo.funcs.get(q)
                return ([f] if f else []), "func"
            if sym is not None and sym.kind == "class":
                ci = self.repo.class_by_node[id(sym.node)]
                return self._methods_of(ci, "__init__", cha=False), "ctor"
            return [], "ext"
        if isinstance(fn, ast.Attribute):
            name = fn.attr
            if fi.cls is not None and name.startswith("__") and not name.endswith("__") and isinstance(fn.value, ast.Name) \
                    and fn.value.id == "self":
                return self._methods_of(fi.cls, name), "self"
            v = fn.value
            # Cls.m(...) explicit
            if isinstance(v, ast.Name) and v.id not in ("self",) and v.id not in local_types and v.id not in fi.params():
                sym = self.repo.resolve(fi.mod, v.id)
                if sym is not None and sym.kind == "class":
                    ci = self.repo.class_by_node[id(sym.node)]
                    return self._methods_of(ci, name, cha=False), "explicit"
                if sym is not None and sym.kind in ("module", "ext"):
                    return [], "ext"
            if isinstance(v, ast.Call) and isinstance(v.func, ast.Name) and v.func.id == "super" and fi.cls is not None:
                for k in fi.cls.mro()[1:]:
                    if name in k.methods:
                        return [self.repo.funcs[f"{k.qual}.{name}"]], "super"
                return [], "ext"
            t = self._type_of(fi, v, local_types)
            if t is not None:
                ms = self._methods_of(t, name)
                if ms:
                    return ms, "typed"
                return [], "ext"
            return [], "unresolved"
        if isinstance(fn, ast.Subscript):
            # self.mandatory[avp_name](avp_value): table-dispatched constructor = any dictionary class
            if ast.unparse(fn.value) in ("self.mandatory", "self.optionals"):
                return self.avp_inits(), "registry"
        return [], "ext"

    def local_types(self, fi):
        lt = {}
        for s in walk_no_nested(fi.node):
            if isinstance(s, ast.Assign) and len(s.targets) == 1 and isinstance(s.targets[0], ast.Name) and isinstance(s.value, ast.Call):
                cn = call_name(s.value)
                if cn.endswith("get_avp_class"):
                    lt[s.targets[0].id] = "REGISTRY"
                elif isinstance(s.value.func, ast.Name):
                    sym = self.repo.resolve(fi.mod, s.value.func.id)
                    if sym is not None and sym.kind == "class":
                        lt[s.targets[0].id] = self.repo.class_by_node[id(sym.node)]
                elif cn in ("DiameterHeader.load",):
                    lt[s.targets[0].id] = self.repo.cls("bromelia.base.DiameterHeader")
            if isinstance(s, ast.For) and isinstance(s.target, ast.Name):
                it = ast.unparse(s.iter)
                if it.endswith(".avps") or it.endswith("._avps") or it == "avps":
                    lt[s.target.id] = self.repo.cls("bromelia.base.DiameterAVP")
                if it in ("msgs",):
                    lt[s.target.id] = self.repo.cls("bromelia.base.DiameterMessage")
        return lt

    # ------------------------------------------------------------------ hazards
    def hazards(self, fi, expr, ctx):
        """Implicit builtin failures of evaluating `expr` on values derived from the wire."""
        out = set()
        for n in walk_no_nested(expr):
            if isinstance(n, ast.Call):
                cn = call_name(n)
                if isinstance(n.func, ast.Attribute) and n.func.attr == "decode" and _wire_like(n.func.value, fi):
                    strict = True
                    for k in n.keywords:
                        if k.arg == "errors" and isinstance(k.value, ast.Constant) and k.value.value in ("replace", "ignore", "backslashreplace"):
                            strict = False
                    if len(n.args) > 1 and isinstance(n.args[1], ast.Constant) and n.args[1].value in ("replace", "ignore"):
                        strict = False
                    if strict:
                        out.add("UnicodeDecodeError")
                if cn in ("ipaddress.IPv4Address", "ipaddress.IPv6Address") and n.args and _wire_like(n.args[0], fi):
                    out.add("AddressValueError")
                if cn == "ipaddress.ip_address" and n.args and _wire_like(n.args[0], fi):
                    out.add("ValueError")
                for k, v in CLOSED_RESOURCE.items():
                    if cn.endswith("." + k) or cn == k:
                        out |= v
            # dynamic AVP attributes of a message exist only when that AVP was listed: `msg.<name>_avp` needs a
            # dominating `msg.has_avp('<name>_avp')` (a vendor-flagged or absent AVP gets another / no attribute)
            if isinstance(n, ast.Attribute) and isinstance(n.ctx, ast.Load) and n.attr.endswith("_avp") and n.attr != "has_avp":
                recv = n.value
                rt = self._type_of(fi, recv, ctx.get("lt", {}))
                if rt is not None and rt.name in ("DiameterMessage", "DiameterRequest", "DiameterAnswer") and \
                        not _guarded_by_has_avp(fi, n):
                    out.add("AttributeError")
            # a registry (dict field) read with a key taken from a received header: `D[k]` needs `k in D` (or a KeyError handler,
            # which the CFG accounts for) - a duplicate, late or corrupted answer carries a key that is not, or no longer, there
            if isinstance(n, ast.Subscript) and isinstance(n.ctx, ast.Load) and not isinstance(n.slice, (ast.Slice, ast.Constant)) \
                    and self._is_registry(n.value) and self._header_keyed(fi, n.slice) and not self._membership_guarded(fi, n):
                out.add("KeyError")
            if isinstance(n, ast.Subscript) and not isinstance(n.slice, ast.Slice) and isinstance(n.ctx, ast.Load) \
                    and _wire_like(n.value, fi) and not isinstance(n.slice, ast.Constant) or \
                    isinstance(n, ast.Subscript) and isinstance(n.slice, ast.Constant) and isinstance(n.slice.value, int) \
                    and isinstance(n.ctx, ast.Load) and _wire_like(n.value, fi):
                if not ctx.get("len_guard", lambda node: False)(n):
                    out.add("IndexError")
        return out

    # ------------------------------------------------------------------ registry reads keyed by the peer
    def _registry_fields(self):
        if not hasattr(self, "_regs"):
            regs = set()
            for f in self.repo.funcs.values():
                if f.name != "__init__" or f.cls is None:
                    continue
                for n in walk_no_nested(f.node):
                    if isinstance(n, ast.Assign) and len(n.targets) == 1 and isinstance(n.targets[0], ast.Attribute) \
                            and isinstance(n.targets[0].value, ast.Name) and n.targets[0].value.id == "self" \
                            and (isinstance(n.value, ast.Dict) and not n.value.keys
                                 or isinstance(n.value, ast.Call) and call_name(n.value) == "dict" and not n.value.args and not n.value.keywords):
                        regs.add(n.targets[0].attr)
            self._regs = regs
        return self._regs

    def _is_registry(self, e):
        return isinstance(e, ast.Attribute) and e.attr in self._registry_fields()

    def _header_keyed(self, fi, k):
        """the key expression is (a local bound to) a field of a received message's header"""
        def from_header(e):
            return any(isinstance(x, ast.Attribute) and x.attr in ("hop_by_hop", "end_to_end") and isinstance(x.value, ast.Attribute)
                       and x.value.attr == "header" for x in ast.walk(e))
        if from_header(k):
            return True
        if isinstance(k, ast.Name):
            defs = [n.value for n in walk_no_nested(fi.node) if isinstance(n, ast.Assign) and len(n.targets) == 1
                    and isinstance(n.targets[0], ast.Name) and n.targets[0].id == k.id]
            return bool(defs) and all(from_header(d) for d in defs)
        return False

    def _membership_guarded(self, fi, sub):
        from .astutil import guards
        cache = self.__dict__.setdefault("_guard_cache", {})
        if fi.qual not in cache:
            g = guards(fi.node)
            owner = {}
            for st in walk_no_nested(fi.node):
                if isinstance(st, ast.stmt):
                    hdr = [st.test] if isinstance(st, (ast.If, ast.While)) else [st.iter] if isinstance(st, ast.For) else \
                        [i.context_expr for i in st.items] if isinstance(st, ast.With) else \
                        [] if isinstance(st, (ast.Try, ast.FunctionDef, ast.AsyncFunctionDef, ast.ClassDef)) else [st]
                    for h in hdr:
                        for x in ast.walk(h):
                            owner.setdefault(id(x), st)
            cache[fi.qual] = (g, owner)
        g, owner = cache[fi.qual]
        st = owner.get(id(sub))
        want = f"{ast.unparse(sub.slice)} in {ast.unparse(sub.value)}"
        if st is None:
            return False
        if any(ast.unparse(t) == want and v is True for t, v in g.get(id(st), [])):
            return True
        from .paths import implied_atoms
        for t, v in g.get(id(st), []):
            if implied_atoms(t, v).get(want) is True:
                return True
        # to the right of the membership test in the same `and` chain
        if isinstance(st, (ast.If, ast.While)) and isinstance(st.test, ast.BoolOp) and isinstance(st.test.op, ast.And):
            seen = False
            for v in st.test.values:
                if any(x is sub for x in ast.walk(v)):
                    return seen
                if ast.unparse(v) == want:
                    seen = True
        return False

    # ------------------------------------------------------------------ escape sets
    def escapes(self, fi, _stack=None):
        q = fi.qual
        if q in self.esc:
            return self.esc[q]
        self.esc[q] = set()
        # iterate to a fixpoint over the strongly connected component lazily
        for _ in range(6):
            new = self._once(fi)
            if new == self.esc[q]:
                break
            self.esc[q] = new
        return self.esc[q]

    def node_raises(self, fi, lt, feasible=None, len_guard=None):
        def raises(node):
            if feasible is not None and isinstance(node, ast.AST) and hasattr(node, "lineno") and not feasible(node):
                return set()
            out = set()
            for n in walk_no_nested(node):
                if isinstance(n, ast.Call):
                    callees, note = self.resolve_call(fi, n, lt)
                    for c in callees:
                        e = self.escapes(c)
                        for x in e:
                            self.origin.setdefault((fi.qual, x), f"call {call_name(n)} -> {c.qual}")
                        out |= e
                    if note == "unresolved":
                        self.unresolved.setdefault(fi.qual, set()).add(call_name(n))
            # property setters invoked by attribute stores
            for n in walk_no_nested(node):
                if isinstance(n, (ast.Assign, ast.AugAssign)):
                    tgts = n.targets if isinstance(n, ast.Assign) else [n.target]
                    for t in tgts:
                        if isinstance(t, ast.Attribute):
                            rc = self._type_of(fi, t.value, lt)
                            if rc is not None:
                                r = rc.find_prop(t.attr, "set")
                                if r is not None:
                                    sf = self.repo.funcs.get(f"{r[0].qual}.{t.attr}[setter]")
                                    if sf is not None and sf is not fi:
                                        e = self.escapes(sf)
                                        for x in e:
                                            self.origin.setdefault((fi.qual, x), f"setter {sf.qual}")
                                        out |= e
            hz = self.hazards(fi, node, {"len_guard": len_guard or (lambda n: False), "lt": lt})
            for x in hz:
                self.origin.setdefault((fi.qual, x), f"hazard in `{ast.unparse(node)[:60]}` ({fi.where(node)})")
            out |= hz
            return out

        def handler_resolver(name, fi=fi):
            """`except NAME` where NAME is a module-level tuple of exception classes."""
            sym = self.repo.resolve(fi.mod, name)
            if sym is not None and sym.kind == "const" and isinstance(sym.node, ast.Tuple):
                return [ast.unparse(e).split(".")[-1] for e in sym.node.elts]
            return None
        raises.handler_resolver = handler_resolver
        return raises

    def _once(self, fi):
        lt = self.local_types(fi)
        feas = bytes_path_feasibility(fi)
        lg = length_guards(self.repo, fi)
        cfg = CFG(fi.node, self.node_raises(fi, lt, feas, lg), self.hier)
        esc = set(cfg.escapes)
        # API-misuse guards: raise whose whole controlling condition is (not) isinstance(<param>, T)
        misuse = api_misuse_raises(fi)
        if misuse:
            cfg2 = CFG(fi.node, self.node_raises(fi, lt, feas, lg), self.hier)
            esc = _escapes_without(fi, self, lt, misuse, feas, lg)
        for n in walk_no_nested(fi.node):
            if isinstance(n, ast.Raise) and n.exc is not None:
                e = n.exc.func if isinstance(n.exc, ast.Call) else n.exc
                nm = ast.unparse(e).split(".")[-1]
                self.origin.setdefault((fi.qual, nm), f"raise {nm} ({fi.where(n)})")
        return esc


def _escapes_without(fi, R, lt, skip_raises, feas, lg):
    """Rebuild the CFG treating the given Raise statements as absent (API-misuse guards)."""
    class Strip(ast.NodeTransformer):
        def visit_Raise(self, node):
            if any(node is s for s in skip_raises):
                return ast.Pass()
            return node
    import copy
    # transform on a deep copy while keeping identity mapping for skip detection: mark by position
    marks = {(s.lineno, s.col_offset) for s in skip_raises}

    class Strip2(ast.NodeTransformer):
        def visit_Raise(self, node):
            if (node.lineno, node.col_offset) in marks:
                return ast.copy_location(ast.Pass(), node)
            return node
    fn2 = Strip2().visit(copy.deepcopy(fi.node))
    ast.fix_missing_locations(fn2)
    cfg = CFG(fn2, R.node_raises(fi, lt, feas, lg), R.hier)
    return set(cfg.escapes)


def api_misuse_raises(fi):
    """Raise statements whose innermost guard is `isinstance(<param>, T)` being false (the properties quantify over
    well-typed use).  Shape independent: guard clause or else-branch."""
    from .astutil import guards
    g = guards(fi.node)
    params = set(fi.params())
    out = []
    for n in walk_no_nested(fi.node):
        if isinstance(n, ast.Raise) and g.get(id(n)):
            t, v = g[id(n)][-1]
            if v is False and isinstance(t, ast.Call) and call_name(t) == "isinstance" and len(t.args) == 2 \
                    and isinstance(t.args[0], ast.Name) and t.args[0].id in params:
                out.append(n)
    return out


def _wire_like(e, fi):
    """Expression that denotes bytes taken from the wire: the first data-like parameter, `.data`, `stream`."""
    if isinstance(e, ast.Subscript):
        return _wire_like(e.value, fi)
    t = ast.unparse(e)
    if t in ("stream", "data", "avp.data", "avp._data", "self.data", "header_stream", "avp_stream"):
        return True
    if t.endswith(".data") or t.endswith("._data"):
        return True
    return False


def bytes_path_feasibility(fi):
    """For type constructors / parser_data / encode: statements only reachable when the data parameter is NOT bytes are
    not part of the decode path.  Returns predicate(node)->bool or None."""
    if fi.cls is None or fi.name not in ("__init__", "parser_data", "encode"):
        return None
    params = [p for p in fi.params() if p != "self"]
    if not params or params[0] not in ("data",):
        return None
    p = params[0]
    dead = set()

    def is_bytes_test(t):
        return isinstance(t, ast.Call) and call_name(t) == "isinstance" and len(t.args) == 2 and \
            isinstance(t.args[0], ast.Name) and t.args[0].id == p

    def walk(stmts, assume_reassigned=False):
        for s in stmts:
            if isinstance(s, ast.If):
                t = s.test
                neg = False
                if isinstance(t, ast.UnaryOp) and isinstance(t.op, ast.Not):
                    neg, t = True, t.operand
                if is_bytes_test(t):
                    names = [x.strip() for x in ast.unparse(t.args[1]).strip("()").split(",")]
                    truth = "bytes" in names
                    if neg:
                        truth = not truth
                    (mark(s.orelse) if truth else mark(s.body))
                    walk(s.body if truth else s.orelse)
                    continue
                walk(s.body)
                walk(s.orelse)
            elif isinstance(s, (ast.For, ast.While, ast.With, ast.Try)):
                for b in ("body", "orelse", "finalbody"):
                    walk(getattr(s, b, []) or [])
                for h in getattr(s, "handlers", []) or []:
                    walk(h.body)

    def mark(stmts):
        for s in stmts:
            for n in ast.walk(s):
                if hasattr(n, "lineno"):
                    dead.add((n.lineno, n.col_offset, type(n).__name__))
    walk(fi.node.body)
    if not dead:
        return None
    return lambda node: (getattr(node, "lineno", -1), getattr(node, "col_offset", -1), type(node).__name__) not in dead


def length_guards(repo, fi):
    """Predicate saying that an integer subscript X[i] is protected by a dominating `len(X) < c -> raise` (c > i)
    or `len(X) != c -> raise` guard in the same function (structural: an earlier top-level If that raises)."""
    guards = {}
    for s in fi.node.body:
        if isinstance(s, ast.If) and any(isinstance(b, ast.Raise) for b in s.body) and isinstance(s.test, ast.Compare) \
                and len(s.test.ops) == 1 and isinstance(s.test.left, ast.Call) and call_name(s.test.left) == "len" and s.test.left.args:
            x = ast.unparse(s.test.left.args[0])
            c = repo.fold(fi.mod, s.test.comparators[0])
            if isinstance(c, int):
                if isinstance(s.test.ops[0], ast.Lt):
                    guards[x] = max(guards.get(x, 0), c)
                elif isinstance(s.test.ops[0], ast.NotEq):
                    guards[x] = max(guards.get(x, 0), c)
                elif isinstance(s.test.ops[0], ast.LtE):
                    guards[x] = max(guards.get(x, 0), c + 1)
            first_line = s.lineno
            guards.setdefault("__line__" + x, first_line)
    if not guards:
        return None

    def ok(sub):
        x = ast.unparse(sub.value)
        if x in guards and isinstance(sub.slice, ast.Constant) and isinstance(sub.slice.value, int):
            return 0 <= sub.slice.value < guards[x] and sub.lineno > guards.get("__line__" + x, 0)
        return False
    return ok


def _guarded_by_has_avp(fi, attr_node):
    """Is the read `X.<name>_avp` lexically inside the body of an `if` whose test contains `X.has_avp('<name>[_avp]')`
    (possibly as a conjunct), or to the right of such a conjunct in the same `and` chain?"""
    x = ast.unparse(attr_node.value)
    name = attr_node.attr
    short = name[:-4]
    wants = {f"{x}.has_avp('{name}')", f"{x}.has_avp('{short}')"}

    def test_has(t):
        if isinstance(t, ast.BoolOp) and isinstance(t.op, ast.And):
            return any(test_has(v) for v in t.values)
        if isinstance(t, ast.Name):
            # a local that holds the answer of has_avp (bound once, before)
            defs = [n.value for n in walk_no_nested(fi.node) if isinstance(n, ast.Assign) and len(n.targets) == 1
                    and isinstance(n.targets[0], ast.Name) and n.targets[0].id == t.id]
            return len(defs) == 1 and ast.unparse(defs[0]) in wants
        return ast.unparse(t) in wants

    def visit(stmts, guarded):
        for s in stmts:
            if isinstance(s, ast.If):
                if any(y is attr_node for y in ast.walk(s.test)):
                    # inside the test itself: guarded by an earlier conjunct
                    t = s.test
                    if isinstance(t, ast.BoolOp) and isinstance(t.op, ast.And):
                        seen = False
                        for v in t.values:
                            if any(y is attr_node for y in ast.walk(v)):
                                return guarded or seen
                            if test_has(v):
                                seen = True
                    return guarded
                r = visit(s.body, guarded or test_has(s.test))
                if r is not None:
                    return r
                r = visit(s.orelse, guarded)
                if r is not None:
                    return r
            else:
                hit = any(y is attr_node for y in ast.walk(s))
                if hit and not isinstance(s, (ast.For, ast.While, ast.With, ast.Try)):
                    return guarded
                for f in ("body", "orelse", "finalbody"):
                    b = getattr(s, f, None)
                    if isinstance(b, list):
                        r = visit(b, guarded)
                        if r is not None:
                            return r
                for h in getattr(s, "handlers", []) or []:
                    r = visit(h.body, guarded)
                    if r is not None:
                        return r
                if hit:
                    return guarded
        return None
    r = visit(fi.node.body, False)
    return bool(r)
