#!/venv/bin/python
"""Entry point: /venv/bin/python /verif/bsa/check.py --property Cxx [--tier quick|thorough] [--repo /repo]

exit 0 = every obligation HOLDS (or is a listed known finding)
exit 1 = VIOLATION (unlisted violated obligation)
exit 2 = ANALYSIS-ERROR (undecided obligation, vanished anchor, floor not met, internal error)
"""
import argparse
import importlib
import os
import sys

HERE = os.path.dirname(os.path.abspath(__file__))
sys.path.insert(0, os.path.dirname(HERE))

from bsa import core  # noqa: E402


def main(argv=None):
    ap = argparse.ArgumentParser()
    ap.add_argument("--property", required=True)
    ap.add_argument("--tier", default=os.environ.get("VERIF_TIER") or "quick", choices=["quick", "thorough"])
    ap.add_argument("--repo", default="/repo")
    ap.add_argument("--evidence-dir", default=None)
    ap.add_argument("--no-selftest", action="store_true")
    a = ap.parse_args(argv)
    prop = a.property.upper()
    if prop == "SETUP":
        from bsa import setupcheck
        return setupcheck.main()
    try:
        mod = importlib.import_module(f"bsa.props.{prop.lower()}")
    except Exception as e:   # noqa
        print(f"ANALYSIS-ERROR property={prop} cannot load checker: {type(e).__name__}: {e}")
        return 2
    code = core.run_property(prop, mod.check, getattr(mod, "META", {}), a.repo, a.tier, a.evidence_dir)
    if a.tier == "thorough" and not a.no_selftest and code in (0,):
        try:
            from bsa import selftest
            st = selftest.run(prop, a.repo)
        except Exception as e:   # noqa
            import traceback
            print(f"ANALYSIS-ERROR property={prop} self-test crashed: {type(e).__name__}: {e}")
            traceback.print_exc()
            return 2
        if st.get("failed"):
            for f in st["failed"]:
                print(f"ANALYSIS-ERROR property={prop} self-test: {f}")
            code = 2
        core.append_selftest_evidence(prop, st, a.evidence_dir)
    return code


if __name__ == "__main__":
    try:
        rc = main()
    except SystemExit:
        raise
    except BaseException as e:   # noqa
        import traceback
        traceback.print_exc()
        print(f"ANALYSIS-ERROR internal {type(e).__name__}: {e}")
        rc = 2
    sys.stdout.flush()
    os._exit(rc)
