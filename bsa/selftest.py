"""Two-way self-test of the rules (thorough tier): AST-computed mutants of the current tree must turn a
named obligation VIOLATED; behaviour-preserving variants must stay HOLDS.  Filled in per property."""
import importlib


def run(prop, repo_root):
    try:
        mod = importlib.import_module(f"bsa.mutants.{prop.lower()}")
    except ModuleNotFoundError:
        import types
        mod = types.SimpleNamespace(MUTANTS=[], NEUTRAL=[], MIN_APPLICABLE=0)
    from .mutants import harness
    return harness.run(prop, repo_root, mod)
