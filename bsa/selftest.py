"""Two-way self-test of the rules (thorough tier): AST-computed mutants of the current tree must turn a
named obligation VIOLATED; behaviour-preserving variants must stay HOLDS.  Filled in per property."""
import importlib


def run(prop, repo_root):
    try:
        mod = importlib.import_module(f"bsa.mutants.{prop.lower()}")
    except ModuleNotFoundError:
        return {"mutants": 0, "neutral": 0, "failed": [], "note": "no self-test registered for this property yet"}
    from .mutants import harness
    return harness.run(prop, repo_root, mod)
