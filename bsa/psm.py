"""Path table of the peer state machine: bounded path enumeration of each state's run() with the
same-class event_* helpers inlined (A7)."""
import ast

from .astutil import call_name, kwarg
from .paths import enum_paths

SM = "bromelia.statemachine"
STATE_CLASSES = ["Closed", "WaitConnAck", "WaitInitiatorCEA", "Open", "Closing", "WaitReturns", "WaitConnAckElect"]


class SPath:
    def __init__(self, state, path, atoms, effects):
        self.state, self.path, self.atoms, self.effects = state, path, atoms, effects

    def atom(self, name):
        return self.atoms.get(name)

    def next_state(self):
        last = None
        for e in self.effects:
            if e[0] == "set_state":
                last = e[1]
        return last

    def sends(self):
        return [e[1] for e in self.effects if e[0] == "send"]

    def has_effect(self, kind):
        return any(e[0] == kind for e in self.effects)

    def index(self, pred):
        for i, e in enumerate(self.effects):
            if pred(e):
                return i
        return None

    def describe(self):
        a = ",".join(f"{k}={'T' if v else 'F'}" for k, v in self.atoms.items())
        e = ";".join(f"{x[0]}({x[1]})" if len(x) > 1 and x[1] else x[0] for x in self.effects)
        return f"[{self.state}] {a} => {e}"


def canonical_atom(repo, mod, ci, test):
    """Name of a predicate call used as (part of) a condition."""
    if isinstance(test, ast.Call):
        f = test.func
        if isinstance(f, ast.Name):
            sym = repo.resolve(mod, f.id)
            if sym is not None and sym.kind == "func":
                return sym.node.name
            return f.id
        if isinstance(f, ast.Attribute):
            return f.attr
    return None


def state_paths(repo, cls_name, limit=20000):
    m = repo.mods.get(SM)
    ci = repo.cls(f"{SM}.{cls_name}")
    if ci is None:
        return None, []
    run = ci.find_method("run")
    if run is None:
        return ci, []
    run_fn = run[1]

    def inline(call):
        n = call_name(call)
        if n.startswith("self.event_"):
            r = ci.find_method(n[5:])
            if r is not None:
                return (n[5:], r[1].body)
        return None

    def decide(test, events):
        # the same predicate expression evaluates the same way twice on one tick
        t = ast.unparse(test)
        for e in events:
            if e[0] == "cond" and ast.unparse(e[1]) == t:
                return e[2]
        return None

    out = []
    for p in enum_paths(run_fn.body, decide=decide, inline=inline, limit=limit, loops="skip"):
        atoms = {}
        effects = []
        env = {}
        for e in p.events:
            if e[0] == "cond":
                _collect_atoms(repo, m, ci, e[1], e[2], atoms)
            elif e[0] == "stmt":
                s = e[1]
                if isinstance(s, ast.Assign) and len(s.targets) == 1:
                    tgt = ast.unparse(s.targets[0])
                    env[tgt] = s.value
                    if isinstance(s.value, ast.Call):
                        _effect(repo, m, ci, s.value, env, effects, bound=tgt)
                elif isinstance(s, ast.Expr) and isinstance(s.value, ast.Call):
                    _effect(repo, m, ci, s.value, env, effects)
            elif e[0] == "enter":
                effects.append(("event", e[1]))
        out.append(SPath(cls_name, p, atoms, effects))
    return ci, out


def _collect_atoms(repo, m, ci, test, truth, atoms):
    if isinstance(test, ast.UnaryOp) and isinstance(test.op, ast.Not):
        _collect_atoms(repo, m, ci, test.operand, not truth, atoms)
        return
    if isinstance(test, ast.BoolOp):
        if (isinstance(test.op, ast.And) and truth) or (isinstance(test.op, ast.Or) and not truth):
            for v in test.values:
                _collect_atoms(repo, m, ci, v, truth, atoms)
        return
    name = canonical_atom(repo, m, ci, test)
    if name:
        atoms[name] = truth


def _msg_desc(e, env):
    if e is None:
        return "<queue>"
    t = ast.unparse(e)
    if t in env or isinstance(e, ast.Call):
        v = env[t] if t in env else e          # (the answer may be built in place, without a local)
        if isinstance(v, ast.Call) and call_name(v).endswith("create_answer"):
            arg = kwarg(v, "msg") or (v.args[0] if v.args else None)
            return f"create_answer({ast.unparse(arg) if arg is not None else ''})"
        return ast.unparse(v)
    if t.startswith("self.association.base."):
        return "base." + t.rsplit(".", 1)[1]
    return t


def _effect(repo, m, ci, call, env, effects, bound=None):
    n = call_name(call)
    if n == "self.send_message":
        arg = kwarg(call, "msg") or (call.args[0] if call.args else None)
        if isinstance(arg, ast.Call):
            _effect(repo, m, ci, arg, env, effects)       # the argument is evaluated first
        effects.append(("send", _msg_desc(arg, env)))
    elif n == "self.notify_postprocess_message" or n.endswith("postprocess_recv_messages.put"):
        # delivery to the application: through the helper, or its body written in place
        effects.append(("deliver", ast.unparse(call.args[0]) if call.args else ""))
    elif n.startswith("self.set_") and n.endswith("_state"):
        st = n[len("self.set_"):-len("_state")]
        flags = sorted(k.arg for k in call.keywords if isinstance(k.value, ast.Constant) and k.value.value is True)
        effects.append(("set_state", st, tuple(flags)))
    elif n == "self.get_message":
        effects.append(("get_message", bound or ""))
    elif n.endswith("create_answer"):
        effects.append(("create_answer", bound or ""))
    elif n == "self.processor.check_message":
        effects.append(("check_message", ""))
    elif n == "self.association.tracking_events":
        effects.append(("tracking_events", ""))
    elif n.startswith("self.event_"):
        pass
    elif n.endswith(".debug") or n.endswith("make_default_logging") or n == "make_logging":
        pass
    else:
        effects.append(("call", n))
