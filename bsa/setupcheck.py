"""setup_cmd: validates the committed JSON tables and runs the engine's unit self-checks on
embedded snippets (no access to /repo needed)."""
import ast
import importlib
import json
import os
import pkgutil

from .core import VERIF
from .cfg import CFG, ExcHierarchy


SNIPPET = '''
def f(self, x):
    self.lock.acquire()
    try:
        if x:
            return 1
        g(x)
    finally:
        self.lock.release()
    for i in x:
        if i:
            break
    else:
        raise ValueError("no")
    with self.lock:
        h()
    return 2
'''


def engine_selfcheck():
    fn = ast.parse(SNIPPET).body[0]

    def raises(node):
        return {"*"} if any(isinstance(n, ast.Call) and getattr(n.func, "id", "") in ("g", "h")
                            for n in ast.walk(node)) else set()
    cfg = CFG(fn, raises, None)
    assert cfg.exit in cfg.reachable(), "normal exit unreachable"
    assert cfg.rexit in cfg.reachable(), "exceptional exit unreachable"
    assert "ValueError" in cfg.escapes and "*" in cfg.escapes, cfg.escapes
    dom = cfg.dominators()
    acq = [n.id for n in cfg.nodes.values() if n.kind == "stmt" and "acquire" in ast.unparse(n.ast)]
    assert all(acq[0] in dom[n] for n in cfg.reachable() if n != cfg.entry), "acquire must dominate everything"
    # every path to either exit passes a release
    rel = {n.id for n in cfg.nodes.values() if n.kind == "stmt" and "release" in ast.unparse(n.ast)}
    seen, st = {cfg.entry}, [cfg.entry]
    while st:
        n = st.pop()
        assert n not in (cfg.exit, cfg.rexit), "path avoiding release in finally"
        for m, _ in cfg.succ.get(n, []):
            if m not in seen and m not in rel:
                seen.add(m)
                st.append(m)
    return True


def main():
    ok = True
    for rel in ("known_findings.json",):
        p = os.path.join(VERIF, rel)
        try:
            d = json.load(open(p))
            for f in d.get("findings", []):
                for k in ("property", "rule", "construct", "what_fails"):
                    assert k in f, f"{rel}: finding without {k}"
        except Exception as e:   # noqa
            print(f"SETUP-ERROR {rel}: {e}")
            ok = False
    refdir = os.path.join(VERIF, "reference")
    for f in sorted(os.listdir(refdir)):
        if f.endswith(".json"):
            try:
                json.load(open(os.path.join(refdir, f)))
            except Exception as e:   # noqa
                print(f"SETUP-ERROR reference/{f}: {e}")
                ok = False
    try:
        engine_selfcheck()
    except AssertionError as e:
        print(f"SETUP-ERROR engine self-check: {e}")
        ok = False
    from . import props
    n = 0
    for m in pkgutil.iter_modules(props.__path__):
        try:
            mod = importlib.import_module(f"bsa.props.{m.name}")
            if m.name.startswith("_"):
                continue              # shared helper module of several checkers, not a checker
            assert hasattr(mod, "check")
            n += 1
        except Exception as e:   # noqa
            print(f"SETUP-ERROR props.{m.name}: {type(e).__name__}: {e}")
            ok = False
    # the layers every rule now depends on must load, and the frozen inventory must be readable
    try:
        from . import normalize, sym
        inv = normalize.load_inventory()
        assert len(inv["functions"]) > 600, "reference/inventory.json looks truncated"
        it = sym.Interp()
        import ast as _ast
        ps = it.run(_ast.parse("x = a + 1\nif x > a:\n    y = 1\nelse:\n    y = 2").body, sym.PathState({"a": sym.S("int:a")}, [], []))
        assert len(ps) == 1 and ps[0].get("y") == 1, "term interpreter: linear comparison not decided"
    except Exception as e:   # noqa
        print(f"SETUP-ERROR normal form / term interpreter: {type(e).__name__}: {e}")
        ok = False
    print(f"setup: {'ok' if ok else 'FAILED'} ({n} property checkers importable)")
    return 0 if ok else 1
