"""A7: bounded path enumeration over structured (loop-free or loop-summarised) statement lists.

A path is a list of events:
  ("cond", test_ast, truth)      branch taken
  ("stmt", stmt_ast)             simple statement executed
  ("enter", callee_name) / ("leave", callee_name)   inlined helper boundaries
  ("try-exc", try_ast, handler)  control entered an except handler
and a terminator: "fall" | "return" | "raise" | "break" | "continue".
"""
import ast


class Path:
    __slots__ = ("events", "term", "term_node")

    def __init__(self, events, term="fall", term_node=None):
        self.events, self.term, self.term_node = events, term, term_node

    def stmts(self):
        return [e[1] for e in self.events if e[0] == "stmt"]

    def conds(self):
        return [(e[1], e[2]) for e in self.events if e[0] == "cond"]

    def calls(self):
        """Calls in execution order: (call ast, event index)."""
        out = []
        for i, e in enumerate(self.events):
            if e[0] == "stmt":
                node = e[1]
            elif e[0] == "cond":
                node = e[1]
            else:
                continue
            cs = [n for n in ast.walk(node) if isinstance(n, ast.Call)]
            cs.sort(key=lambda c: (c.lineno, c.col_offset))
            # inner calls evaluate before outer ones
            cs.sort(key=lambda c: (c.end_lineno, c.end_col_offset))
            for c in cs:
                out.append((c, i))
        return out


class TooManyPaths(Exception):
    pass


def enum_paths(stmts, decide=None, inline=None, limit=20000, loops="skip", depth=0, max_depth=3):
    """decide(test_ast, events_so_far) -> True/False/None prunes branches.
    inline(call_ast) -> (name, stmts) or None: inline a helper called as an expression statement.
    loops: "skip" = a loop is one opaque ("stmt", loop) event; "once" = body executed 0 or 1 times."""
    counter = [0]

    def seq(ss, events):
        if not ss:
            yield Path(events)
            return
        s, rest = ss[0], ss[1:]
        for p in one(s, events):
            if p.term == "fall":
                yield from seq(rest, p.events)
            else:
                yield p

    def one(s, events):
        counter[0] += 1
        if counter[0] > limit:
            raise TooManyPaths()
        if isinstance(s, ast.If):
            d = decide(s.test, events) if decide else None
            if d is not False:
                yield from seq(s.body, events + [("cond", s.test, True)])
            if d is not True:
                yield from seq(s.orelse, events + [("cond", s.test, False)])
            return
        if isinstance(s, ast.Return):
            yield Path(events + [("stmt", s)], "return", s)
            return
        if isinstance(s, ast.Raise):
            yield Path(events + [("stmt", s)], "raise", s)
            return
        if isinstance(s, ast.Break):
            yield Path(events, "break", s)
            return
        if isinstance(s, ast.Continue):
            yield Path(events, "continue", s)
            return
        if isinstance(s, (ast.With, ast.AsyncWith)):
            ev = events + [("stmt", ast.Expr(value=it.context_expr, lineno=s.lineno, col_offset=s.col_offset,
                                             end_lineno=s.lineno, end_col_offset=s.col_offset))
                           for it in s.items]
            yield from seq(s.body, ev)
            return
        if isinstance(s, ast.Try):
            # normal completion of the body (+ else), then finally
            for p in seq(s.body + s.orelse, events):
                if s.finalbody and p.term in ("fall",):
                    yield from seq(s.finalbody, p.events)
                elif s.finalbody:
                    for q in seq(s.finalbody, p.events):
                        yield Path(q.events, p.term if q.term == "fall" else q.term, p.term_node)
                else:
                    yield p
            # each handler: the body raised somewhere (we do not know where): events of the body are unknown
            for h in s.handlers:
                ev = events + [("try-exc", s, h)]
                for p in seq(h.body, ev):
                    if s.finalbody and p.term == "fall":
                        yield from seq(s.finalbody, p.events)
                    else:
                        yield p
            return
        if isinstance(s, (ast.For, ast.While)):
            if loops == "skip":
                yield Path(events + [("stmt", s)])
            else:
                yield Path(events + [("cond", s.test if isinstance(s, ast.While) else s.iter, False)])
                for p in seq(s.body, events + [("cond", s.test if isinstance(s, ast.While) else s.iter, True)]):
                    if p.term in ("break", "continue", "fall"):
                        yield Path(p.events)
                    else:
                        yield p
            return
        if isinstance(s, (ast.FunctionDef, ast.ClassDef, ast.AsyncFunctionDef)):
            yield Path(events)
            return
        # simple statement, maybe an inlinable helper call
        if inline and isinstance(s, ast.Expr) and isinstance(s.value, ast.Call) and depth < max_depth:
            r = inline(s.value)
            if r is not None:
                name, body = r
                ev = events + [("stmt", s), ("enter", name)]
                for p in enum_paths(body, decide, inline, limit, loops, depth + 1, max_depth):
                    ev2 = ev + p.events[0:] if False else None
                    merged = ev + p.events + [("leave", name)]
                    if p.term in ("fall", "return"):
                        yield Path(merged)
                    else:
                        yield Path(merged, p.term, p.term_node)
                return
        yield Path(events + [("stmt", s)])

    yield from seq(list(stmts), [])


def eval_bool(test, atom):
    """Three-valued evaluation of a boolean expression given atom(expr)->True/False/None."""
    v = atom(test)
    if v is not None:
        return v
    if isinstance(test, ast.UnaryOp) and isinstance(test.op, ast.Not):
        r = eval_bool(test.operand, atom)
        return None if r is None else (not r)
    if isinstance(test, ast.BoolOp):
        vals = [eval_bool(v, atom) for v in test.values]
        if isinstance(test.op, ast.And):
            if any(v is False for v in vals):
                return False
            if all(v is True for v in vals):
                return True
            return None
        if any(v is True for v in vals):
            return True
        if all(v is False for v in vals):
            return False
        return None
    if isinstance(test, ast.Constant):
        return bool(test.value)
    return None


def decide_by_assignments(test, events):
    """Decide `X is None` / `X is not None` / `X` / `not X` from the last assignment to the local X on
    this path (constant None -> None; a constructor call / literal -> not None).  Otherwise None."""
    neg = False
    t = test
    if isinstance(t, ast.UnaryOp) and isinstance(t.op, ast.Not):
        neg, t = True, t.operand
    name, want_none = None, None
    if isinstance(t, ast.Compare) and len(t.ops) == 1 and isinstance(t.left, ast.Name) \
            and isinstance(t.comparators[0], ast.Constant) and t.comparators[0].value is None:
        name = t.left.id
        want_none = isinstance(t.ops[0], (ast.Is, ast.Eq))
        if not isinstance(t.ops[0], (ast.Is, ast.Eq, ast.IsNot, ast.NotEq)):
            return None
    elif isinstance(t, ast.Name):
        name, want_none = t.id, False
    else:
        return None
    last = None
    for e in events:
        if e[0] == "stmt" and isinstance(e[1], ast.Assign):
            for tg in e[1].targets:
                if isinstance(tg, ast.Name) and tg.id == name:
                    last = e[1].value
    if last is None:
        return None
    if isinstance(last, ast.Constant) and last.value is None:
        is_none = True
    elif isinstance(last, ast.Call) and isinstance(last.func, ast.Name) and last.func.id[:1].isupper():
        is_none = False
    elif isinstance(last, ast.Call) and ast.unparse(last.func) in ("int", "len", "int.from_bytes", "bytes", "str",
                                                                   "convert_to_integer_from_bytes"):
        is_none = False          # these never return None
    else:
        return None
    res = (is_none == want_none)
    return (not res) if neg else res


def bool_atoms(test):
    """maximal sub-expressions of a test that are not and/or/not; negative comparison operators are made positive"""
    out = []

    def walk(t):
        if isinstance(t, ast.BoolOp):
            for v in t.values:
                walk(v)
        elif isinstance(t, ast.UnaryOp) and isinstance(t.op, ast.Not):
            walk(t.operand)
        else:
            out.append(t)
    walk(test)
    return out


def _atom_key(t):
    if isinstance(t, ast.Compare) and len(t.ops) == 1 and isinstance(t.ops[0], (ast.IsNot, ast.NotEq, ast.NotIn)):
        pos = {ast.IsNot: ast.Is, ast.NotEq: ast.Eq, ast.NotIn: ast.In}[type(t.ops[0])]
        return ast.unparse(ast.Compare(left=t.left, ops=[pos()], comparators=t.comparators)), True
    return ast.unparse(t), False


def implied_atoms(test, truth):
    """{atom text: bool} for the atoms whose value is forced by `test == truth` (truth-table over at most 10 atoms)."""
    atoms = bool_atoms(test)
    keys = []
    for a in atoms:
        k, _ = _atom_key(a)
        if k not in keys:
            keys.append(k)
    if len(keys) > 10:
        return {}
    forced = None
    for bits in range(1 << len(keys)):
        asg = {k: bool(bits >> i & 1) for i, k in enumerate(keys)}

        def atom(e):
            if isinstance(e, (ast.BoolOp,)) or (isinstance(e, ast.UnaryOp) and isinstance(e.op, ast.Not)):
                return None
            k, flipped = _atom_key(e)
            if k in asg:
                return (not asg[k]) if flipped else asg[k]
            return None
        if eval_bool(test, atom) is truth:
            forced = dict(asg) if forced is None else {k: v for k, v in forced.items() if asg[k] == v}
    return forced or {}
