"""Obligation bookkeeping, evidence writer, known-findings handling, exit codes."""
import json
import os
import sys
import time
import traceback

from .loader import Repo, load_repo, norm_stmt

VERIF = os.path.dirname(os.path.dirname(os.path.abspath(__file__)))
HOLDS, VIOLATED, UNDECIDED = "HOLDS", "VIOLATED", "UNDECIDED"


class AnalysisError(Exception):
    """The analysis itself cannot proceed (vanished anchor, floor not met)."""


class Ob:
    __slots__ = ("prop", "clause", "rule", "construct", "where", "verdict", "detail", "key", "nontrivial", "witness")

    def __init__(self, prop, clause, rule, construct, where, verdict, detail, key, nontrivial, witness=None):
        self.prop, self.clause, self.rule, self.construct = prop, clause, rule, construct
        self.where, self.verdict, self.detail, self.key = where, verdict, detail, key
        self.nontrivial, self.witness = nontrivial, witness

    def ident(self):
        return (self.prop, self.rule, self.construct, self.key)

    def to_json(self):
        d = {"clause": self.clause, "rule": self.rule, "construct": self.construct,
             "where": self.where, "verdict": self.verdict, "detail": self.detail, "key": self.key}
        if self.witness is not None:
            d["witness"] = self.witness
        return d


class Ctx:
    def __init__(self, repo, prop, tier="quick"):
        self.repo = repo
        self.prop = prop
        self.tier = tier
        self.obs = []
        self._seen = set()
        self.analysed = {}
        self.notes = []
        self.advisories = []
        self.extra = {}
        self.clause = None

    # -- recording -----------------------------------------------------
    def _add(self, verdict, rule, construct, where, detail, key, nontrivial, witness):
        if hasattr(key, "lineno") or hasattr(key, "_fields"):
            key = norm_stmt(key)
        sig = (self.clause, rule, construct, key or "", verdict, detail)
        if sig in self._seen:
            return
        self._seen.add(sig)
        self.obs.append(Ob(self.prop, self.clause, rule, construct, where, verdict, detail,
                           key or "", nontrivial, witness))

    def hold(self, rule, construct, where, detail="", key="", nontrivial=True):
        self._add(HOLDS, rule, construct, where, detail, key, nontrivial, None)

    def violate(self, rule, construct, where, detail, key="", witness=None):
        self._add(VIOLATED, rule, construct, where, detail, key, True, witness)

    def undecided(self, rule, construct, where, detail, key=""):
        self._add(UNDECIDED, rule, construct, where, detail, key, True, None)

    def decide(self, ok, rule, construct, where, detail_ok="", detail_bad="", key="", nontrivial=True, witness=None):
        if ok:
            self.hold(rule, construct, where, detail_ok, key, nontrivial)
        else:
            self.violate(rule, construct, where, detail_bad or detail_ok, key, witness)
        return ok

    def floor(self, what, count, minimum, hard=False):
        """instance-count floor: a shortfall makes the run analysis-broken (exit 2).  Deferred to the end of the checker, so that a
        change that removes instances AND violates a rule is still reported as the violation it is."""
        self.analysed[what] = count
        if count < minimum:
            msg = f"floor not met: {what} = {count} < {minimum} confirmed by hand"
            if hard:
                raise AnalysisError(msg)
            self.__dict__.setdefault("floor_failures", []).append(msg)

    def count(self, what, n):
        self.analysed[what] = n

    def need(self, obj, what):
        if obj is None:
            raise AnalysisError(f"anchor vanished: {what}")
        return obj

    def advisory(self, text):
        self.advisories.append(text)


def load_known():
    p = os.path.join(VERIF, "known_findings.json")
    if not os.path.exists(p):
        return {"findings": [], "fixed": []}
    return json.load(open(p))


def run_property(prop, checker, meta, repo_root, tier, evidence_dir=None, quiet=False):
    """Run one property's checker; returns exit code."""
    t0 = time.time()
    out = []

    def say(s):
        out.append(s)
        if not quiet:
            print(s, flush=True)

    evidence_dir = evidence_dir or os.path.join(VERIF, "evidence")
    os.makedirs(evidence_dir, exist_ok=True)
    ev_path = os.path.join(evidence_dir, f"{prop}.json")
    viol_path = os.path.join(evidence_dir, f"{prop}.violations.json")
    seed = int(os.environ.get("VERIF_SEED", "0") or 0)
    ctx = None
    error = None
    try:
        repo = load_repo(repo_root)
        ctx = Ctx(repo, prop, tier)
        ctx.floor("modules", len(repo.mods), 80, hard=True)
        checker(ctx)
        if getattr(ctx, "floor_failures", None):
            raise AnalysisError("; ".join(ctx.floor_failures))
    except AnalysisError as e:
        error = f"{e}"
    except Exception as e:      # internal failure of the analysis
        error = f"internal: {type(e).__name__}: {e}\n{traceback.format_exc()}"

    obs = ctx.obs if ctx else []
    known = load_known()
    known_idx = {}
    for f in known.get("findings", []):
        known_idx[(f["property"], f["rule"], f["construct"], f.get("key", ""))] = f
    viol = [o for o in obs if o.verdict == VIOLATED]
    und = [o for o in obs if o.verdict == UNDECIDED]
    new, listed = [], []
    for o in viol:
        f = known_idx.get(o.ident())
        (listed if f else new).append((o, f))
    seen_known = set()
    for o, f in listed:
        k = o.ident()
        if k in seen_known:
            continue
        seen_known.add(k)
        say(f"KNOWN-FINDING: property={prop} {f['what_fails']} [{o.rule} @ {o.construct} {o.where}]")

    code = 0
    if error:
        say(f"ANALYSIS-ERROR property={prop} {error}")
        code = 2
    if und:
        for o in und:
            say(f"ANALYSIS-ERROR property={prop} undecided: {o.rule} @ {o.construct} {o.where}: {o.detail}")
        code = 2
    if new:
        json.dump({"property": prop, "how_to_replay": f"/venv/bin/python /verif/bsa/check.py --property {prop}",
                   "violations": [o.to_json() for o, _ in new]}, open(viol_path, "w"), indent=1)
        for o, _ in new:
            say(f"  violated: [{o.clause}] {o.rule} @ {o.construct} ({o.where}): {o.detail}")
        say(f"VIOLATION property={prop} replay={viol_path}")
        code = 1
    else:
        if os.path.exists(viol_path):
            os.remove(viol_path)

    # evidence
    nontriv = {o.ident() + (o.clause, o.where) for o in obs if o.nontrivial}
    samples = [o.to_json() for o in obs[:3]]
    # one per clause for readability
    seen_cl = set()
    for o in obs:
        if o.clause not in seen_cl:
            seen_cl.add(o.clause)
            samples.append(o.to_json())
    per_clause = {}
    for o in obs:
        d = per_clause.setdefault(o.clause or "-", {"obligations": 0, "holds": 0, "violated": 0, "undecided": 0})
        d["obligations"] += 1
        d[{"HOLDS": "holds", "VIOLATED": "violated", "UNDECIDED": "undecided"}[o.verdict]] += 1
    ev = {
        "property_id": prop,
        "tier": tier,
        "seed": seed,
        "level": "other",
        "coverage": {
            "explanation": meta.get("explanation", ""),
            "evaluations": max(1, len(obs)),
            "distinct_nontrivial": max(2, len(nontriv)) if obs else 2,
            "rule": "one evaluation per rule instance (obligation) enumerated from the current source; "
                    "non-trivial = verdict needed a path / def-use / fold / table argument (not a mere presence test); "
                    "distinct = distinct (rule, construct, statement-key, clause, location)",
            "obligations": len(obs),
            "discharged": len([o for o in obs if o.verdict == HOLDS]),
            "undecided": len(und),
            "violated_known": len(listed),
            "violated_new": len(new),
            "per_clause": per_clause,
            "samples": samples[:40],
            "analysed": ctx.analysed if ctx else {},
            "decided": meta.get("decided", []),
            "not_decided": meta.get("not_decided", []),
            "trusted_base": meta.get("trusted_base", []),
            "advisories": (ctx.advisories if ctx else [])[:50],
            "known_findings_reported": [f["what_fails"] for _, f in listed],
            "exhaustive": True,
            "checker_cmd": f"/venv/bin/python /verif/bsa/check.py --property {prop} --tier {tier}",
            "error": error,
            "extra": dict(meta.get("extra", {}), **(ctx.extra if ctx else {})),
            "normal_form": _normal_form_summary(ctx),
        },
        "assumptions": meta.get("assumptions", []),
        "wall_s": round(time.time() - t0, 3),
        "violations": len(new),
    }
    json.dump(ev, open(ev_path, "w"), indent=1, default=str)
    n_h = len([o for o in obs if o.verdict == HOLDS])
    say(f"[{prop}] tier={tier} obligations={len(obs)} holds={n_h} violated_new={len(new)} "
        f"known={len(listed)} undecided={len(und)} analysed={ctx.analysed if ctx else {}} exit={code}")
    return code


def _normal_form_summary(ctx):
    """what the normaliser (bsa/normalize.py) did to the tree that was analysed on this run"""
    nz = getattr(getattr(ctx, "repo", None), "normalizer", None) if ctx else None
    if nz is None:
        return {}
    from . import loader as _loader
    return {
        "source_digest": _loader.CACHE_INFO.get("digest"),
        "normal_form_of_this_tree": _loader.CACHE_INFO.get("state"),
        "rule": "new helpers/constants (not in reference/inventory.json) are inlined; spelling, alias and shape passes applied to every function",
        "helpers_inlined": sorted({f"{h} -> {f}" for f, h, _ in nz.log})[:60],
        "helpers_removed_after_inlining": list(getattr(nz, "dropped", []))[:60],
        "helpers_left_opaque": sorted({f"{h} in {f}: {why}" for f, h, why in nz.bailed})[:40],
        "constants_substituted": sorted({f"{m}.{n}" for m, n in nz.const_subst})[:40],
        "alias_or_literal_substitutions": getattr(nz, "alias_subst", 0),
        "spelling_rewrites": getattr(nz, "spelling_changes", 0),
        "shape_rewrites": getattr(nz, "shape_changes", 0),
        "desugared": {k: (v if isinstance(v, int) else [list(x) for x in v][:20]) for k, v in getattr(nz, "desugar", {}).items()},
    }


def append_selftest_evidence(prop, st, evidence_dir=None):
    evidence_dir = evidence_dir or os.path.join(VERIF, "evidence")
    p = os.path.join(evidence_dir, f"{prop}.json")
    ev = json.load(open(p))
    ev["coverage"]["selftest"] = st
    json.dump(ev, open(p, "w"), indent=1, default=str)
