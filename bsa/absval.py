"""R-WIDTH: abstract byte-width of values along CFG paths.

Abstract values: ('B', n) bytes of exactly n octets, ('B', None) bytes of unknown
length, ('NONE',), ('INT',), ('STR',), ('TOP',).
"""
import ast

from .astutil import make_cfg, header_exprs
from .loader import is_unknown

TOP = ("TOP",)
NONE = ("NONE",)
INT = ("INT",)
STR = ("STR",)


def B(n):
    return ("B", n)


def join_val(a, b):
    if a == b:
        return a
    if a[0] == "B" and b[0] == "B":
        return B(None)
    return TOP


def join_state(a, b):
    if a is None:
        return b
    if b is None:
        return a
    out = {}
    for k in set(a) | set(b):
        if k.startswith("!"):
            v = a.get(k, frozenset()) & b.get(k, frozenset())
            if v:
                out[k] = v
        else:
            out[k] = join_val(a.get(k, TOP), b.get(k, TOP))
    return out


class WidthAnalysis:
    def __init__(self, repo, mod, fn, init_env=None):
        self.repo, self.mod, self.fn = repo, mod, fn
        self.cfg = make_cfg(repo, fn)
        init = dict(init_env or {})
        self.IN, self.OUT = self.cfg.forward(init, self._transfer, join_state, edge_transfer=self._edge)

    # -- expression evaluation --------------------------------------------
    def eval(self, e, st):
        if isinstance(e, ast.Constant):
            v = e.value
            if v is None:
                return NONE
            if isinstance(v, bytes):
                return B(len(v))
            if isinstance(v, bool):
                return TOP
            if isinstance(v, int):
                return INT
            if isinstance(v, str):
                return STR
            return TOP
        if isinstance(e, ast.Name):
            if e.id in st:
                return st[e.id]
            v = self.repo.fold(self.mod, e)
            return self._of_value(v)
        if isinstance(e, ast.Call):
            if isinstance(e.func, ast.Name):
                w = self.repo.helper_width(self.mod, e.func.id)
                if w and len(e.args) == 1:
                    return B(w[0])
                if e.func.id == "bytes" and len(e.args) == 1:
                    v = self.repo.fold(self.mod, e.args[0])
                    if isinstance(v, int):
                        return B(v)
                    return B(None)
            if isinstance(e.func, ast.Attribute) and e.func.attr == "to_bytes" and e.args:
                v = self.repo.fold(self.mod, e.args[0])
                if isinstance(v, int):
                    return B(v)
            if isinstance(e.func, ast.Attribute) and e.func.attr == "encode":
                return B(None)
            v = self.repo.fold(self.mod, e)
            return self._of_value(v)
        if isinstance(e, ast.BinOp) and isinstance(e.op, ast.Add):
            a, b = self.eval(e.left, st), self.eval(e.right, st)
            if a[0] == "B" and b[0] == "B":
                if a[1] is not None and b[1] is not None:
                    return B(a[1] + b[1])
                return B(None)
            return TOP
        if isinstance(e, ast.Attribute):
            v = self.repo.fold(self.mod, e)
            return self._of_value(v)
        return TOP

    @staticmethod
    def _of_value(v):
        if is_unknown(v):
            return TOP
        if v is None:
            return NONE
        if isinstance(v, bytes):
            return B(len(v))
        if isinstance(v, bool):
            return TOP
        if isinstance(v, int):
            return INT
        if isinstance(v, str):
            return STR
        return TOP

    # -- transfer ------------------------------------------------------------
    def _transfer(self, node, st):
        if st is None:
            return None
        if node.kind != "stmt":
            return st
        s = node.ast
        if isinstance(s, ast.Assign) and len(s.targets) == 1 and isinstance(s.targets[0], ast.Name):
            st = dict(st)
            st[s.targets[0].id] = self.eval(s.value, st)
            st.pop("!" + s.targets[0].id, None)
        elif isinstance(s, ast.AugAssign) and isinstance(s.target, ast.Name):
            st = dict(st)
            st[s.target.id] = TOP
        elif isinstance(s, (ast.For,)):
            pass
        return st

    def _edge(self, node, st, label):
        if st is None or node.kind != "test" or label not in ("T", "F"):
            if node.kind == "iter" and label == "T" and st is not None:
                tgt = node.ast.target
                st = dict(st)
                for n in ast.walk(tgt):
                    if isinstance(n, ast.Name):
                        st[n.id] = TOP
            return st
        return self.refine(node.ast, st, label == "T")

    def refine(self, test, st, truth):
        """State after `test` evaluated to `truth` (None = infeasible)."""
        if st is None:
            return None
        if isinstance(test, ast.UnaryOp) and isinstance(test.op, ast.Not):
            return self.refine(test.operand, st, not truth)
        if isinstance(test, ast.BoolOp):
            if (isinstance(test.op, ast.And) and truth) or (isinstance(test.op, ast.Or) and not truth):
                for v in test.values:
                    st = self.refine(v, st, truth)
                    if st is None:
                        return None
                return st
            return st
        if isinstance(test, ast.Compare) and len(test.ops) == 1:
            l, op, r = test.left, test.ops[0], test.comparators[0]
            # len(x) == N / != N
            if isinstance(l, ast.Call) and isinstance(l.func, ast.Name) and l.func.id == "len" \
                    and len(l.args) == 1 and isinstance(l.args[0], ast.Name):
                n = self.repo.fold(self.mod, r)
                if isinstance(n, int):
                    eq = (isinstance(op, ast.Eq) and truth) or (isinstance(op, ast.NotEq) and not truth)
                    if eq:
                        st = dict(st)
                        st[l.args[0].id] = B(n)
                    return st
            # x is None / is not None
            if isinstance(l, ast.Name) and isinstance(r, ast.Constant) and r.value is None:
                isn = (isinstance(op, (ast.Is, ast.Eq)) and truth) or (isinstance(op, (ast.IsNot, ast.NotEq)) and not truth)
                if isn:
                    st = dict(st)
                    st[l.id] = NONE
                return st
        if st is None:
            return None
        if isinstance(test, ast.Call) and isinstance(test.func, ast.Name) and test.func.id == "isinstance" \
                and len(test.args) == 2 and isinstance(test.args[0], ast.Name) and not truth:
            t = ast.unparse(test.args[1])
            st = dict(st)
            k = "!" + test.args[0].id
            st[k] = frozenset(st.get(k, frozenset()) | {t})
            return st
        if isinstance(test, ast.Call) and isinstance(test.func, ast.Name) and test.func.id == "isinstance" \
                and len(test.args) == 2 and isinstance(test.args[0], ast.Name) and truth:
            t = ast.unparse(test.args[1])
            if t in st.get("!" + test.args[0].id, frozenset()):
                return None          # contradicts an earlier failed isinstance test: infeasible
            cur = st.get(test.args[0].id, TOP)
            new = None
            if t == "bytes":
                new = cur if cur[0] == "B" else B(None)
            elif t == "int":
                new = INT
            elif t == "str":
                new = STR
            if new is not None:
                st = dict(st)
                st[test.args[0].id] = new
            return st
        return st

    # -- queries -----------------------------------------------------------------
    def stores_to(self, attr_names, selfname="self"):
        """Yield (cfg node, value expr, abstract value) for `self.<attr> = E`."""
        for n in self.cfg.nodes.values():
            if n.kind != "stmt" or self.IN.get(n.id) is None:
                continue
            s = n.ast
            if isinstance(s, ast.Assign):
                for t in s.targets:
                    if isinstance(t, ast.Attribute) and isinstance(t.value, ast.Name) and t.value.id == selfname \
                            and t.attr in attr_names:
                        yield n, s.value, self.eval(s.value, self.IN[n.id] or {})

    def value_at(self, cnode, expr):
        st = self.IN.get(cnode.id)
        if st is None:
            return None
        return self.eval(expr, st)
