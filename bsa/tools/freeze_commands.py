"""One-off generator of reference/commands.json (never run by the checks)."""
import json, os, sys
sys.path.insert(0, os.path.dirname(os.path.dirname(os.path.dirname(os.path.abspath(__file__)))))
from bsa.loader import Repo
from bsa import cmddict
from bsa.props.c09 import commands_of
repo = Repo(sys.argv[1] if len(sys.argv) > 1 else "/repo")
req, ans, rows = cmddict.command_rows(repo)
folded = {}
for r in rows:
    cc = repo.fold(r.ci.mod, r.command_code_node) if r.command_code_node is not None else None
    n = r.app_id_node
    import ast
    if n is None: folded[id(r)] = (cc, None, "missing")
    elif isinstance(n, ast.Name) and n.id in r.params: folded[id(r)] = (cc, None, "param")
    else: folded[id(r)] = (cc, repo.fold(r.ci.mod, n), "const")
out = commands_of(repo, rows, folded)
json.dump({"note": "published identity of the typed command classes (kind, command code, application id, argument order, "
           "argument -> AVP class), frozen from the pinned tree (after the two table repairs of DESIGN section 9 rows 21/22) "
           "and cross-read against bromelia/definitions.py", "commands": out},
          open(os.path.join(os.path.dirname(__file__), "..", "..", "reference", "commands.json"), "w"), indent=0, sort_keys=True)
print(len(out))
