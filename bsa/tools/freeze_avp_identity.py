"""One-off generator of reference/avp_identity.json (run by hand when the reference is (re)frozen;
never run by the checks)."""
import json, os, sys
sys.path.insert(0, os.path.dirname(os.path.dirname(os.path.dirname(os.path.abspath(__file__)))))
from bsa.loader import Repo
from bsa import avpdict
from bsa.props.c10 import identity_of
repo = Repo(sys.argv[1] if len(sys.argv) > 1 else "/repo")
base, rows = avpdict.avp_rows(repo)
out = {}
for r in rows:
    out[f"{r.module}.{r.name}"] = identity_of(repo, r)
json.dump({"note": "wire identity (vendor, code, type, default flags, enumerators) of every published AVP class, "
           "frozen from the pinned tree after cross-reading docs/list-of-avps.md and the class docstrings",
           "classes": out}, open(os.path.join(os.path.dirname(__file__), "..", "..", "reference", "avp_identity.json"), "w"), indent=0, sort_keys=True)
print(len(out))
