#!/usr/bin/env python3
"""Freeze the inventory of names of the confirmed tree (by hand only; never run by a check).

The inventory is the reference for bsa/normalize.py: a function, method, module constant or class
constant that is NOT in it was introduced after the rules were confirmed (typically by an
extract-method / hoist-constant refactoring), so the normaliser makes it transparent by inlining it
into its users before any rule is evaluated.

usage: freeze_inventory.py [/repo]
"""
import ast
import json
import os
import sys


def local_names(fn):
    """every name bound anywhere inside the function (parameters, stores, nested definitions): the named values of the confirmed
    tree, which the single-use propagation (P6c) of bsa/normalize.py keeps"""
    out = set()
    for n in ast.walk(fn):
        if isinstance(n, ast.Name) and isinstance(n.ctx, (ast.Store, ast.Del)):
            out.add(n.id)
        elif isinstance(n, ast.arg):
            out.add(n.arg)
        elif isinstance(n, (ast.FunctionDef, ast.AsyncFunctionDef, ast.ClassDef)) and n is not fn:
            out.add(n.name)
        elif isinstance(n, ast.ExceptHandler) and n.name:
            out.add(n.name)
        elif isinstance(n, ast.alias):
            out.add((n.asname or n.name).split(".")[0])
    return sorted(out)


def main():
    root = sys.argv[1] if len(sys.argv) > 1 else "/repo"
    inv = {"functions": [], "module_names": {}, "class_names": {}, "nested": [], "locals": {}, "instance_attrs": {}}
    pkg = os.path.join(root, "bromelia")
    for dp, dn, fn in os.walk(pkg):
        dn[:] = [d for d in dn if d != "__pycache__"]
        for f in sorted(fn):
            if not f.endswith(".py"):
                continue
            p = os.path.join(dp, f)
            mod = os.path.relpath(p, root)[:-3].replace(os.sep, ".")
            if mod.endswith(".__init__"):
                mod = mod[:-9]
            tree = ast.parse(open(p, encoding="utf-8").read())
            names = set()

            def top(s):
                if isinstance(s, (ast.FunctionDef, ast.AsyncFunctionDef)):
                    inv["functions"].append(f"{mod}.{s.name}")
                    inv["locals"][f"{mod}.{s.name}"] = local_names(s)
                    names.add(s.name)
                elif isinstance(s, ast.ClassDef):
                    names.add(s.name)
                    cn = set()
                    for b in s.body:
                        if isinstance(b, (ast.FunctionDef, ast.AsyncFunctionDef)):
                            inv["functions"].append(f"{mod}.{s.name}.{b.name}")
                            inv["locals"][f"{mod}.{s.name}.{b.name}"] = sorted(set(inv["locals"].get(f"{mod}.{s.name}.{b.name}", []))
                                                                              | set(local_names(b)))
                            cn.add(b.name)
                        elif isinstance(b, ast.Assign):
                            for t in b.targets:
                                for n in ast.walk(t):
                                    if isinstance(n, ast.Name):
                                        cn.add(n.id)
                        elif isinstance(b, ast.AnnAssign) and isinstance(b.target, ast.Name):
                            cn.add(b.target.id)
                    key = f"{mod}.{s.name}"
                    inv["class_names"][key] = sorted(set(inv["class_names"].get(key, [])) | cn)
                    # instance attributes the confirmed tree stores through `self` anywhere in the class (state a later change
                    # adds - a cache, a pool, a parallel index - is recognised as NEW by the rules that look for derived state)
                    ia = set()
                    for b in s.body:
                        if isinstance(b, (ast.FunctionDef, ast.AsyncFunctionDef)):
                            for n in ast.walk(b):
                                if isinstance(n, ast.Attribute) and isinstance(n.ctx, (ast.Store, ast.Del)) and \
                                        isinstance(n.value, ast.Name) and n.value.id in ("self", "cls"):
                                    ia.add(n.attr)
                    inv["instance_attrs"][key] = sorted(set(inv["instance_attrs"].get(key, [])) | ia)
                elif isinstance(s, ast.Assign):
                    for t in s.targets:
                        for n in ast.walk(t):
                            if isinstance(n, ast.Name):
                                names.add(n.id)
                elif isinstance(s, ast.AnnAssign) and isinstance(s.target, ast.Name):
                    names.add(s.target.id)
                elif isinstance(s, (ast.If, ast.Try)):
                    for b in ast.iter_child_nodes(s):
                        if isinstance(b, ast.stmt):
                            top(b)
                elif isinstance(s, (ast.Import, ast.ImportFrom)):
                    for a in s.names:
                        names.add((a.asname or a.name).split(".")[0])

            for s in tree.body:
                top(s)
            # nested function definitions: <module>.<outer qualname>.<locals>.<name>
            def nested(node, qual):
                for ch in ast.iter_child_nodes(node):
                    if isinstance(ch, (ast.FunctionDef, ast.AsyncFunctionDef)):
                        q = f"{qual}.{ch.name}"
                        if isinstance(node, (ast.FunctionDef, ast.AsyncFunctionDef)):
                            inv["nested"].append(q)
                        nested(ch, q)
                    elif isinstance(ch, ast.ClassDef):
                        nested(ch, f"{qual}.{ch.name}")
                    else:
                        nested_stmt(ch, qual, node)

            def nested_stmt(node, qual, owner):
                for ch in ast.iter_child_nodes(node):
                    if isinstance(ch, (ast.FunctionDef, ast.AsyncFunctionDef)):
                        q = f"{qual}.{ch.name}"
                        if isinstance(owner, (ast.FunctionDef, ast.AsyncFunctionDef)):
                            inv["nested"].append(q)
                        nested(ch, q)
                    elif isinstance(ch, ast.ClassDef):
                        nested(ch, f"{qual}.{ch.name}")
                    else:
                        nested_stmt(ch, qual, owner)
            nested(tree, mod)
            inv["module_names"][mod] = sorted(names)
    inv["functions"] = sorted(set(inv["functions"]))
    inv["nested"] = sorted(set(inv["nested"]))
    # how the confirmed tree passes each argument to each resolvable callee (positionally / by keyword): bsa/normalize.canon_calls
    os.environ["BSA_FREEZE_CONVENTIONS"] = "1"
    sys.path.insert(0, os.path.join(os.path.dirname(os.path.abspath(__file__)), "..", ".."))
    from bsa.loader import Repo
    inv["call_conventions"] = Repo(root).normalizer.conventions
    out = os.path.join(os.path.dirname(os.path.abspath(__file__)), "..", "..", "reference", "inventory.json")
    json.dump(inv, open(out, "w"), indent=0, sort_keys=True)
    print("conventions", len(inv["call_conventions"]), "functions", len(inv["functions"]), "modules", len(inv["module_names"]), "classes", len(inv["class_names"]))


if __name__ == "__main__":
    main()
