"""Extraction of the typed command classes (DiameterRequest / DiameterAnswer subclasses under bromelia.lib)."""
import ast

from .astutil import fn_calls, call_name, kwarg
from . import avpdict

REQ = "bromelia.base.DiameterRequest"
ANS = "bromelia.base.DiameterAnswer"


class CmdRow:
    pass


def command_rows(repo):
    req, ans = repo.cls(REQ), repo.cls(ANS)
    rows = []
    if req is None or ans is None:
        return req, ans, rows
    for ci in repo.classes:
        if not ci.mod.name.startswith("bromelia.lib."):
            continue
        if ci in (req, ans):
            continue
        kind = "request" if req in ci.mro() else "answer" if ans in ci.mro() else None
        if kind is None:
            continue
        r = CmdRow()
        r.ci, r.kind = ci, kind
        r.base = req if kind == "request" else ans
        r.direct = r.base in ci.bases
        r.init = ci.methods.get("__init__")
        r.params = []
        r.defaults = {}
        r.has_kwargs = False
        r.base_init = r.load_call = None
        r.command_code = r.app_id_node = None
        if r.init is not None:
            a = r.init.args
            pos = a.posonlyargs + a.args
            r.params = [x.arg for x in pos if x.arg != "self"] + [x.arg for x in a.kwonlyargs]
            dl = a.defaults
            for x, d in zip(pos[len(pos) - len(dl):], dl):
                r.defaults[x.arg] = d
            for x, d in zip(a.kwonlyargs, a.kw_defaults):
                if d is not None:
                    r.defaults[x.arg] = d
            r.has_kwargs = a.kwarg is not None
            r.kwargs_name = a.kwarg.arg if a.kwarg else None
            for c in fn_calls(r.init):
                n = call_name(c)
                if n.endswith(".__init__") and n.split(".")[0] in ("DiameterRequest", "DiameterAnswer", "super()"):
                    r.base_init = c
                elif n.endswith("._load") or n == "self._load":
                    r.load_call = c
            if r.base_init is not None:
                r.command_code_node = kwarg(r.base_init, "command_code")
                r.app_id_node = kwarg(r.base_init, "application_id")
                args = [x for x in r.base_init.args if not (isinstance(x, ast.Name) and x.id == "self")]
                # positional: version, command_code, application_id
                if r.command_code_node is None and len(args) > 1:
                    r.command_code_node = args[1]
                if r.app_id_node is None and len(args) > 2:
                    r.app_id_node = args[2]
        r.mandatory = avpdict.table(repo, ci, "mandatory")
        r.optionals = avpdict.table(repo, ci, "optionals")
        rows.append(r)
    return req, ans, rows


def stem(name):
    for suf in ("Request", "Answer"):
        if name.endswith(suf):
            return name[:-len(suf)], suf
    return name, None
