"""Finite-domain abstract evaluation of the bit accessors of Unsigned32Type (fallback of C20 clause 1 when the
accessors are not written as an if/elif chain over the bit index).

The bit index ranges over a finite set of integers (the property's quantifier: 0..31 plus out-of-range values on both
sides); the 4 data octets are symbolic.  Values:
  int / bool / None / tuple / list      concrete
  ("byte", i)                           octet i of the stored word (i in 0..3)
  ("op", "&"|"|"|"^", i, mask)          octet i combined with a constant mask
  ("word",)                             the whole big-endian 32-bit word;  ("wop", op, mask) word combined with a mask
  ("nz", sym)                           truth of `sym != 0` (unknown: both branches are explored)
Outcome of one evaluation: ("return", value) | ("raise", class name) | ("fall", None) together with the final data.
"""
import ast

from .astutil import call_name


class Unsupported(Exception):
    pass


class _Raise(Exception):
    def __init__(self, name):
        self.name = name


class _Return(Exception):
    def __init__(self, value):
        self.value = value


class _Break(Exception):
    pass


class _Continue(Exception):
    pass


DATA0 = [("byte", 0), ("byte", 1), ("byte", 2), ("byte", 3)]


class Evaluator:
    def __init__(self, ci, choices):
        self.ci = ci
        self.choices = list(choices)      # pre-decided truth values for symbolic tests, consumed in order
        self.asked = 0
        self.questions = []
        self.data = list(DATA0)

    # ---- expressions ---------------------------------------------------------------------------------
    def ev(self, e, env):
        if isinstance(e, ast.Constant):
            return e.value
        if isinstance(e, ast.Name):
            if e.id in env:
                return env[e.id]
            raise Unsupported(f"name {e.id}")
        if isinstance(e, ast.Tuple):
            return tuple(self.ev(x, env) for x in e.elts)
        if isinstance(e, ast.List):
            return [self.ev(x, env) for x in e.elts]
        if isinstance(e, ast.Attribute):
            t = ast.unparse(e)
            if t in ("self.data", "self._data"):
                return ("data", tuple(self.data))
            raise Unsupported(f"attribute {t}")
        if isinstance(e, ast.Subscript):
            v = self.ev(e.value, env)
            if isinstance(e.slice, ast.Slice):
                raise Unsupported("slice")
            i = self.ev(e.slice, env)
            if not isinstance(i, int):
                raise Unsupported("symbolic index")
            seq = v[1] if isinstance(v, tuple) and v and v[0] == "data" else v
            if not isinstance(seq, (list, tuple)):
                raise Unsupported("subscript of non-sequence")
            if not (-len(seq) <= i < len(seq)):
                raise _Raise("IndexError")
            return seq[i]
        if isinstance(e, ast.UnaryOp):
            v = self.ev(e.operand, env)
            if isinstance(e.op, ast.Not):
                return not self.truth(v)
            if isinstance(e.op, ast.USub) and isinstance(v, int):
                return -v
            if isinstance(e.op, ast.Invert) and isinstance(v, int):
                return ~v
            raise Unsupported("unary")
        if isinstance(e, ast.BinOp):
            a, b = self.ev(e.left, env), self.ev(e.right, env)
            return self.binop(e.op, a, b)
        if isinstance(e, ast.BoolOp):
            if isinstance(e.op, ast.And):
                v = True
                for x in e.values:
                    v = self.ev(x, env)
                    if not self.truth(v):
                        return v
                return v
            v = False
            for x in e.values:
                v = self.ev(x, env)
                if self.truth(v):
                    return v
            return v
        if isinstance(e, ast.Compare):
            vals = [self.ev(x, env) for x in [e.left] + list(e.comparators)]
            res = True
            for i, op in enumerate(e.ops):
                a, b = vals[i], vals[i + 1]
                if isinstance(a, tuple) and a and a[0] in ("op", "byte", "wop", "word") and b == 0 and isinstance(op, (ast.NotEq, ast.Eq, ast.Gt)):
                    r = ("nz", a)
                    r = self.truth(r)
                    if isinstance(op, ast.Eq):
                        r = not r
                elif isinstance(op, (ast.Is, ast.IsNot)) and all(isinstance(x, bool) or x is None for x in (a, b)):
                    r = (a is b) if isinstance(op, ast.Is) else (a is not b)        # True / False / None are singletons
                elif isinstance(a, int) and isinstance(b, int):
                    r = {ast.Eq: a == b, ast.NotEq: a != b, ast.Lt: a < b, ast.LtE: a <= b, ast.Gt: a > b, ast.GtE: a >= b}.get(type(op))
                    if r is None:
                        raise Unsupported("comparison")
                elif isinstance(op, (ast.In, ast.NotIn)) and isinstance(a, int):
                    seq = list(b) if isinstance(b, (list, tuple, range)) else None
                    if seq is None:
                        raise Unsupported("in")
                    r = (a in seq) if isinstance(op, ast.In) else (a not in seq)
                else:
                    raise Unsupported("comparison of symbolic values")
                res = res and r
                if not res:
                    return False
            return res
        if isinstance(e, ast.IfExp):
            return self.ev(e.body if self.truth(self.ev(e.test, env)) else e.orelse, env)
        if isinstance(e, ast.Call):
            return self.call(e, env)
        if isinstance(e, ast.Lambda):
            if e.args.vararg or e.args.kwarg or e.args.kwonlyargs or e.args.defaults:
                raise Unsupported("lambda signature")
            return ("lambda", e, dict(env))
        if isinstance(e, ast.Starred):
            raise Unsupported("starred")
        raise Unsupported(type(e).__name__)

    def apply_lambda(self, lam, args):
        _, node, cenv = lam
        ps = [a.arg for a in node.args.posonlyargs + node.args.args]
        if len(ps) != len(args):
            raise _Raise("TypeError")
        return self.ev(node.body, dict(cenv, **dict(zip(ps, args))))

    def binop(self, op, a, b):
        if isinstance(a, int) and isinstance(b, int) and not isinstance(a, bool):
            try:
                if isinstance(op, ast.Add):
                    return a + b
                if isinstance(op, ast.Sub):
                    return a - b
                if isinstance(op, ast.Mult):
                    return a * b
                if isinstance(op, ast.FloorDiv):
                    return a // b
                if isinstance(op, ast.Mod):
                    return a % b
                if isinstance(op, ast.LShift):
                    if b < 0:
                        raise _Raise("ValueError")
                    return a << b
                if isinstance(op, ast.RShift):
                    if b < 0:
                        raise _Raise("ValueError")
                    return a >> b
                if isinstance(op, ast.BitAnd):
                    return a & b
                if isinstance(op, ast.BitOr):
                    return a | b
                if isinstance(op, ast.BitXor):
                    return a ^ b
                if isinstance(op, ast.Pow):
                    if b < 0:
                        return a ** b       # float: the later `&` raises TypeError in Python
                    return a ** b
            except ZeroDivisionError:
                raise _Raise("ZeroDivisionError")
        sym = {ast.BitAnd: "&", ast.BitOr: "|", ast.BitXor: "^"}.get(type(op))
        if sym:
            for x, y in ((a, b), (b, a)):
                if isinstance(x, tuple) and x and x[0] == "byte" and isinstance(y, int):
                    return ("op", sym, x[1], y)
                if isinstance(x, tuple) and x and x[0] == "word" and isinstance(y, int):
                    return ("wop", sym, y)
                if isinstance(x, tuple) and x and x[0] in ("byte", "word") and isinstance(y, float):
                    raise _Raise("TypeError")
        raise Unsupported(f"binop {type(op).__name__} on {a!r}, {b!r}")

    def truth(self, v):
        if isinstance(v, tuple) and v and v[0] == "nz":
            self.questions.append(v[1])
            if self.asked < len(self.choices):
                r = self.choices[self.asked]
            else:
                r = None
            self.asked += 1
            if r is None:
                raise NeedChoice()
            return r
        if isinstance(v, tuple) and v and v[0] in ("op", "byte", "wop", "word"):
            return self.truth(("nz", v))
        return bool(v)

    def call(self, e, env):
        if isinstance(e.func, ast.Lambda) or (isinstance(e.func, ast.Name) and isinstance(env.get(e.func.id), tuple)
                                              and env[e.func.id][:1] == ("lambda",)):
            if e.keywords:
                raise Unsupported("keyword call of a lambda")
            return self.apply_lambda(self.ev(e.func, env), [self.ev(a, env) for a in e.args])
        n = call_name(e)
        if n in ("zip", "enumerate", "len", "reversed", "bool", "abs", "min", "max"):
            args = [self.ev(a, env) for a in e.args]
            conc = lambda v: isinstance(v, (list, tuple, range)) and not (isinstance(v, tuple) and v and isinstance(v[0], str))
            if n == "zip" and all(conc(a) for a in args) and not e.keywords:
                return [tuple(t) for t in zip(*args)]
            if n == "enumerate" and 1 <= len(args) <= 2 and conc(args[0]) and (len(args) == 1 or isinstance(args[1], int)) and not e.keywords:
                return [tuple(t) for t in enumerate(args[0], *(args[1:]))]
            if n == "len" and len(args) == 1 and conc(args[0]):
                return len(args[0])
            if n == "len" and len(args) == 1 and isinstance(args[0], tuple) and args[0] and args[0][0] == "data":
                return 4
            if n == "reversed" and len(args) == 1 and conc(args[0]):
                return list(reversed(args[0]))
            if n == "bool" and len(args) == 1:
                return self.truth(args[0])
            if n in ("abs", "min", "max") and args and all(isinstance(a, int) for a in args):
                return {"abs": abs, "min": min, "max": max}[n](*args)
            raise Unsupported(f"call {n}")
        args = [self.ev(a, env) for a in e.args if not (isinstance(a, ast.Name) and a.id == "self" and n.count(".") == 1 and n.split(".")[0] == self.ci.name)]
        opfn = {"operator.or_": ast.BitOr, "operator.xor": ast.BitXor, "operator.and_": ast.BitAnd, "operator.add": ast.Add,
                "operator.sub": ast.Sub, "operator.mul": ast.Mult, "operator.lshift": ast.LShift, "operator.rshift": ast.RShift,
                "operator.pow": ast.Pow, "operator.mod": ast.Mod, "operator.floordiv": ast.FloorDiv,
                "operator.__or__": ast.BitOr, "operator.__xor__": ast.BitXor, "operator.__and__": ast.BitAnd}.get(n)
        if opfn is not None and len(args) == 2 and not e.keywords and self.ci.mod.imports.get("operator") == ("operator", None):
            return self.binop(opfn(), args[0], args[1])
        if n in ("bytes", "bytearray", "list", "tuple") and len(args) == 1:
            v = args[0]
            if isinstance(v, tuple) and v and v[0] == "data":
                return list(v[1])
            if isinstance(v, (list, tuple)):
                return list(v)
            raise Unsupported(f"{n}() of {v!r}")
        if n == "int" and len(args) == 1 and isinstance(args[0], int):
            return args[0]
        if n == "divmod" and len(args) == 2 and all(isinstance(a, int) for a in args):
            return divmod(*args)
        if n == "range":
            return range(*args)
        if n in ("int.from_bytes", "convert_to_integer_from_bytes") and args and isinstance(args[0], tuple) and args[0][0] == "data":
            if list(args[0][1]) != DATA0:
                raise Unsupported("from_bytes of modified data")
            return ("word",)
        if isinstance(e.func, ast.Attribute) and e.func.attr == "to_bytes":
            v = self.ev(e.func.value, env)
            return self.word_to_bytes(v)
        if n in ("convert_to_4_bytes",) and len(args) == 1:
            return self.word_to_bytes(args[0])
        # same-class helper (method or staticmethod)
        owner, _, meth = n.rpartition(".")
        if owner in ("self", self.ci.name, "type(self)", "cls") and self.ci.find_method(meth):
            fn = self.ci.find_method(meth)[1]
            params = [a.arg for a in fn.args.args if a.arg not in ("self", "cls")]
            env2 = dict(zip(params, args))
            for k in e.keywords:
                env2[k.arg] = self.ev(k.value, env)
            dl = fn.args.defaults
            for p, d in zip(params[len(params) - len(dl):], dl):
                env2.setdefault(p, self.ev(d, {}))
            try:
                self.block(fn.body, env2)
            except _Return as r:
                return r.value
            return None
        raise Unsupported(f"call {n}")

    def word_to_bytes(self, v):
        if isinstance(v, tuple) and v and v[0] == "wop":
            _, sym, mask = v
            if mask < 0 or mask >= 1 << 32:
                if sym == "&" and mask < 0:
                    mask &= 0xFFFFFFFF
                else:
                    raise _Raise("OverflowError")
            out = []
            for i in range(4):
                m = (mask >> (8 * (3 - i))) & 0xFF
                neutral = {"|": 0, "^": 0, "&": 0xFF}[sym]
                out.append(("byte", i) if m == neutral else ("op", sym, i, m))
            return out
        if isinstance(v, tuple) and v and v[0] == "word":
            return list(DATA0)
        raise Unsupported("to_bytes of non-word")

    # ---- statements ------------------------------------------------------------------------------------
    def block(self, stmts, env):
        for s in stmts:
            self.stmt(s, env)

    def stmt(self, s, env):
        if isinstance(s, ast.Expr):
            if isinstance(s.value, ast.Constant):
                return
            self.ev(s.value, env)
            return
        if isinstance(s, ast.Return):
            raise _Return(self.ev(s.value, env) if s.value is not None else None)
        if isinstance(s, ast.Raise):
            e = s.exc.func if isinstance(s.exc, ast.Call) else s.exc
            raise _Raise(ast.unparse(e).split(".")[-1] if e is not None else "*")
        if isinstance(s, ast.If):
            self.block(s.body if self.truth(self.ev(s.test, env)) else s.orelse, env)
            return
        if isinstance(s, ast.Assign) and len(s.targets) == 1:
            v = self.ev(s.value, env)
            self.assign(s.targets[0], v, env)
            return
        if isinstance(s, ast.AugAssign):
            cur = self.ev(s.target if not isinstance(s.target, ast.Subscript) else s.target, env)
            v = self.binop(s.op, cur, self.ev(s.value, env))
            self.assign(s.target, v, env)
            return
        if isinstance(s, ast.Pass):
            return
        if isinstance(s, ast.Break):
            raise _Break()
        if isinstance(s, ast.Continue):
            raise _Continue()
        if isinstance(s, ast.For):
            it = self.ev(s.iter, env)
            if isinstance(it, tuple) and it and it[0] == "data":
                it = list(it[1])
            if not isinstance(it, (list, tuple, range)) or (isinstance(it, tuple) and it and isinstance(it[0], str)):
                raise Unsupported("loop over a symbolic iterable")
            if len(it) > 256:
                raise Unsupported("long loop")
            broke = False
            for v in it:
                self.assign(s.target, v, env)
                try:
                    self.block(s.body, env)
                except _Break:
                    broke = True
                    break
                except _Continue:
                    continue
            if not broke:
                self.block(s.orelse, env)
            return
        if isinstance(s, ast.While):
            broke = False
            for _ in range(256):
                if not self.truth(self.ev(s.test, env)):
                    break
                try:
                    self.block(s.body, env)
                except _Break:
                    broke = True
                    break
                except _Continue:
                    continue
            else:
                raise Unsupported("unbounded loop")
            if not broke:
                self.block(s.orelse, env)
            return
        if isinstance(s, ast.Assert):
            if not self.truth(self.ev(s.test, env)):
                raise _Raise("AssertionError")
            return
        raise Unsupported(type(s).__name__)

    def assign(self, t, v, env):
        if isinstance(t, ast.Name):
            env[t.id] = v
        elif isinstance(t, ast.Tuple):
            if not isinstance(v, (tuple, list)) or len(v) != len(t.elts):
                raise Unsupported("unpack")
            for x, y in zip(t.elts, v):
                self.assign(x, y, env)
        elif isinstance(t, ast.Attribute) and ast.unparse(t) in ("self.data", "self._data"):
            if isinstance(v, tuple) and v and v[0] == "data":
                v = list(v[1])
            if not isinstance(v, list) or len(v) != 4:
                raise Unsupported(f"data assigned {v!r}")
            self.data = list(v)
        elif isinstance(t, ast.Subscript) and isinstance(t.value, ast.Name):
            seq = env.get(t.value.id)
            i = self.ev(t.slice, env)
            if not isinstance(seq, list) or not isinstance(i, int):
                raise Unsupported("subscript store")
            if not (-len(seq) <= i < len(seq)):
                raise _Raise("IndexError")
            seq[i] = v
        else:
            raise Unsupported(f"store to {ast.unparse(t)}")


class NeedChoice(Exception):
    pass


def run(ci, fn, bit):
    """All outcomes of fn(bit): list of (choices, outcome kind, value, final data)."""
    out = []
    todo = [[]]
    param = [a.arg for a in fn.args.args if a.arg != "self"][0]
    while todo:
        ch = todo.pop()
        ev = Evaluator(ci, ch)
        try:
            ev.block(fn.body, {param: bit})
            out.append((tuple(ch), "fall", None, ev.data, list(ev.questions)))
        except _Return as r:
            out.append((tuple(ch), "return", r.value, ev.data, list(ev.questions)))
        except _Raise as r:
            out.append((tuple(ch), "raise", r.name, ev.data, list(ev.questions)))
        except NeedChoice:
            todo.append(ch + [True])
            todo.append(ch + [False])
        if len(out) + len(todo) > 64:
            raise Unsupported("too many symbolic branches")
    return out
