"""R-INTERVAL: integer interval-set algebra and extraction of the accepted set of a boolean
function of one integer variable (A9)."""
import ast

from .paths import enum_paths
from .loader import is_unknown


class ISet:
    """Finite union of closed integer intervals inside a universe [lo, hi]."""

    def __init__(self, ivs=(), lo=0, hi=(1 << 32) - 1):
        self.lo, self.hi = lo, hi
        self.ivs = self._norm(ivs)

    def _norm(self, ivs):
        out = []
        for a, b in sorted((max(a, self.lo), min(b, self.hi)) for a, b in ivs):
            if a > b:
                continue
            if out and a <= out[-1][1] + 1:
                out[-1] = (out[-1][0], max(out[-1][1], b))
            else:
                out.append((a, b))
        return out

    def _mk(self, ivs):
        return ISet(ivs, self.lo, self.hi)

    @classmethod
    def full(cls, lo=0, hi=(1 << 32) - 1):
        return cls([(lo, hi)], lo, hi)

    def union(self, o):
        return self._mk(self.ivs + o.ivs)

    def complement(self):
        out, cur = [], self.lo
        for a, b in self.ivs:
            if a > cur:
                out.append((cur, a - 1))
            cur = b + 1
        if cur <= self.hi:
            out.append((cur, self.hi))
        return self._mk(out)

    def intersect(self, o):
        out = []
        for a, b in self.ivs:
            for c, d in o.ivs:
                x, y = max(a, c), min(b, d)
                if x <= y:
                    out.append((x, y))
        return self._mk(out)

    def minus(self, o):
        return self.intersect(o.complement())

    def empty(self):
        return not self.ivs

    def __eq__(self, o):
        return self.ivs == o.ivs

    def size(self):
        return sum(b - a + 1 for a, b in self.ivs)

    def min(self):
        return self.ivs[0][0] if self.ivs else None

    def contains(self, x):
        return any(a <= x <= b for a, b in self.ivs)

    def __repr__(self):
        return "{" + ",".join(f"[{a},{b}]" if a != b else f"[{a}]" for a, b in self.ivs[:8]) + \
            ("..." if len(self.ivs) > 8 else "") + "}"


class Undecidable(Exception):
    pass


def test_set(repo, mod, test, var, U):
    """Set of values of `var` (within universe U) for which `test` is true."""
    full = ISet.full(U.lo, U.hi)
    empty = ISet([], U.lo, U.hi)

    def const(e):
        v = repo.fold(mod, e)
        if isinstance(v, bool) or not isinstance(v, int):
            raise Undecidable(f"not an integer constant: {ast.unparse(e)}")
        return v

    def is_var(e):
        return isinstance(e, ast.Name) and e.id == var

    def cmp_set(op, c, var_left=True):
        # var op c   (or  c op var when var_left is False)
        if not var_left:
            op = {ast.Lt: ast.Gt, ast.LtE: ast.GtE, ast.Gt: ast.Lt, ast.GtE: ast.LtE}.get(type(op), type(op))()
        if isinstance(op, ast.Lt):
            return ISet([(U.lo, c - 1)], U.lo, U.hi)
        if isinstance(op, ast.LtE):
            return ISet([(U.lo, c)], U.lo, U.hi)
        if isinstance(op, ast.Gt):
            return ISet([(c + 1, U.hi)], U.lo, U.hi)
        if isinstance(op, ast.GtE):
            return ISet([(c, U.hi)], U.lo, U.hi)
        if isinstance(op, ast.Eq):
            return ISet([(c, c)], U.lo, U.hi)
        if isinstance(op, ast.NotEq):
            return ISet([(c, c)], U.lo, U.hi).complement()
        raise Undecidable(f"comparison operator {type(op).__name__}")

    def go(t):
        if isinstance(t, ast.Constant):
            return full if t.value else empty
        if isinstance(t, ast.UnaryOp) and isinstance(t.op, ast.Not):
            return go(t.operand).complement()
        if isinstance(t, ast.BoolOp):
            if isinstance(t.op, ast.And):
                acc, deferred = full, []
                for v in t.values:
                    try:
                        acc = acc.intersect(go(v))
                    except Undecidable as e:
                        if "periodic" in str(e):
                            deferred.append(v)
                        else:
                            raise
                for v in deferred:
                    if acc.empty():
                        break
                    lo, hi = acc.ivs[0][0], acc.ivs[-1][1]
                    sub = test_set(repo, mod, v, var, ISet.full(lo, hi))
                    acc = acc.intersect(ISet(sub.ivs, U.lo, U.hi))
                return acc
            sets = [go(v) for v in t.values]
            acc = sets[0]
            for s in sets[1:]:
                acc = acc.union(s)
            return acc
        if isinstance(t, ast.Compare):
            operands = [t.left] + list(t.comparators)
            acc = full
            for i, op in enumerate(t.ops):
                l, r = operands[i], operands[i + 1]
                acc = acc.intersect(pair(l, op, r))
            return acc
        raise Undecidable(f"unsupported test: {ast.unparse(t)}")

    def inline(e, depth=0):
        """Replace calls of single-expression module functions by their body (pure helpers)."""
        if depth > 3:
            return e
        import copy

        class T(ast.NodeTransformer):
            def visit_Call(self, node):
                self.generic_visit(node)
                if isinstance(node.func, ast.Name) and node.func.id in mod.funcs and not node.keywords:
                    f = mod.funcs[node.func.id]
                    body = [x for x in f.body if not (isinstance(x, ast.Expr) and isinstance(x.value, ast.Constant))]
                    params = [a.arg for a in f.args.args]
                    if len(body) == 1 and isinstance(body[0], ast.Return) and body[0].value is not None and len(params) == len(node.args):
                        sub = dict(zip(params, node.args))

                        class S(ast.NodeTransformer):
                            def visit_Name(self, n):
                                return copy.deepcopy(sub[n.id]) if n.id in sub else n
                        return inline(S().visit(copy.deepcopy(body[0].value)), depth + 1)
                return node
        return T().visit(copy.deepcopy(e))

    def linear(e):
        """e == var + b  ->  b   (None if not of that form)"""
        if is_var(e):
            return 0
        if isinstance(e, ast.BinOp) and isinstance(e.op, (ast.Add, ast.Sub)):
            if is_var(e.left) and not _mentions(e.right, var):
                c = const(e.right)
                return c if isinstance(e.op, ast.Add) else -c
            if isinstance(e.op, ast.Add) and is_var(e.right) and not _mentions(e.left, var):
                return const(e.left)
        return None

    def shifted(s, b):
        """set of var such that var + b in s"""
        return ISet([(lo - b, hi - b) for lo, hi in s.ivs], U.lo, U.hi)

    def pair(l, op, r):
        l, r = inline(l), inline(r)
        # (var + b) // c op k  and  var + b op k : solve for u = var + b, then shift back
        for a_, b_, left in ((l, r, True), (r, l, False)):
            inner = a_.left if isinstance(a_, ast.BinOp) and isinstance(a_.op, (ast.FloorDiv, ast.Mod)) else a_
            sh = None
            try:
                sh = linear(inner)
            except Undecidable:
                sh = None
            if sh not in (None, 0) and not _mentions(b_, var):
                import copy
                uvar = ast.Name(id=var, ctx=ast.Load())
                if inner is a_:
                    a2 = uvar
                else:
                    a2 = ast.BinOp(left=uvar, op=a_.op, right=a_.right)
                su = pair0(a2, op, b_) if left else pair0(b_, op, a2)
                return shifted(su, sh)
        return pair0(l, op, r)

    def pair0(l, op, r):
        if is_var(l) and not _mentions(r, var):
            if isinstance(op, (ast.In, ast.NotIn)):
                s = range_set(r)
                return s if isinstance(op, ast.In) else s.complement()
            return cmp_set(op, const(r), True)
        if is_var(r) and not _mentions(l, var):
            return cmp_set(op, const(l), False)
        # var // c == k ; var % c == / != k
        for a, b, left in ((l, r, True), (r, l, False)):
            if isinstance(a, ast.BinOp) and is_var(a.left) and not _mentions(b, var):
                c = const(a.right)
                k = const(b)
                if c <= 0:
                    raise Undecidable("non-positive divisor")
                if isinstance(a.op, ast.FloorDiv):
                    # var // c  op  k  : monotone, so translate to var
                    opn = op if left else {ast.Lt: ast.Gt(), ast.LtE: ast.GtE(), ast.Gt: ast.Lt(), ast.GtE: ast.LtE()}.get(type(op), op)
                    if isinstance(opn, ast.Eq):
                        return ISet([(c * k, c * k + c - 1)], U.lo, U.hi)
                    if isinstance(opn, ast.NotEq):
                        return ISet([(c * k, c * k + c - 1)], U.lo, U.hi).complement()
                    if isinstance(opn, ast.Lt):
                        return ISet([(U.lo, c * k - 1)], U.lo, U.hi)
                    if isinstance(opn, ast.LtE):
                        return ISet([(U.lo, c * k + c - 1)], U.lo, U.hi)
                    if isinstance(opn, ast.Gt):
                        return ISet([(c * k + c, U.hi)], U.lo, U.hi)
                    if isinstance(opn, ast.GtE):
                        return ISet([(c * k, U.hi)], U.lo, U.hi)
                if isinstance(a.op, ast.Mod) and isinstance(op, (ast.Eq, ast.NotEq)):
                    if not (0 <= k < c):
                        s = empty
                    else:
                        if (U.hi - U.lo) // c > 200000:
                            raise Undecidable("periodic set over an unbounded universe")
                        first = U.lo + ((k - U.lo) % c)
                        s = ISet([(x, x) for x in range(first, U.hi + 1, c)], U.lo, U.hi)
                    return s if isinstance(op, ast.Eq) else s.complement()
        raise Undecidable(f"unsupported comparison: {ast.unparse(l)} {type(op).__name__} {ast.unparse(r)}")

    def range_set(r):
        if isinstance(r, ast.Call) and isinstance(r.func, ast.Name) and r.func.id == "range" and 1 <= len(r.args) <= 2:
            a = const(r.args[0]) if len(r.args) == 2 else 0
            b = const(r.args[-1])
            return ISet([(a, b - 1)], U.lo, U.hi)
        if isinstance(r, (ast.Tuple, ast.List, ast.Set)):
            return ISet([(const(e), const(e)) for e in r.elts], U.lo, U.hi)
        raise Undecidable(f"unsupported container: {ast.unparse(r)}")

    return go(test)


def _mentions(e, var):
    return any(isinstance(n, ast.Name) and n.id == var for n in ast.walk(e))


def accepted_set(repo, mod, fn, var, U, periodic_window=None):
    """Values of `var` for which fn returns a truthy value.  Raises Undecidable."""
    if periodic_window:
        U = ISet.full(*periodic_window)
    acc = ISet([], U.lo, U.hi)
    for p in enum_paths(fn.body, loops="skip"):
        cond = ISet.full(U.lo, U.hi)
        for s in p.stmts():
            if isinstance(s, ast.Assign) and all(isinstance(t, ast.Name) for t in s.targets) and not any(
                    isinstance(x, ast.Call) for x in ast.walk(s.value)) and not any(
                    isinstance(n, ast.Name) and isinstance(n.ctx, ast.Load) and n.id in {t.id for t in s.targets} for n in ast.walk(fn)):
                continue      # a dead binding (its uses were replaced by the bound literal)
            if isinstance(s, (ast.For, ast.While, ast.Assign, ast.AugAssign)):
                raise Undecidable(f"statement kind {type(s).__name__} in predicate")
        for t, truth in p.conds():
            s = test_set(repo, mod, t, var, U)
            cond = cond.intersect(s if truth else s.complement())
        if p.term == "return":
            v = p.term_node.value
            if v is None:
                continue
            if isinstance(v, ast.Constant):
                if v.value:
                    acc = acc.union(cond)
                continue
            acc = acc.union(cond.intersect(test_set(repo, mod, v, var, U)))
        elif p.term == "raise":
            continue
        # fall-through returns None (falsy)
    return acc
