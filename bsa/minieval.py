"""Tiny abstract evaluator used by the finite-abstraction rules (R-RES4 etc.).

Values: python ints/bools/None/str, ("zeros", n) for bytes(n), UNK for unknown.
`special(expr)` may intercept any sub-expression and return a value (or NotImplemented)."""
import ast


class _Unk:
    def __repr__(self):
        return "UNK"

    def __bool__(self):
        raise ValueError("truth of unknown")


UNK = _Unk()


def ev(e, env, special=None, fold=None):
    if special is not None:
        r = special(e)
        if r is not NotImplemented:
            return r
    if isinstance(e, ast.Constant):
        return e.value
    if isinstance(e, ast.Name):
        if e.id in env:
            return env[e.id]
        if fold is not None:
            v = fold(e)
            if isinstance(v, (int, str, bytes, type(None))):
                return v
        return UNK
    if isinstance(e, ast.Attribute) and fold is not None:
        v = fold(e)
        if isinstance(v, (int, str, bytes, type(None))):
            return v
        return UNK
    if isinstance(e, ast.UnaryOp):
        v = ev(e.operand, env, special, fold)
        if v is UNK:
            return UNK
        if isinstance(e.op, ast.Not):
            return not truth(v)
        if isinstance(e.op, ast.USub) and isinstance(v, int):
            return -v
        return UNK
    if isinstance(e, ast.BinOp):
        a, b = ev(e.left, env, special, fold), ev(e.right, env, special, fold)
        if a is UNK or b is UNK or not isinstance(a, int) or not isinstance(b, int):
            return UNK
        try:
            if isinstance(e.op, ast.Add):
                return a + b
            if isinstance(e.op, ast.Sub):
                return a - b
            if isinstance(e.op, ast.Mult):
                return a * b
            if isinstance(e.op, ast.Mod):
                return a % b
            if isinstance(e.op, ast.FloorDiv):
                return a // b
            if isinstance(e.op, ast.BitAnd):
                return a & b
        except ZeroDivisionError:
            return UNK
        return UNK
    if isinstance(e, ast.Compare):
        vals = [ev(x, env, special, fold) for x in [e.left] + list(e.comparators)]
        if any(v is UNK for v in vals):
            return UNK
        res = True
        for i, op in enumerate(e.ops):
            a, b = vals[i], vals[i + 1]
            try:
                if isinstance(op, ast.Eq):
                    r = a == b
                elif isinstance(op, ast.NotEq):
                    r = a != b
                elif isinstance(op, ast.Lt):
                    r = a < b
                elif isinstance(op, ast.LtE):
                    r = a <= b
                elif isinstance(op, ast.Gt):
                    r = a > b
                elif isinstance(op, ast.GtE):
                    r = a >= b
                elif isinstance(op, ast.Is):
                    r = a is b
                elif isinstance(op, ast.IsNot):
                    r = a is not b
                else:
                    return UNK
            except TypeError:
                return UNK
            res = res and r
        return res
    if isinstance(e, ast.BoolOp):
        vals = [ev(v, env, special, fold) for v in e.values]
        if isinstance(e.op, ast.And):
            for v in vals:
                if v is UNK:
                    return UNK
                if not truth(v):
                    return v
            return vals[-1]
        for v in vals:
            if v is UNK:
                return UNK
            if truth(v):
                return v
        return vals[-1]
    if isinstance(e, ast.Call) and isinstance(e.func, ast.Name) and e.func.id == "bytes":
        if not e.args:
            return ("zeros", 0)
        if len(e.args) == 1:
            v = ev(e.args[0], env, special, fold)
            if isinstance(v, int) and not isinstance(v, bool):
                return ("zeros", v)
        return UNK
    if isinstance(e, ast.IfExp):
        c = ev(e.test, env, special, fold)
        if c is UNK:
            return UNK
        return ev(e.body if truth(c) else e.orelse, env, special, fold)
    return UNK


def truth(v):
    if isinstance(v, tuple) and v and v[0] == "zeros":
        return v[1] > 0
    return bool(v)
