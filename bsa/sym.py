"""A8: term-domain abstract interpreter (no solver, nothing is executed).

A statement list is interpreted path by path over an environment that maps local names and attribute
paths ("avp._data") to TERMS.  Terms are hashable python values:

  int / bytes / str / bool / None              concrete constants
  ("lin", c, ((atom, coef), ...))              integer linear form  c + sum coef*atom   (atoms are terms)
  ("sym", name)                                an unknown input
  ("attr", base, name) ("sub", base, idx) ("slice", base, lo, hi)
  ("call", func, (args...), ((kw, val)...))    an uninterpreted application (structural equality)
  ("cmp", op, a, b) ("not", a) ("and", (..)) ("or", (..)) ("mod", a, n) ("op", opname, a, b) ("neg", a)
  ("tuple", (...)) ("dict", ((k, v)...)) ("list", (...)) ("fstr", (...)) ("ifexp", c, a, b)
  UNK                                          nothing known

Because every value is carried as a term, a rule that asks "what is stored into X on this path" gets the
same answer whether the source uses temporaries, renamed locals, augmented assignment, a conditional
expression, a guard clause or a nested if: the spelling disappears, the operations remain.

Paths: an `if` whose test does not evaluate to a constant forks; each path records its conditions as
(term, truth).  `hook(term) -> term|None` lets a rule rewrite terms as they are built (assumptions such
as L % 4 == r).  Loops are not unrolled: `for`/`while` bodies are interpreted only when the rule asks
for them (`loop_body`), with the loop-carried names replaced by fresh symbols.
"""
import ast

UNK = ("unk",)


def S(name):
    return ("sym", name)


# ----------------------------------------------------------------------------------------- linear forms
def is_int(t):
    return isinstance(t, int) and not isinstance(t, bool)


def is_lin(t):
    return is_int(t) or (isinstance(t, tuple) and t and t[0] == "lin")


def _parts(t):
    if is_int(t):
        return t, {}
    if isinstance(t, tuple) and t and t[0] == "lin":
        return t[1], dict(t[2])
    return 0, {t: 1}


def mk_lin(c, coefs):
    coefs = {a: k for a, k in coefs.items() if k != 0}
    if not coefs:
        return c
    if c == 0 and len(coefs) == 1 and next(iter(coefs.values())) == 1:
        return next(iter(coefs))
    return ("lin", c, tuple(sorted(coefs.items(), key=lambda x: repr(x[0]))))


def intish(t):
    """Is the term known to denote an integer?"""
    if is_int(t):
        return True
    if isinstance(t, tuple) and t:
        if t[0] in ("lin", "mod"):
            return True
        if t[0] == "call" and t[1] == ("name", "len") and len(t[2]) == 1:
            return True
        if t[0] == "sym":
            return t[1].startswith("int:")
        if t[0] == "call":
            f = t[1]
            return f in (("name", "len"), ("name", "int"), ("name", "ord"), ("attr", ("name", "int"), "from_bytes"))
        if t[0] == "ifexp":
            return intish(t[2]) and intish(t[3])
    return False


def add(a, b, sign=1):
    ca, pa = _parts(a)
    cb, pb = _parts(b)
    for k, v in pb.items():
        pa[k] = pa.get(k, 0) + sign * v
    return mk_lin(ca + sign * cb, pa)


def scale(a, k):
    c, p = _parts(a)
    return mk_lin(c * k, {x: v * k for x, v in p.items()})


def lin_coef(t, atom):
    return _parts(t)[1].get(atom, 0)


def lin_const(t):
    return _parts(t)[0]


def lin_atoms(t):
    return set(_parts(t)[1])


# ----------------------------------------------------------------------------------------- evaluator
class PathState:
    __slots__ = ("env", "conds", "effects", "term", "value", "node")

    def __init__(self, env, conds, effects):
        self.env, self.conds, self.effects = env, conds, effects
        self.term, self.value, self.node = "fall", None, None

    def fork(self):
        return PathState(dict(self.env), list(self.conds), list(self.effects))

    def get(self, name, default=UNK):
        return self.env.get(name, default)

    def cond_truth(self, pred):
        """truth of the first recorded condition whose term satisfies pred, else None"""
        for t, v in self.conds:
            if pred(t):
                return v
        return None

    def calls(self, pred=None):
        return [e for e in self.effects if e[0] == "call" and (pred is None or pred(e))]


#: module-level names bound to `object()` anywhere in the analysed program (filled by the loader)
SENTINELS = set()


class TooMany(Exception):
    pass


class Interp:
    def __init__(self, fold=None, hook=None, inline=None, limit=4000, track_attrs=True, on_call=None, log_calls=False):
        self.fold, self.hook, self.inline, self.limit = fold, hook, inline, limit
        self.log_calls = log_calls
        self.n = 0
        self.track_attrs = track_attrs
        self.on_call = on_call

    # ------------------------------------------------------------- expressions
    def h(self, t):
        if self.hook is not None:
            r = self.hook(t)
            if r is not None:
                return r
        return t

    def path_of(self, e):
        """attribute path text for Name/Attribute chains, else None"""
        if isinstance(e, ast.Name):
            return e.id
        if isinstance(e, ast.Attribute):
            b = self.path_of(e.value)
            return None if b is None else f"{b}.{e.attr}"
        return None

    def ev(self, e, st):
        return self.h(self._ev(e, st))

    def _ev(self, e, st):
        env = st.env
        if isinstance(e, ast.Constant):
            return e.value
        if isinstance(e, ast.Name):
            if e.id in env:
                return env[e.id]
            if self.fold is not None:
                v = self.fold(e)
                if isinstance(v, (int, str, bytes, bool, type(None))):
                    return v
            return ("name", e.id)
        if isinstance(e, ast.Attribute):
            p = self.path_of(e)
            if p is not None and p in env:
                return env[p]
            if self.fold is not None and p is not None:
                v = self.fold(e)
                if isinstance(v, (int, str, bytes, bool, type(None))):
                    return v
            return ("attr", self.ev(e.value, st), e.attr)
        if isinstance(e, ast.UnaryOp):
            v = self.ev(e.operand, st)
            if isinstance(e.op, ast.Not):
                return self.neg(v)
            if isinstance(e.op, ast.USub) and (is_lin(v) or intish(v) or (isinstance(v, tuple) and v and v[0] == "call" and v[1] == ("name", "len"))):
                return scale(v, -1)
            if isinstance(e.op, ast.UAdd) and (is_lin(v) or intish(v) or is_int(v)):
                return v                     # +x is x for integers
            if isinstance(e.op, ast.USub):
                return ("neg", v)
            return ("op", type(e.op).__name__, v, None)      # ~x, +<non-integer>: opaque, never confused with negation
        if isinstance(e, ast.BinOp):
            a, b = self.ev(e.left, st), self.ev(e.right, st)
            return self.binop(type(e.op), a, b)
        if isinstance(e, ast.Compare):
            vals = [self.ev(x, st) for x in [e.left] + list(e.comparators)]
            parts = []
            for i, op in enumerate(e.ops):
                parts.append(self.cmp(type(op).__name__, vals[i], vals[i + 1]))
            if len(parts) == 1:
                return parts[0]
            return self.boolop("and", parts)
        if isinstance(e, ast.BoolOp):
            vals = [self.ev(v, st) for v in e.values]
            return self.boolop("and" if isinstance(e.op, ast.And) else "or", vals)
        if isinstance(e, ast.IfExp):
            c = self.ev(e.test, st)
            tv = self.truth(c)
            if tv is True:
                return self.ev(e.body, st)
            if tv is False:
                return self.ev(e.orelse, st)
            a, b = self.ev(e.body, st), self.ev(e.orelse, st)
            return a if a == b else ("ifexp", c, a, b)
        if isinstance(e, ast.Subscript):
            base = self.ev(e.value, st)
            if isinstance(e.slice, ast.Slice) and e.slice.step is not None:
                lo = self.ev(e.slice.lower, st) if e.slice.lower is not None else None
                hi = self.ev(e.slice.upper, st) if e.slice.upper is not None else None
                stp = self.ev(e.slice.step, st)
                if isinstance(base, (bytes, str)) and (lo is None or is_int(lo)) and (hi is None or is_int(hi)) and is_int(stp) and stp != 0:
                    return base[lo:hi:stp]
                return ("slice3", base, lo, hi, stp)
            if isinstance(e.slice, ast.Slice):
                lo = self.ev(e.slice.lower, st) if e.slice.lower is not None else 0
                hi = self.ev(e.slice.upper, st) if e.slice.upper is not None else None
                if isinstance(base, (bytes, str)) and is_int(lo) and (hi is None or is_int(hi)) and e.slice.step is None:
                    return base[lo:hi]
                return ("slice", base, lo, hi)
            idx = self.ev(e.slice, st)
            if isinstance(base, tuple) and base and base[0] == "dict":
                for k, v in base[1]:
                    if k == idx:
                        return v
            if isinstance(base, tuple) and base and base[0] in ("tuple", "list") and is_int(idx) and -len(base[1]) <= idx < len(base[1]):
                return base[1][idx]
            return ("sub", base, idx)
        if isinstance(e, ast.Call):
            f = self.ev(e.func, st) if not isinstance(e.func, ast.Name) or e.func.id in st.env else ("name", e.func.id)
            args = tuple(self.ev(a, st) for a in e.args)
            kwl = []
            for k in e.keywords:
                v_ = self.ev(k.value, st)
                if k.arg is None and isinstance(v_, tuple) and v_ and v_[0] == "dict" and v_[1] and all(isinstance(kk, str) for kk, _ in v_[1]):
                    kwl.extend(v_[1])       # f(**d) with d a known dict of literal names: the entries are the keywords
                else:
                    kwl.append((k.arg, v_))
            kws = tuple(sorted(kwl, key=lambda x: str(x[0])))
            t = self.call(f, args, kws, e, st)
            if self.log_calls:
                st.effects.append(("ecall", self.h(t), e))
            return t
        if isinstance(e, ast.Tuple):
            return ("tuple", tuple(self.ev(x, st) for x in e.elts))
        if isinstance(e, ast.List):
            return ("list", tuple(self.ev(x, st) for x in e.elts))
        if isinstance(e, ast.Dict):
            if any(k is None for k in e.keys):
                items, ok = [], True
                for k, v in zip(e.keys, e.values):
                    vv = self.ev(v, st)
                    if k is None:
                        if isinstance(vv, tuple) and vv and vv[0] == "dict":
                            for kk, v2 in vv[1]:
                                items = [kv for kv in items if kv[0] != kk] + [(kk, v2)]
                        else:
                            ok = False
                    else:
                        kk = self.ev(k, st)
                        items = [kv for kv in items if kv[0] != kk] + [(kk, vv)]
                if ok:
                    return ("dict", tuple(items))
                return ("dictx", tuple(self.ev(v, st) for v in e.values))
            return ("dict", tuple((self.ev(k, st), self.ev(v, st)) for k, v in zip(e.keys, e.values)))
        if isinstance(e, ast.JoinedStr):
            parts = []
            for v in e.values:
                if isinstance(v, ast.Constant):
                    parts.append(v.value)
                elif isinstance(v, ast.FormattedValue):
                    parts.append(("fmt", self.ev(v.value, st)))
            return ("fstr", tuple(parts))
        if isinstance(e, ast.NamedExpr) and isinstance(e.target, ast.Name):
            v = self.ev(e.value, st)
            st.env[e.target.id] = v
            return v
        if isinstance(e, ast.Starred):
            return ("star", self.ev(e.value, st))
        return UNK

    def neg(self, v):
        tv = self.truth(v)
        if tv is not None:
            return not tv
        if isinstance(v, tuple) and v and v[0] == "not":
            return v[1]
        if isinstance(v, tuple) and v and v[0] == "cmp":
            # canonical comparisons are the positive ones: not(a == b) stays a negation, not(a != b) becomes a == b
            flip = {"NotEq": "Eq", "IsNot": "Is", "NotIn": "In", "Lt": "GtE", "GtE": "Lt", "Gt": "LtE", "LtE": "Gt"}
            if v[1] in ("NotEq", "IsNot", "NotIn") or (v[1] in flip and intish(v[2]) and intish(v[3])):
                return ("cmp", flip[v[1]], v[2], v[3])
        return ("not", v)

    def binop(self, op, a, b):
        n = op.__name__
        if n in ("Add", "Sub"):
            if is_int(a) and is_int(b):
                return a + b if n == "Add" else a - b
            if n == "Add" and isinstance(a, (bytes, str)) and type(a) is type(b):
                return a + b
            if n == "Add" and isinstance(a, tuple) and isinstance(b, tuple) and a and b and a[0] == b[0] and a[0] in ("list", "tuple") \
                    and len(a) == 2 and len(b) == 2:
                return (a[0], tuple(a[1]) + tuple(b[1]))          # display + display
            if (intish(a) or is_lin(a)) and (intish(b) or is_lin(b)):
                return add(a, b, 1 if n == "Add" else -1)
            if (intish(a) or intish(b)) and not isinstance(a, (bytes, str)) and not isinstance(b, (bytes, str)):
                return add(a, b, 1 if n == "Add" else -1)
            return ("op", n, a, b)
        if n == "Mult":
            if is_int(a) and is_int(b):
                return a * b
            seq = lambda x: isinstance(x, (bytes, str)) or (isinstance(x, tuple) and x and x[0] in ("list", "tuple", "fstr"))
            if is_int(a) and not seq(b) and not isinstance(b, bool) and b is not None:
                return scale(b, a)
            if is_int(b) and not seq(a) and not isinstance(a, bool) and a is not None:
                return scale(a, b)
            return ("op", n, a, b)
        if n == "Mod" and is_int(b) and b > 0:
            if is_int(a):
                return a % b
            if isinstance(a, (str, bytes)):
                return ("op", n, a, b)
            c, p = _parts(a)
            p = {k: v % b for k, v in p.items() if v % b}
            hk = getattr(self, "hook", None)
            if hk is not None:
                # a residue known for an atom (hook answers `atom % b`) folds into the constant: (-L) % 4 with L % 4 == r
                for k in list(p):
                    r_ = hk(("mod", k, b))
                    if is_int(r_):
                        c += p.pop(k) * r_
            red = mk_lin(c % b, p)
            if is_int(red):
                return red % b
            return ("mod", red, b)
        if n == "FloorDiv" and is_int(a) and is_int(b) and b:
            return a // b
        if n in ("BitAnd", "BitOr", "BitXor", "LShift", "RShift") and is_int(a) and is_int(b):
            try:
                return {"BitAnd": a & b, "BitOr": a | b, "BitXor": a ^ b, "LShift": a << b if 0 <= b < 64 else None,
                        "RShift": a >> b if 0 <= b < 64 else None}[n]
            except Exception:
                return ("op", n, a, b)
        return ("op", n, a, b)

    def cmp(self, op, a, b):
        conc = lambda x: isinstance(x, (int, str, bytes, bool, type(None)))
        if conc(a) and conc(b):
            try:
                return {"Eq": lambda: a == b, "NotEq": lambda: a != b, "Lt": lambda: a < b, "LtE": lambda: a <= b,
                        "Gt": lambda: a > b, "GtE": lambda: a >= b, "Is": lambda: a is b or a == b and type(a) is type(b),
                        "IsNot": lambda: not (a is b or a == b and type(a) is type(b)),
                        "In": lambda: a in b, "NotIn": lambda: a not in b}[op]()
            except Exception:
                return ("cmp", op, a, b)
        boolish = lambda x: isinstance(x, tuple) and x and x[0] in ("cmp", "not", "and", "or")
        if op in ("Eq", "NotEq", "Is", "IsNot") and isinstance(b, bool) and boolish(a):
            pos = (op in ("Eq", "Is")) == b
            return a if pos else self.neg(a)
        if op in ("Eq", "NotEq", "Is", "IsNot") and isinstance(a, bool) and boolish(b):
            pos = (op in ("Eq", "Is")) == a
            return b if pos else self.neg(b)
        if op in ("Lt", "LtE", "Gt", "GtE", "Eq", "NotEq") and (is_lin(a) or intish(a)) and (is_lin(b) or intish(b)):
            d = add(a, b, -1)
            if is_int(d):
                return {"Lt": d < 0, "LtE": d <= 0, "Gt": d > 0, "GtE": d >= 0, "Eq": d == 0, "NotEq": d != 0}[op]
        if op in ("Is", "IsNot") and b is None and isinstance(a, tuple) and a and a[0] in ("tuple", "list", "dict", "lin", "fstr"):
            return op == "IsNot"
        if op in ("Is", "IsNot"):
            # a private sentinel (a module-level name bound to `object()`) is identical only to itself: the result of a call, a
            # constant or a display is some other object
            for x, y in ((a, b), (b, a)):
                if isinstance(x, tuple) and len(x) == 2 and x[0] == "name" and x[1] in SENTINELS:
                    if y == x:
                        return op == "Is"
                    if conc(y) or (isinstance(y, tuple) and y and y[0] in ("call", "tuple", "list", "dict", "lin", "fstr", "slice", "sub")):
                        return op == "IsNot"
        if op in ("In", "NotIn") and isinstance(b, tuple) and b and b[0] in ("tuple", "list") and conc(a) \
                and all(conc(x) for x in b[1]):
            return (a in b[1]) == (op == "In")
        if op in ("In", "NotIn") and isinstance(b, tuple) and b and b[0] == "dict" and conc(a) and all(conc(k) for k, _ in b[1]):
            return (a in [k for k, _ in b[1]]) == (op == "In")
        # canonical direction for the negative operators: record as not(positive)
        neg = {"NotEq": "Eq", "IsNot": "Is", "NotIn": "In"}
        if op in neg:
            return self.neg(self.h(("cmp", neg[op], a, b)))
        return self.h(("cmp", op, a, b))

    def boolop(self, kind, vals):
        """value semantics of and/or: the first operand that decides, else a term over the undecided prefix"""
        out = []
        for i, v in enumerate(vals):
            tv = self.truth(v)
            decides = (tv is False) if kind == "and" else (tv is True)
            skips = (tv is True) if kind == "and" else (tv is False)
            if decides:
                if not out:
                    return v
                out.append(v)
                return (kind, tuple(out))
            if skips and (i < len(vals) - 1 or out):
                if i == len(vals) - 1:
                    # the last operand is the value when every undecided one before it lets it through
                    out.append(v)
                continue
            out.append(v)
        if not out:
            return vals[-1] if vals else (kind == "and")
        if len(out) == 1:
            return out[0]
        return (kind, tuple(out))

    def truth(self, v):
        if isinstance(v, (bool, int, str, bytes)) or v is None:
            return bool(v)
        if isinstance(v, tuple) and v:
            if v[0] in ("tuple", "list", "dict"):
                return len(v[1]) > 0
            if v[0] == "fstr":
                return True if any(isinstance(p, str) and p for p in v[1]) else None
        return None

    def call(self, f, args, kws, node, st):
        # pure builtins on concrete values
        if f == ("name", "len") and len(args) == 1:
            a = args[0]
            if isinstance(a, (bytes, str)):
                return len(a)
            if isinstance(a, tuple) and a and a[0] in ("tuple", "list", "dict"):
                return len(a[1])
            if isinstance(a, tuple) and a and a[0] == "slice" and a[3] is not None and is_lin(a[2]) and is_lin(a[3]):
                pass   # the length of a slice depends on the base; keep it opaque
        if f == ("name", "bytes") and len(args) == 1 and is_int(args[0]) and 0 <= args[0] < 64:
            return bytes(args[0])
        if f == ("name", "bytes") and not args:
            return b""
        if f in (("name", "list"), ("name", "dict"), ("name", "tuple")) and not args and not kws:
            return (f[1], ())
        if f == ("name", "divmod") and len(args) == 2 and is_int(args[0]) and is_int(args[1]) and args[1] != 0:
            q, r = divmod(args[0], args[1])
            return ("tuple", (q, r))
        if f == ("name", "int") and len(args) == 1 and is_int(args[0]):
            return args[0]
        if f == ("name", "str") and len(args) == 1 and isinstance(args[0], (int, str)) and not isinstance(args[0], bool):
            return str(args[0])
        if f == ("name", "abs") and len(args) == 1 and is_int(args[0]):
            return abs(args[0])
        if f == ("name", "isinstance") and len(args) == 2 and isinstance(args[0], (int, str, bytes, bool, type(None))) \
                and isinstance(args[1], tuple) and args[1][0] == "name" and args[1][1] in ("int", "str", "bytes", "bool", "float"):
            return isinstance(args[0], {"int": int, "str": str, "bytes": bytes, "bool": bool, "float": float}[args[1][1]])
        if f == ("name", "bool") and len(args) == 1:
            tv = self.truth(args[0])
            if tv is not None:
                return tv
        if f == ("name", "isinstance"):
            pass
        conc = lambda x: isinstance(x, (int, str, bytes, bool, type(None)))
        # pure string predicates on constants (a constant pattern applied to a constant string is constant folding)
        if f in (("attr", ("name", "re"), "match"), ("attr", ("name", "re"), "fullmatch"), ("attr", ("name", "re"), "search")) \
                and len(args) == 2 and isinstance(args[0], str) and isinstance(args[1], str) and not kws:
            import re as _re
            try:
                return True if getattr(_re, f[2])(args[0], args[1]) else None
            except _re.error:
                return UNK
        if isinstance(f, tuple) and f[0] == "attr" and f[2] in ("endswith", "startswith") and isinstance(f[1], str) \
                and len(args) == 1 and isinstance(args[0], (str, tuple)) and not kws:
            a0 = args[0] if isinstance(args[0], str) else tuple(args[0][1]) if args[0][0] == "tuple" and all(isinstance(x, str) for x in args[0][1]) else None
            if a0 is not None:
                return getattr(f[1], f[2])(a0)
        if isinstance(f, tuple) and f[0] == "attr" and f[2] == "get" and isinstance(f[1], tuple) and f[1] and f[1][0] == "dict" \
                and 1 <= len(args) <= 2 and conc(args[0]) and all(conc(k) for k, _ in f[1][1]):
            for k, v in f[1][1]:
                if k == args[0]:
                    return v
            return args[1] if len(args) == 2 else None
        if self.inline is not None:
            r = self.inline(f, args, kws, node, st, self)
            if r is not None:
                return r
        t = ("call", f, args, kws)
        return t

    # ------------------------------------------------------------- statements
    def assign(self, target, val, st):
        if isinstance(target, ast.Name):
            st.env[target.id] = val
        elif isinstance(target, ast.Attribute):
            p = self.path_of(target)
            if p is not None and self.track_attrs:
                st.env[p] = val
                # stores through the object invalidate longer paths
                for k in [k for k in st.env if k.startswith(p + ".")]:
                    del st.env[k]
            st.effects.append(("store", p or ast.unparse(target), val, target))
            st.effects.append(("storeattr", self.ev(target.value, st), target.attr, val, target))
        elif isinstance(target, (ast.Tuple, ast.List)):
            for i, t in enumerate(target.elts):
                if isinstance(val, tuple) and val and val[0] in ("tuple", "list") and len(val[1]) == len(target.elts):
                    self.assign(t, val[1][i], st)
                else:
                    self.assign(t, ("sub", val, i), st)
        elif isinstance(target, ast.Subscript):
            base = self.ev(target.value, st)
            if isinstance(target.slice, ast.Slice):
                key = ("slice",)
            else:
                key = self.ev(target.slice, st)
            st.effects.append(("setitem", base, key, val, target))
            p = self.path_of(target.value)
            if p is not None and isinstance(st.env.get(p), tuple) and st.env[p] and st.env[p][0] == "dict" and key != ("slice",):
                d = [kv for kv in st.env[p][1] if kv[0] != key] + [(key, val)]
                st.env[p] = ("dict", tuple(d))

    def run(self, stmts, st=None):
        """-> list of PathState (term in fall/return/raise/break/continue)"""
        st = st or PathState({}, [], [])
        return list(self.seq(list(stmts), st))

    def seq(self, ss, st):
        i = 0
        while i < len(ss):
            s = ss[i]
            outs = list(self.one(s, st))
            if len(outs) == 1 and outs[0].term == "fall":
                st = outs[0]
                i += 1
                continue
            rest = ss[i + 1:]
            for o in outs:
                if o.term == "fall":
                    yield from self.seq(rest, o)
                else:
                    yield o
            return
        yield st

    def one(self, s, st):
        self.n += 1
        if self.n > self.limit:
            raise TooMany()
        if isinstance(s, ast.Assign):
            v = self.ev(s.value, st)
            for t in s.targets:
                self.assign(t, v, st)
            yield st
        elif isinstance(s, ast.AnnAssign):
            if s.value is not None:
                self.assign(s.target, self.ev(s.value, st), st)
            yield st
        elif isinstance(s, ast.AugAssign):
            cur = self.ev(_as_load(s.target), st)
            v = self.h(self.binop(type(s.op), cur, self.ev(s.value, st)))
            self.assign(s.target, v, st)
            yield st
        elif isinstance(s, ast.Expr):
            v = self.ev(s.value, st)
            if isinstance(s.value, ast.Call):
                st.effects.append(("call", v, s.value))
                self._mutation(s.value, v, st)
            yield st
        elif isinstance(s, ast.If):
            c = self.ev(s.test, st)
            tv = self.truth(c)
            if tv is None:
                tv = known_truth(c, st)      # decided earlier on this path: contradictory branches are infeasible
            if tv is None:
                # conjunctions / disjunctions are split so that each recorded condition is an atom: a false conjunction (true
                # disjunction) gives one path per short-circuit outcome
                alts_t, alts_f = outcomes(c, True), outcomes(c, False)
                if len(alts_t) + len(alts_f) > 10:
                    alts_t, alts_f = None, None
                for alts, truth, body in ((alts_t, True, s.body), (alts_f, False, s.orelse)):
                    if alts is None:
                        x = st.fork()
                        record(x, c, truth)
                        yield from self.seq(list(body), x)
                        continue
                    for alt in alts:
                        x = st.fork()
                        feasible = True
                        for atom, tv_ in alt:
                            k = known_truth(atom, x)
                            if k is None:
                                x.conds.append((atom, tv_))
                            elif k is not tv_:
                                feasible = False
                                break
                        if feasible:
                            yield from self.seq(list(body), x)
            elif tv:
                yield from self.seq(list(s.body), st)
            else:
                yield from self.seq(list(s.orelse), st)
        elif isinstance(s, ast.Return):
            st.term, st.node = "return", s
            st.value = self.ev(s.value, st) if s.value is not None else None
            yield st
        elif isinstance(s, ast.Raise):
            st.term, st.node = "raise", s
            st.value = self.ev(s.exc, st) if s.exc is not None else None
            yield st
        elif isinstance(s, ast.Break):
            st.term, st.node = "break", s
            yield st
        elif isinstance(s, ast.Continue):
            st.term, st.node = "continue", s
            yield st
        elif isinstance(s, ast.With):
            for it in s.items:
                v = self.ev(it.context_expr, st)
                st.effects.append(("with", v, it.context_expr))
                if it.optional_vars is not None:
                    self.assign(it.optional_vars, ("enter", v), st)
            for o in self.seq(list(s.body), st):
                o.effects.append(("endwith", None, s))
                yield o
        elif isinstance(s, ast.Try):
            entry = st.fork()
            for o in self.seq(list(s.body), st):
                if o.term == "fall" and s.orelse:
                    for o2 in self.seq(list(s.orelse), o):
                        yield from self._finally(s, o2)
                else:
                    yield from self._finally(s, o)
            stored = set()
            for bi, b in enumerate(s.body):
                # a name whose only store is the plain assignment that ends the protected body keeps its entry value in
                # every handler: either an earlier statement raised, or the right-hand side of that assignment did
                last_plain = bi == len(s.body) - 1 and isinstance(b, (ast.Assign, ast.AnnAssign, ast.Expr, ast.Return))
                for n in ast.walk(b):
                    if isinstance(n, (ast.Name, ast.Attribute)) and isinstance(n.ctx, ast.Store):
                        p = self.path_of(n)
                        if p and not (last_plain and isinstance(n, ast.Name)):
                            stored.add(p)
            for h in s.handlers:
                hs = entry.fork()
                for p in stored:
                    hs.env[p] = UNK
                    for k in [k for k in hs.env if k.startswith(p + ".")]:
                        hs.env[k] = UNK
                hs.conds.append((("exc", ast.unparse(h.type) if h.type is not None else "BaseException", id(s)), True))
                hs.effects.append(("except", ast.unparse(h.type) if h.type is not None else None, h))
                if h.name:
                    hs.env[h.name] = ("exc-object", ast.unparse(h.type) if h.type is not None else None)
                for o in self.seq(list(h.body), hs):
                    yield from self._finally(s, o)
        elif isinstance(s, (ast.For, ast.While)):
            # opaque: names stored in the loop become unknown
            for b in s.body + s.orelse:
                for n in ast.walk(b):
                    if isinstance(n, (ast.Name, ast.Attribute)) and isinstance(n.ctx, ast.Store):
                        p = self.path_of(n)
                        if p:
                            st.env[p] = ("loopvar", p, s.lineno)
            if isinstance(s, ast.For):
                it = self.ev(s.iter, st)
                st.effects.append(("loop", it, s))
                for n in ast.walk(s.target):
                    if isinstance(n, ast.Name):
                        st.env[n.id] = ("loopvar", n.id, s.lineno)
            else:
                st.effects.append(("loop", None, s))
                # a while loop that is only left through its test leaves the test false (evaluated on the post-loop state)
                has_break = any(isinstance(n, ast.Break) for b in s.body for n in ast.walk(b)
                                if not isinstance(b, (ast.For, ast.While)))
                if not has_break and not s.orelse:
                    c = self.ev(s.test, st)
                    if self.truth(c) is None:
                        record(st, c, False)
            yield st
        elif isinstance(s, ast.Delete):
            for t in s.targets:
                st.effects.append(("del", self.ev(_as_load(t), st) if not isinstance(t, ast.Subscript) else
                                   ("sub", self.ev(t.value, st), self.ev(t.slice, st) if not isinstance(t.slice, ast.Slice) else ("slice",)), t))
                p = self.path_of(t)
                if p:
                    st.env.pop(p, None)
            yield st
        elif isinstance(s, ast.Assert):
            yield st
        else:
            yield st

    def _finally(self, s, o):
        if not s.finalbody:
            yield o
            return
        term, val, node = o.term, o.value, o.node
        o.term = "fall"
        for f in self.seq(list(s.finalbody), o):
            if f.term == "fall":
                f.term, f.value, f.node = term, val, node
            yield f

    def _mutation(self, call, v, st):
        """x.append(y) / x.update(d) on a tracked list/dict literal updates the environment."""
        if not isinstance(call.func, ast.Attribute):
            return
        args0 = v[2] if isinstance(v, tuple) and v and v[0] == "call" else ()
        if call.func.attr == "update" and len(args0) == 1 and isinstance(args0[0], tuple) and args0[0] and args0[0][0] == "dict" \
                and isinstance(v[1], tuple) and v[1][0] == "attr":
            # d.update({k: v, ...}) is the same write as d[k] = v
            for k_, v_ in args0[0][1]:
                st.effects.append(("setitem", v[1][1], k_, v_, call))
        p = self.path_of(call.func.value)
        if p is None or p not in st.env:
            return
        cur = st.env[p]
        if not (isinstance(cur, tuple) and cur):
            return
        args = v[2] if isinstance(v, tuple) and v and v[0] == "call" else ()
        if call.func.attr == "append" and cur[0] == "list" and len(args) == 1:
            st.env[p] = ("list", cur[1] + (args[0],))
        elif call.func.attr == "update" and cur[0] == "dict" and len(args) == 1 and isinstance(args[0], tuple) and args[0][0] == "dict":
            d = [kv for kv in cur[1] if kv[0] not in [k for k, _ in args[0][1]]] + list(args[0][1])
            st.env[p] = ("dict", tuple(d))
        elif cur[0] in ("list", "dict"):
            st.env[p] = UNK

    def loop_body(self, loop, carried, st=None):
        """Interpret one iteration of `loop` with each name in `carried` bound to S(name)."""
        st = st.fork() if st is not None else PathState({}, [], [])
        for k, v in carried.items():
            st.env[k] = v
        if isinstance(loop, ast.For):
            for n in ast.walk(loop.target):
                if isinstance(n, ast.Name) and n.id not in carried:
                    st.env[n.id] = S(n.id)
        return self.run(loop.body, st)


def known_truth(c, st):
    """three-valued truth of a condition term given the conditions already recorded on the path"""
    for t, v in st.conds:
        if t == c:
            return v
    if isinstance(c, tuple) and c:
        if c[0] == "not":
            r = known_truth(c[1], st)
            return None if r is None else (not r)
        if c[0] in ("and", "or"):
            vals = [known_truth(x, st) for x in c[1]]
            if c[0] == "and":
                if any(v is False for v in vals):
                    return False
                return True if all(v is True for v in vals) else None
            if any(v is True for v in vals):
                return True
            return False if all(v is False for v in vals) else None
    return None


def outcomes(c, truth):
    """the short-circuit outcomes that give condition term c the value `truth`: a list of alternatives, each a list of
    (atom, truth) in evaluation order"""
    if isinstance(c, tuple) and c and c[0] == "not":
        return outcomes(c[1], not truth)
    if isinstance(c, tuple) and c and c[0] in ("and", "or"):
        through = c[0] == "and"          # the value every operand but the deciding one must have
        if truth is through:
            out = [[]]
            for x in c[1]:
                out = [a + b for a in out for b in outcomes(x, truth)]
                if len(out) > 16:
                    break
            return out
        out, prefix = [], [[]]
        for x in c[1]:
            for a in prefix:
                for b in outcomes(x, truth):
                    out.append(a + b)
            prefix = [a + b for a in prefix for b in outcomes(x, through)]
            if len(out) > 16 or len(prefix) > 16:
                break
        return out
    return [[(c, truth)]]


def record(st, c, truth):
    """record a branch condition as atoms: not(x) -> (x, !truth); a true conjunction / false disjunction is split"""
    if isinstance(c, tuple) and c and c[0] == "not":
        return record(st, c[1], not truth)
    if isinstance(c, tuple) and c and ((c[0] == "and" and truth) or (c[0] == "or" and not truth)):
        for x in c[1]:
            record(st, x, truth)
        return
    st.conds.append((c, truth))


def _as_load(t):
    import copy
    t = copy.deepcopy(t)
    for n in ast.walk(t):
        if hasattr(n, "ctx"):
            n.ctx = ast.Load()
    return t


def show(t, depth=0):
    """compact rendering of a term for messages"""
    if isinstance(t, tuple) and t:
        k = t[0]
        if k == "lin":
            parts = [str(t[1])] if t[1] else []
            for a, c in t[2]:
                parts.append(("" if c == 1 else "-" if c == -1 else f"{c}*") + show(a, depth + 1))
            return " + ".join(parts).replace("+ -", "- ")
        if k in ("sym", "name"):
            return str(t[1])
        if k == "attr":
            return f"{show(t[1], depth + 1)}.{t[2]}"
        if k == "call":
            args = [show(a, depth + 1) for a in t[2]] + [f"{n}={show(v, depth + 1)}" for n, v in t[3]]
            return f"{show(t[1], depth + 1)}({', '.join(args)})"
        if k == "slice":
            return f"{show(t[1], depth + 1)}[{show(t[2], depth + 1)}:{'' if t[3] is None else show(t[3], depth + 1)}]"
        if k == "sub":
            return f"{show(t[1], depth + 1)}[{show(t[2], depth + 1)}]"
        if k == "cmp":
            return f"({show(t[2], depth + 1)} {t[1]} {show(t[3], depth + 1)})"
        if k == "not":
            return f"not {show(t[1], depth + 1)}"
        if k == "mod":
            return f"({show(t[1], depth + 1)}) % {t[2]}"
        if k == "unk":
            return "?"
        if k in ("tuple", "list"):
            return "[" + ", ".join(show(x, depth + 1) for x in t[1]) + "]"
        if k == "dict":
            return "{" + ", ".join(f"{show(a, depth + 1)}: {show(b, depth + 1)}" for a, b in t[1]) + "}"
        return f"{k}(" + ", ".join(show(x, depth + 1) for x in t[1:] if not isinstance(x, ast.AST)) + ")"
    return repr(t)


def table_writes(p, is_table):
    """Two-level table writes on a path: table[k1][k2] = v, table[k1] = {k2: v}, table[k1] = {} (and the update() spellings).
    -> (entries [(k1, k2, v)], clobbers) where `clobbers` counts bucket (re)creations not guarded by `k1 not in table`."""
    entries, clobbers = [], 0
    for e in p.effects:
        if e[0] != "setitem":
            continue
        base, key, val = e[1], e[2], e[3]
        if isinstance(base, tuple) and base and base[0] == "sub" and is_table(base[1]):
            entries.append((base[2], key, val))
        elif isinstance(base, tuple) and base and base[0] == "call" and isinstance(base[1], tuple) and base[1][0] == "attr" \
                and base[1][2] == "setdefault" and is_table(base[1][1]) and len(base[2]) == 2 and base[2][1] in (("dict", ()), ("call", ("name", "dict"), (), ())):
            # table.setdefault(k1, {})[k2] = v : the bucket is created only when missing
            entries.append((base[2][0], key, val))
        elif is_table(base):
            fresh = any(c == ("cmp", "In", key, base) and tv is False for c, tv in p.conds)
            if isinstance(val, tuple) and val and val[0] == "dict":
                for k2, v2 in val[1]:
                    entries.append((key, k2, v2))
                if not fresh:
                    clobbers += 1
            else:
                entries.append((key, None, val))
    return entries, clobbers
