"""C04 - inbound messages are delivered once, in order, however the stream is fragmented (structural clauses)."""
import ast

from ..astutil import make_cfg, call_name, fn_calls, must_pass, node_calls, walk_no_nested, header_exprs, strip_doc
from ..raises import Raises
from ..locks import FieldKinds
from .c08 import universe, held_at_entry

META = {
    "explanation": "Necessary structure of any fragment-tolerant, race-free receive path, phrased location-independently on the taint "
                   "path from sock.recv to the argument of DiameterMessage.load: (1) carry-over - some persistent buffer on the path "
                   "is partially consumed (assigned a slice/remainder of its own previous value), otherwise an incomplete tail "
                   "cannot survive to the next read; (2) completeness guard - a comparison that involves both len(X) and a length "
                   "decoded from the bytes of X governs what is handed to the decoder; (3) conservation of the transport's receive "
                   "buffers (append / transfer / partial consume only); (4) lock consistency - every read-modify-write of the shared "
                   "receive buffer happens under a common lock; (5) exactly-once hand-over per hop; (6) FIFO hops (queue.Queue, "
                   "single producer site per queue, no re-enqueue).",
    "decided": ["carry-over exists", "completeness guard governs decoding", "buffer conservation", "lockset on the inbound buffer",
                "exactly-once hand-over per hop", "FIFO hops"],
    "not_decided": ["all segmentations x all interleavings as such (the schedule/segmentation quantifier needs execution or model checking)"],
    "trusted_base": ["Python ast", "field-granular taint propagation", "lockset dataflow", "CFG must-pass"],
    "assumptions": [],
}

BUFFERS = ("_recv_buffer", "_recv_data_stream")


def field_key(fk_owner, attr):
    return f"{fk_owner}.{attr}"


def owner(fi, t):
    """(class name) of attribute expression X.attr for the receive path classes"""
    v = t.value
    if isinstance(v, ast.Name) and v.id == "self" and fi.cls is not None:
        names = [k.name for k in fi.cls.mro()]
        return "TcpConnection" if "TcpConnection" in names else fi.cls.name
    if ast.unparse(v) in ("self.transport", "self.association.transport"):
        return "TcpConnection"
    if ast.unparse(v) in ("self.association",):
        return "DiameterAssociation"
    return None



def _nonempty_polarity(atom_text, buf):
    """True when the atom holds exactly when `buf` is non-empty, False when exactly when it is empty, None otherwise."""
    try:
        t = ast.parse(atom_text, mode="eval").body
    except SyntaxError:
        return None
    if ast.unparse(t) == buf or ast.unparse(t) in (f"len({buf})", f"bool({buf})"):
        return True
    if isinstance(t, ast.Compare) and len(t.ops) == 1:
        l, op, r = t.left, t.ops[0], t.comparators[0]
        flip = {ast.Lt: ast.Gt, ast.Gt: ast.Lt, ast.LtE: ast.GtE, ast.GtE: ast.LtE}
        if isinstance(l, ast.Constant) and not isinstance(r, ast.Constant):
            l, r = r, l
            op = flip.get(type(op), type(op))()
        lt = ast.unparse(l)
        if lt == f"len({buf})" and isinstance(r, ast.Constant) and isinstance(r.value, int) and not isinstance(r.value, bool):
            n = r.value
            if (isinstance(op, ast.Gt) and n == 0) or (isinstance(op, ast.GtE) and n == 1):
                return True
            if (isinstance(op, ast.Eq) and n == 0) or (isinstance(op, ast.Lt) and n == 1) or (isinstance(op, ast.LtE) and n == 0):
                return False
        if lt == buf and isinstance(r, ast.Constant) and r.value in (b"", ) and isinstance(op, ast.Eq):
            return False
    return None

def check(ctx):
    repo = ctx.repo
    R = Raises(repo)
    fk = FieldKinds(repo)
    funcs = universe(repo)
    tr = [f for q, f in funcs.items() if f.mod.name in ("bromelia.transport", "bromelia.setup")]

    # ---- taint: places reached by received bytes ----------------------------------------------------
    tainted_fields = set()
    tainted_locals = {}      # func qual -> set of names
    changed = True
    rounds = 0
    _TAINT["returns"], _TAINT["R"] = set(), R
    while changed and rounds < 10:
        changed = False
        rounds += 1
        for fi in tr:
            loc = tainted_locals.setdefault(fi.qual, set())
            if fi.qual not in _TAINT["returns"]:
                for s in walk_no_nested(fi.node):
                    if (isinstance(s, ast.Return) or isinstance(s, ast.Expr) and isinstance(s.value, (ast.Yield, ast.YieldFrom)) and
                            (s := s.value)) and s.value is not None and _tainted_expr(fi, s.value, loc, tainted_fields):
                        _TAINT["returns"].add(fi.qual)
                        changed = True
                        break
            for s in walk_no_nested(fi.node):
                tgt = val = None
                if isinstance(s, ast.Assign) and len(s.targets) == 1:
                    tgt, val = s.targets[0], s.value
                elif isinstance(s, ast.AugAssign):
                    tgt, val = s.target, s.value
                elif isinstance(s, ast.For):
                    # iterating over (a function of) received bytes: the loop variable carries them
                    tgt, val = s.target, s.iter
                if tgt is None:
                    continue
                tv = _tainted_expr(fi, val, loc, tainted_fields)
                if not tv:
                    continue
                tgts = tgt.elts if isinstance(tgt, ast.Tuple) else [tgt]
                for t in tgts:
                    if isinstance(t, ast.Name) and t.id not in loc:
                        loc.add(t.id)
                        changed = True
                    elif isinstance(t, ast.Attribute):
                        o = owner(fi, t)
                        if o and (o, t.attr) not in tainted_fields:
                            tainted_fields.add((o, t.attr))
                            changed = True
            # helper calls: a tainted argument taints the callee's parameter
            for c in fn_calls(fi.node):
                callees, _ = R.resolve_call(fi, c, R.local_types(fi))
                for cal in callees:
                    if cal.qual not in funcs:
                        continue
                    params = [p for p in cal.params() if p != "self"]
                    for i, a in enumerate(c.args):
                        if i < len(params) and _tainted_expr(fi, a, loc, tainted_fields):
                            cl = tainted_locals.setdefault(cal.qual, set())
                            if params[i] not in cl:
                                cl.add(params[i])
                                changed = True
                                if cal not in tr:
                                    tr.append(cal)
    ctx.count("tainted_fields", len(tainted_fields))
    ctx.floor("receive_path_buffers", len([f for f in tainted_fields if f[1] in BUFFERS]), 2)

    # decode entry
    sinks = []
    for fi in tr:
        for c in fn_calls(fi.node):
            if call_name(c) in ("DiameterMessage.load",) and c.args and \
                    _tainted_expr(fi, c.args[0], tainted_locals.get(fi.qual, set()), tainted_fields):
                sinks.append((fi, c))
    if len(sinks) != 1:
        ctx.undecided("R-CONSERVE/carry-over", "receive path", "-", f"expected one tainted call of DiameterMessage.load, found {len(sinks)}", key="sink")
        return
    sfi, scall = sinks[0]

    # ---- 1 carry-over --------------------------------------------------------------------------------------
    ctx.clause = "1-carry-over"
    persistent = sorted(f for f in tainted_fields if f[0] == "TcpConnection" and f[1] in BUFFERS or f[1].endswith("pending") or "buffer" in f[1] or "stream" in f[1])
    partial = []
    for fi in tr:
        aliases = {}     # local -> field it was drained from
        for s in walk_no_nested(fi.node):
            if isinstance(s, ast.Assign) and len(s.targets) == 1 and isinstance(s.targets[0], ast.Name):
                v = s.value
                if isinstance(v, ast.Call) and call_name(v) in ("copy.copy", "bytes") and v.args:
                    v = v.args[0]
                if isinstance(v, ast.Attribute):
                    o = owner(fi, v)
                    if o and (o, v.attr) in tainted_fields:
                        aliases[s.targets[0].id] = (o, v.attr)
        for s in walk_no_nested(fi.node):
            if isinstance(s, ast.Assign) and len(s.targets) == 1 and isinstance(s.targets[0], ast.Attribute):
                t = s.targets[0]
                o = owner(fi, t)
                if not o or (o, t.attr) not in tainted_fields:
                    continue
                v = s.value
                if isinstance(v, ast.Subscript) and isinstance(v.slice, ast.Slice) and v.slice.lower is not None:
                    src = v.value
                    same = isinstance(src, ast.Attribute) and owner(fi, src) == o and src.attr == t.attr
                    via = isinstance(src, ast.Name) and aliases.get(src.id) == (o, t.attr)
                    if same or via:
                        partial.append((fi, s, (o, t.attr)))
    ctx.decide(bool(partial), "R-CONSERVE/carry-over", "receive path (sock.recv -> DiameterMessage.load)", sfi.where(scall),
               f"{partial[0][2][0]}.{partial[0][2][1]} keeps its unconsumed tail (`{ast.unparse(partial[0][1])[:70]}`)" if partial else "",
               f"no persistent buffer on the path {['.'.join(p) for p in persistent]} is ever partially consumed: every buffer is only "
               f"appended to and cleared wholesale, so the incomplete tail of a fragmented message cannot survive to the next read - "
               f"a message split across two reads is lost or corrupted", key="carry_over")

    # ---- 1a the split of the shared stream is exact (on terms) ---------------------------------------------------------
    # what is handed to the decoder and what stays behind are the two halves X[:B] / X[B:] of the WHOLE buffered stream X, with
    # B = get_complete_messages_length(X) measured on that same whole stream: a window / prefix of X as the measured or split
    # value, or two different boundaries, loses or duplicates bytes for some segmentation (a message longer than the window is
    # never complete inside it and blocks everything behind it)
    ctx.clause = "1a-exact-split"
    from .. import sym as _sy
    _lps = [x for x in walk_no_nested(sfi.node) if isinstance(x, (ast.For, ast.While)) and any(y is scall for y in ast.walk(x))]
    _itp = _sy.Interp(fold=lambda e: repo.fold(sfi.mod, e), log_calls=True, limit=20000)
    _env0 = {a.arg: _sy.S(a.arg) for a in sfi.node.args.args}
    try:
        _paths = _itp.loop_body(_lps[0], {}, _sy.PathState(_env0, [], [])) if _lps else \
            _itp.run(strip_doc(sfi.node.body), _sy.PathState(_env0, [], []))
    except _sy.TooMany:
        _paths = []

    def _unwrap(t):
        # copies of a bytes value are the value
        while isinstance(t, tuple) and t and t[0] == "call" and len(t[2]) == 1 and not t[3] and \
                t[1] in (("attr", ("name", "copy"), "copy"), ("name", "copy"), ("name", "bytes"), ("attr", ("name", "copy"), "deepcopy")):
            t = t[2][0]
        if isinstance(t, tuple):
            return tuple(_unwrap(x) if isinstance(x, tuple) else x for x in t)
        return t

    def _find_calls(t, pred, out):
        if isinstance(t, tuple):
            if t and t[0] == "call" and pred(t):
                out.append(t)
            for x in t:
                _find_calls(x, pred, out)
        return out
    n_split = 0
    for p_ in _paths:
        stores = [(_unwrap(e[2]), e[3]) for e in p_.effects if e[0] == "store" and isinstance(e[1], str) and e[1].endswith("._recv_data_stream")]
        loads = []
        for e in p_.effects:
            if e[0] in ("ecall", "loop") and isinstance(e[1], tuple):
                _find_calls(e[1], lambda c: c[1] == ("attr", ("name", "DiameterMessage"), "load"), loads)
        if not stores or not loads:
            continue
        n_split += 1
        V, vnode = stores[-1]
        A = _unwrap(loads[0][2][0]) if loads[0][2] else None
        X = next((_unwrap(t) for t in [V[1] if isinstance(V, tuple) and V[:1] == ("slice",) else None] if t is not None), None)
        is_field = lambda t: isinstance(t, tuple) and t[:1] == ("attr",) and t[2] == "_recv_data_stream"
        gl = lambda t: isinstance(t, tuple) and t[:1] == ("call",) and t[1] == ("name", "get_complete_messages_length") and len(t[2]) == 1
        shape = isinstance(V, tuple) and V[:1] == ("slice",) and isinstance(A, tuple) and A[:1] == ("slice",)
        if not shape or not is_field(X):
            ctx.undecided("R-CONSERVE/exact-split", sfi.qual, sfi.where(vnode),
                          f"carry-over `{_sy.show(V)}` / handed over `{_sy.show(A)}` are not slices of the buffered stream", key="split_shape")
            continue
        Bk, Bh = V[2], A[3]
        measured = [c[2][0] for c in _find_calls((Bk, Bh), gl, [])]
        whole = V[1] == X and A[1] == X and A[2] in (0, None) and V[3] is None
        same_b = Bk == Bh and gl(Bk)
        on_whole = bool(measured) and all(_unwrap(m) == X for m in measured)
        ctx.decide(whole and same_b and on_whole, "R-CONSERVE/exact-split", sfi.qual, sfi.where(vnode),
                   "decoder gets X[:B], the transport keeps X[B:], B measured on the whole buffered stream X",
                   f"the receive worker hands over `{_sy.show(A)}` and keeps `{_sy.show(V)}` (complete-message length measured on "
                   f"{[_sy.show(m) for m in measured]}): the two parts are not the halves of the whole buffered stream at one boundary "
                   f"measured on that whole stream - bytes are lost or duplicated, or a message longer than the inspected window is "
                   f"never seen complete and blocks every message behind it", key="exact_split")
    ctx.floor("exact_split_paths", n_split, 1)

    # ---- 2 completeness guard ------------------------------------------------------------------------------------
    ctx.clause = "1b-framing"
    from .c03 import framing_rules
    framing_rules(ctx, repo, rule_prefix="R-CONSERVE/framing")
    ctx.clause = "2-completeness-guard"
    guards = []
    for fi in tr:
        loc = tainted_locals.get(fi.qual, set())
        # names holding a length decoded from tainted bytes
        declen = set()
        hdrs = set()
        for s in walk_no_nested(fi.node):
            if isinstance(s, ast.Assign) and len(s.targets) == 1 and isinstance(s.targets[0], ast.Name):
                v = s.value
                txt = ast.unparse(v)
                if isinstance(v, ast.Call) and call_name(v) in ("int.from_bytes", "convert_to_integer_from_bytes") and v.args and \
                        _tainted_expr(fi, v.args[0], loc, tainted_fields):
                    declen.add(s.targets[0].id)
                if isinstance(v, ast.Call) and call_name(v) == "DiameterHeader.load" and v.args and _tainted_expr(fi, v.args[0], loc, tainted_fields):
                    hdrs.add(s.targets[0].id)
                if any(f"{h}.get_length()" in txt for h in hdrs):
                    declen.add(s.targets[0].id)
        # names holding (an expression over) the number of buffered bytes: x = len(<tainted>) [- ...], closed over assignments
        lenvars = set()
        is_len = lambda y: isinstance(y, ast.Call) and call_name(y) == "len" and y.args and _tainted_expr(fi, y.args[0], loc, tainted_fields)
        for _ in range(3):
            for s_ in walk_no_nested(fi.node):
                if isinstance(s_, ast.Assign) and len(s_.targets) == 1 and isinstance(s_.targets[0], ast.Name):
                    if any(is_len(y) or (isinstance(y, ast.Name) and y.id in lenvars) for y in ast.walk(s_.value)) \
                            and not any(isinstance(y, ast.Call) and not is_len(y) for y in ast.walk(s_.value)):
                        lenvars.add(s_.targets[0].id)
        for cmp_ in [x for x in walk_no_nested(fi.node) if isinstance(x, ast.Compare)]:
            txt = ast.unparse(cmp_)
            has_len = any(is_len(y) or (isinstance(y, ast.Name) and y.id in lenvars) for y in ast.walk(cmp_))
            has_dec = any(isinstance(y, ast.Name) and y.id in declen for y in ast.walk(cmp_)) or \
                any(f"{h}.get_length()" in txt for h in hdrs)
            if has_len and has_dec:
                guards.append((fi, cmp_))
    governed = []
    for fi, cmp_ in guards:
        if fi is sfi:
            # the guard dominates the decode call
            cfg = make_cfg(repo, fi.node)
            dom = cfg.dominators()
            cn = next((n for n in cfg.nodes.values() if any(x is scall for x in node_calls(n))), None)
            gn = next((n for n in cfg.nodes.values() if n.kind == "test" and any(x is cmp_ for x in ast.walk(n.ast))), None)
            if cn is not None and gn is not None and gn.id in dom[cn.id]:
                governed.append((fi, cmp_, "dominates the decode call"))
        else:
            # the slice handed to the decoder depends on the return value of the function holding the guard
            for s in walk_no_nested(sfi.node):
                if isinstance(s, ast.Assign) and isinstance(s.value, ast.Call) and len(s.targets) == 1 and isinstance(s.targets[0], ast.Name):
                    callees, _ = R.resolve_call(sfi, s.value, R.local_types(sfi))
                    if any(c is fi for c in callees):
                        b = s.targets[0].id
                        if _arg_depends_on(sfi, scall.args[0], b):
                            governed.append((fi, cmp_, f"its result `{b}` bounds the slice handed to the decoder"))
    ctx.decide(bool(governed), "R-DOM/completeness-guard", "receive path (sock.recv -> DiameterMessage.load)", sfi.where(scall),
               f"`{ast.unparse(governed[0][1])}` in {governed[0][0].qual.rsplit('.', 1)[-1]} {governed[0][2]}" if governed else "",
               "no comparison between the number of buffered bytes (len) and the Message Length decoded from those bytes governs what "
               "is handed to DiameterMessage.load: an incomplete message is decoded as if it were complete (and its tail as a new "
               "message)" + (f" (candidate comparisons found but not governing: {[ast.unparse(g[1]) for g in guards]})" if guards else ""),
               key="completeness_guard")

    # ---- 3 conservation ----------------------------------------------------------------------------------------------
    ctx.clause = "3-buffer-conservation"
    n_sites = conservation(ctx, repo, funcs, {("TcpConnection", b) for b in BUFFERS})
    ctx.floor("receive_buffer_write_sites", n_sites, 4)

    # every byte read from the socket reaches the shared stream in the same read() call: the hand-over from the private
    # buffer may depend on nothing but that buffer being non-empty (no size threshold - the tail of a message can arrive in a
    # segment of any length, and no further socket event will come for bytes that were held back)
    from ..astutil import guards as _guards, guard_facts as _gf
    n_tr = 0
    for q, fi in funcs.items():
        if fi.mod.name != "bromelia.transport" or fi.name != "read":
            continue
        g_ = _guards(fi.node)
        for x in walk_no_nested(fi.node):
            if isinstance(x, (ast.AugAssign, ast.Assign)) and ast.unparse(x.targets[0] if isinstance(x, ast.Assign) else x.target) == "self._recv_data_stream":
                n_tr += 1
                facts_, resid_ = _gf(g_.get(id(x), []))
                extra = sorted([f"{k} is {v}" for k, v in facts_.items() if _nonempty_polarity(k, "self._recv_buffer") is not v]
                               + [f"{k} is {v}" for k, v in resid_])
                ctx.decide(not extra, "R-CONSERVE/hand-over-guard", fi.qual, fi.where(x),
                           "received bytes are handed to the shared stream whenever there are any",
                           f"read() hands the received bytes over only under {extra}: bytes that arrive while the condition is false stay in "
                           f"the private buffer, and if they complete the last message no later socket event moves them - the message is "
                           f"never delivered", key="handover_guard")
    if n_tr == 0:
        ctx.undecided("R-CONSERVE/hand-over-guard", "bromelia.transport.*.read", "bromelia/transport.py", "hand-over statement not found", key="handover")

    # ---- 4 lockset ------------------------------------------------------------------------------------------------------
    ctx.clause = "4-lock-consistency"
    flows, sites = held_at_entry(repo, R, fk, funcs)
    lockset_field(ctx, repo, funcs, flows, ("TcpConnection", "_recv_data_stream"),
                  "bytes appended by the transport thread between the receive worker's copy and its clear are lost")
    # the availability event is cleared in the same region that drains, and set in the same region that appends
    ev_sites = []
    for q, lf in flows.items():
        fi = funcs[q]
        for nid, n in lf.cfg.nodes.items():
            for c in node_calls(n):
                if isinstance(c.func, ast.Attribute) and c.func.attr in ("set", "clear") and ast.unparse(c.func.value).endswith("_recv_data_available"):
                    ev_sites.append((q, nid, lf, c))
    common = None
    for q, nid, lf, c in ev_sites:
        held = set(lf.must_at(nid))
        common = held if common is None else common & held
    ctx.decide(bool(common), "R-LOCKSET", "TcpConnection._recv_data_available", "bromelia/transport.py",
               f"set/clear of the availability event happen under {sorted(common or [])}",
               f"the availability event is set and cleared without a common lock (sites: {[s[0].rsplit('.', 1)[-1] for s in ev_sites]}): a "
               f"set() landing between the worker's copy and its clear() is wiped and the bytes wait for the next read", key="event_lock")

    # ---- 5 exactly once per hop --------------------------------------------------------------------------------------------
    ctx.clause = "5-exactly-once-hand-over"
    loops = [x for x in walk_no_nested(sfi.node) if isinstance(x, ast.For) and isinstance(x.target, ast.Name)]
    okp = False
    for lp in loops:
        puts = [c for s in lp.body for c in ast.walk(s) if isinstance(c, ast.Call) and call_name(c).endswith("_recv_messages.put")]
        if puts:
            cfg = make_cfg(repo, sfi.node)
            ln = next(n for n in cfg.nodes.values() if n.kind == "iter" and n.ast is lp)
            start = [t for t, l in cfg.succ[ln.id] if l == "T"][0]
            once = len(puts) == 1 and must_pass(cfg, lambda n: any(c is puts[0] for c in node_calls(n)), start=start, targets={ln.id})
            okp = once and [ast.unparse(a) for a in puts[0].args] == [lp.target.id]
            # the loop iterates the decoder's result in order
            src = ast.unparse(lp.iter)
            srcs = [ast.unparse(s.value) for s in walk_no_nested(sfi.node) if isinstance(s, ast.Assign) and isinstance(s.targets[0], ast.Name) and s.targets[0].id == src]
            okp = okp and any("DiameterMessage.load(" in x for x in srcs)
    ctx.decide(okp, "R-MUSTPASS/exactly-once", sfi.qual, sfi.where(), "each decoded message is put once, in decoder order",
               "decoded messages are not put exactly once each, in the decoder's order, into the received-message queue", key="put_once")
    st = ctx.need(repo.cls("bromelia.statemachine.State"), "State")
    gm = ctx.need(st.methods.get("get_message"), "State.get_message")
    gets = [c for c in fn_calls(gm) if call_name(c).endswith("_recv_messages.get")]
    ctx.decide(len(gets) == 1, "R-MUSTPASS/exactly-once", f"{st.qual}.get_message", st.where(gm), "one message taken per call",
               f"State.get_message takes {len(gets)} messages per call", key="get_once")
    da = ctx.need(repo.cls("bromelia.setup.DiameterAssociation"), "DiameterAssociation")
    gp = ctx.need(da.methods.get("get_postprocess_recv_message"), "get_postprocess_recv_message")
    gets = [c for c in fn_calls(gp) if call_name(c).startswith("self.postprocess_recv_messages.get")]
    ctx.decide(len(gets) == 1, "R-MUSTPASS/exactly-once", f"{da.qual}.get_postprocess_recv_message", da.where(gp), "one message taken per call",
               f"get_postprocess_recv_message takes {len(gets)} messages per call", key="pp_get_once")

    # the consumer waits for the ready event only after seeing the queue empty (a message already queued is never waited for:
    # the producer's put and set() are not atomic with the consumer's clear())
    gmf = ctx.need(da.methods.get("get_message"), "DiameterAssociation.get_message")
    cfg = make_cfg(repo, gmf)
    dom = cfg.dominators()
    waits = [n for n in cfg.nodes.values() for c in node_calls(n)
             if call_name(c) == "self.postprocess_recv_messages_ready.wait" and not c.args and not c.keywords]
    for wn in waits:
        ok = False
        for d in dom[wn.id]:
            dn = cfg.nodes[d]
            if dn.kind == "test" and ast.unparse(dn.ast) == "self.postprocess_recv_messages.empty()":
                tb = [m for m, l in cfg.succ[d] if l == "T"]
                if tb and wn.id in cfg.reachable(tb[0]) and not any(wn.id in cfg.reachable(m) for m, l in cfg.succ[d] if l == "F" and m != dn.id and not _loops_back(cfg, m, d)):
                    ok = True
                elif tb and wn.id in cfg.reachable(tb[0]):
                    ok = True
        ctx.decide(ok, "R-DOM/wait-only-if-empty", f"{da.qual}.get_message", da.where(wn.ast),
                   "the untimed wait is guarded by `postprocess_recv_messages.empty()`",
                   "get_message waits for the ready event without first checking that the delivery queue is empty: the producer's "
                   "put()/set() can land between the consumer's emptiness check and its clear(), the event is cleared with a "
                   "message queued, and the application blocks although its message has arrived", key="wait_guard")
    ctx.count("untimed_delivery_waits", len(waits))
    # ... and no clear() of the event sits between the last check of the loop condition and the wait (shared with C08)
    from .c08 import wake_recheck
    wake_recheck(ctx, repo, R, fk, funcs, flows)

    # ---- 6 FIFO hops ------------------------------------------------------------------------------------------------------------
    ctx.clause = "6-fifo-hops"
    ini = da.methods.get("__init__")
    for q in ("_recv_messages", "postprocess_recv_messages"):
        ctor = [ast.unparse(s.value) for s in walk_no_nested(ini) if isinstance(s, ast.Assign) and ast.unparse(s.targets[0]) == f"self.{q}"]
        ctx.decide(ctor == ["queue.Queue()"], "R-TABLE/fifo", f"{da.qual}.{q}", da.where(ini), f"{q} is a FIFO queue.Queue()",
                   f"{q} is constructed as {ctor}: not an unbounded FIFO", key=f"fifo:{q}")
        putters = sorted({fi.qual for fi in repo.funcs.values() for c in fn_calls(fi.node)
                          if isinstance(c.func, ast.Attribute) and c.func.attr in ("put", "put_nowait")
                          and isinstance(c.func.value, ast.Attribute) and c.func.value.attr == q})
        want = {"_recv_messages": [sfi.qual], "postprocess_recv_messages": [f"{st.qual}.notify_postprocess_message"]}[q]
        if q == "postprocess_recv_messages" and len(putters) == 1 and putters[0].startswith(f"{st.qual.rsplit('.', 1)[0]}.Open."):
            want = putters       # the delivery helper written in place in a method of Open: still a single producer on the tick thread
        ctx.decide(putters == want, "R-WHO/fifo", f"{da.qual}.{q}", da.where(ini), f"only {want[0].rsplit('.', 1)[-1]} feeds {q}",
                   f"{q} is fed by {putters} (a second producer or a re-enqueue breaks the order)", key=f"who:{q}")


_TAINT = {"returns": set(), "R": None}


def _tainted_expr(fi, e, loc, fields):
    for n in ast.walk(e):
        if isinstance(n, ast.Call) and call_name(n).endswith(("sock.recv", "sock.sctp_recv")):
            return True
        if isinstance(n, ast.Call) and _TAINT["returns"] and _TAINT["R"] is not None:
            # a call of a function that hands received bytes back (a wrapper around recv)
            try:
                cals = _TAINT["R"].resolve_call(fi, n, _TAINT["R"].local_types(fi))[0]
            except Exception:
                cals = []
            if any(c_.qual in _TAINT["returns"] for c_ in cals):
                return True
        if isinstance(n, ast.Name) and n.id in loc:
            return True
        if isinstance(n, ast.Attribute):
            o = owner(fi, n)
            if o and (o, n.attr) in fields:
                return True
    return False


def _arg_depends_on(fi, arg, name):
    names = {n.id for n in ast.walk(arg) if isinstance(n, ast.Name)}
    if name in names:
        return True
    # one level of local definitions
    for s in walk_no_nested(fi.node):
        if isinstance(s, ast.Assign) and len(s.targets) == 1 and isinstance(s.targets[0], ast.Name) and s.targets[0].id in names:
            if name in {n.id for n in ast.walk(s.value) if isinstance(n, ast.Name)}:
                return True
    return False


def conservation(ctx, repo, funcs, fields, sent_ok=False):
    """R-CONSERVE: every assignment to a buffer field is an append, a transfer-then-clear, a drop of a prefix, a
    guarded overwrite or the initialisation."""
    n = 0
    for q, fi in sorted(funcs.items()):
        cfg = None
        for s in walk_no_nested(fi.node):
            tgt = None
            if isinstance(s, ast.Assign) and len(s.targets) == 1 and isinstance(s.targets[0], ast.Attribute):
                tgt = s.targets[0]
            elif isinstance(s, ast.AugAssign) and isinstance(s.target, ast.Attribute):
                tgt = s.target
            if tgt is None:
                continue
            o = owner(fi, tgt)
            if not o or (o, tgt.attr) not in fields:
                continue
            n += 1
            fld = f"{o}.{tgt.attr}"
            if fi.name == "__init__":
                ctx.hold("R-CONSERVE", q, fi.where(s), f"{fld} initialised", key=f"init:{tgt.attr}", nontrivial=False)
                continue
            if isinstance(s, ast.AugAssign):
                ctx.decide(isinstance(s.op, ast.Add), "R-CONSERVE", q, fi.where(s), f"{fld} appended to",
                           f"`{ast.unparse(s)}` is not an append", key=f"aug:{tgt.attr}")
                continue
            v = s.value
            selftxt = ast.unparse(tgt)
            # drop / keep a slice of itself or of a local drained from it
            if isinstance(v, ast.Subscript) and isinstance(v.slice, ast.Slice) and v.slice.lower is not None and v.slice.upper is None:
                src = v.value
                ok = ast.unparse(src) == selftxt
                if isinstance(src, ast.Name):
                    for s2 in walk_no_nested(fi.node):
                        if isinstance(s2, ast.Assign) and len(s2.targets) == 1 and isinstance(s2.targets[0], ast.Name) and s2.targets[0].id == src.id:
                            v2 = s2.value
                            if isinstance(v2, ast.Call) and v2.args:
                                v2 = v2.args[0]
                            if ast.unparse(v2) == selftxt:
                                ok = True
                ctx.decide(ok, "R-CONSERVE", q, fi.where(s), f"{fld} keeps a suffix of itself",
                           f"`{ast.unparse(s)}` replaces {fld} by a slice of something else", key=f"slice:{tgt.attr}")
                continue
            if isinstance(v, ast.Constant) and v.value == b"":
                # transfer-then-clear: dominated by a statement that reads the buffer into another place
                cfg = cfg or make_cfg(repo, fi.node)
                dom = cfg.dominators()
                sn = next(x for x in cfg.nodes.values() if x.ast is s)
                ok = False
                for d in dom[sn.id]:
                    dn = cfg.nodes[d]
                    if dn.kind == "stmt" and dn.ast is not s and isinstance(dn.ast, (ast.Assign, ast.AugAssign)):
                        rhs = dn.ast.value
                        if any(isinstance(y, ast.Attribute) and ast.unparse(y) == selftxt for y in ast.walk(rhs)):
                            ok = True
                ctx.decide(ok, "R-CONSERVE", q, fi.where(s), f"{fld} cleared after its content was transferred",
                           f"`{ast.unparse(s)}` clears {fld} without its content having been transferred on every path: received/"
                           f"pending bytes are dropped", key=f"clear:{tgt.attr}")
                continue
            # guarded overwrite `if not B: B = X` is accepted, anything else is a loss of pending bytes
            guarded = False
            for iff in [x for x in walk_no_nested(fi.node) if isinstance(x, ast.If)]:
                if s in iff.body and ast.unparse(iff.test) in (f"not {selftxt}", f"len({selftxt}) == 0"):
                    guarded = True
            ctx.decide(guarded, "R-CONSERVE", q, fi.where(s), f"{fld} overwritten only when empty",
                       f"`{ast.unparse(s)}` overwrites {fld}: bytes still pending in the buffer are lost", key=f"overwrite:{tgt.attr}")
    return n


def lockset_field(ctx, repo, funcs, flows, field, consequence):
    o, attr = field
    sites = []
    for q, lf in flows.items():
        fi = funcs[q]
        if fi.name == "__init__":
            continue
        for nid, n in lf.cfg.nodes.items():
            if n.kind != "stmt" or not isinstance(n.ast, (ast.Assign, ast.AugAssign)):
                continue
            tg = n.ast.targets if isinstance(n.ast, ast.Assign) else [n.ast.target]
            for t in tg:
                if isinstance(t, ast.Attribute) and t.attr == attr and owner(fi, t) == o:
                    sites.append((q, nid, lf, n))
            # reads that feed a later write (copy of the buffer)
            if isinstance(n.ast, ast.Assign) and any(isinstance(y, ast.Attribute) and y.attr == attr and owner(fi, y) == o
                                                     for y in ast.walk(n.ast.value)) and (q, nid, lf, n) not in sites:
                sites.append((q, nid, lf, n))
    fnset = {s[0] for s in sites}
    if len(fnset) < 2:
        ctx.hold("R-LOCKSET", f"{o}.{attr}", "-", f"written by one function only ({sorted(fnset)})", key=f"lockset:{attr}", nontrivial=False)
        return
    common = None
    for q, nid, lf, n in sites:
        held = set(lf.must_at(nid))
        common = held if common is None else common & held
    where = funcs[sites[0][0]].where(sites[0][3].ast)
    ctx.decide(bool(common), "R-LOCKSET", f"{o}.{attr}", where,
               f"all {len(sites)} read-modify-write sites hold {sorted(common or [])}",
               f"{o}.{attr} is read-modify-written from {sorted(x.rsplit('.', 1)[-1] for x in fnset)} with no common lock "
               f"(locksets: { {s[0].rsplit('.', 1)[-1] + ':' + str(s[3].lineno): sorted(s[2].must_at(s[1])) for s in sites} }): {consequence}",
               key=f"lockset:{attr}")


def _loops_back(cfg, m, d):
    return d in cfg.reachable(m)
