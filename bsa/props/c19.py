"""C19 - a configuration is reflected faithfully or rejected, never silently altered."""
import ast

from ..astutil import strip_doc, make_cfg, call_name, fn_calls, kwarg, node_calls, header_exprs, must_pass, walk_no_nested
from ..loader import is_unknown

META = {
    "explanation": "Def-use flow of each of the 12 configuration keys from its `key == K` branch into exactly the frozen field of "
                   "Connection/LocalNode/PeerNode; dominance of each validation (unknown key, MODE / TRANSPORT_TYPE membership, "
                   "both IPv4 parses, int test) over the corresponding store with the failing branch raising the library's "
                   "configuration error; no nested loop rebinding an outer loop variable that is read later in the iteration; "
                   "loop-carried definitions in the YAML converter (R-LOOPCARRY on the CFG); key table of the YAML converter; "
                   "Config defaults only TRANSPORT_TYPE.",
    "decided": ["key->field flow table", "validation dominance", "use-after-rebind", "loop-carried default", "YAML key table",
                "Config defaults"],
    "not_decided": ["acceptance of odd-but-parseable values (e.g. an integer IP address)"],
    "trusted_base": ["Python ast", "statement CFG + dominators", "frozen key->field table (API contract of the Connection tuple)"],
    "assumptions": [],
}

# API-level contract: configuration key -> field of the connection description
KEY_FIELD = {
    "MODE": ("Connection", "mode"),
    "TRANSPORT_TYPE": ("Connection", "transport_type"),
    "APPLICATIONS": ("Connection", "application_ids"),
    "LOCAL_NODE_HOSTNAME": ("LocalNode", "host_name"),
    "LOCAL_NODE_REALM": ("LocalNode", "realm"),
    "LOCAL_NODE_IP_ADDRESS": ("LocalNode", "ip_address"),
    "LOCAL_NODE_PORT": ("LocalNode", "port"),
    "PEER_NODE_HOSTNAME": ("PeerNode", "host_name"),
    "PEER_NODE_REALM": ("PeerNode", "realm"),
    "PEER_NODE_IP_ADDRESS": ("PeerNode", "ip_address"),
    "PEER_NODE_PORT": ("PeerNode", "port"),
    "WATCHDOG_TIMEOUT": ("Connection", "watchdog_timeout"),
}
YAML_SOURCE = {
    "MODE": "spec['mode']", "TRANSPORT_TYPE": None, "APPLICATIONS": "spec['applications']",
    "LOCAL_NODE_HOSTNAME": "spec['local']['hostname']", "LOCAL_NODE_REALM": "spec['local']['realm']",
    "LOCAL_NODE_IP_ADDRESS": "spec['local']['ip_address']", "LOCAL_NODE_PORT": "spec['local']['port']",
    "PEER_NODE_HOSTNAME": "spec['peer']['hostname']", "PEER_NODE_REALM": "spec['peer']['realm']",
    "PEER_NODE_IP_ADDRESS": "spec['peer']['ip_address']", "PEER_NODE_PORT": "spec['peer']['port']",
    "WATCHDOG_TIMEOUT": "spec['watchdog_timeout']",
}
MEMBERS = {"MODE": {"CLIENT", "SERVER"}, "TRANSPORT_TYPE": {"TCP", "SCTP"}}


def _branches(loop, keyvar):
    """key == "K" branches of the if/elif chain inside the loop body -> {K: (If node, body)}"""
    out = {}
    for s in loop.body:
        cur = s
        while isinstance(cur, ast.If):
            t = cur.test
            if isinstance(t, ast.Compare) and len(t.ops) == 1 and isinstance(t.ops[0], ast.Eq) \
                    and isinstance(t.left, ast.Name) and t.left.id == keyvar and isinstance(t.comparators[0], ast.Constant):
                out[t.comparators[0].value] = cur
            cur = cur.orelse[0] if len(cur.orelse) == 1 and isinstance(cur.orelse[0], ast.If) else None
    return out


def _raises_lib(stmts, names):
    for s in stmts:
        for n in ast.walk(s):
            if isinstance(n, ast.Raise) and n.exc is not None:
                e = n.exc.func if isinstance(n.exc, ast.Call) else n.exc
                if ast.unparse(e).split(".")[-1] in names:
                    return True
    return False


def check(ctx):
    repo = ctx.repo
    m = ctx.need(repo.mods.get("bromelia._internal_utils"), "module bromelia._internal_utils")
    fn = ctx.need(m.funcs.get("_convert_config_to_connection_obj"), "_convert_config_to_connection_obj")
    construct = "bromelia._internal_utils._convert_config_to_connection_obj"
    where = f"{m.rel}:{fn.lineno}"
    mask = repo.fold(m, ast.Name(id="config_mask", ctx=ast.Load()))
    ctx.clause = "1-key-field-flow"
    ctx.decide(isinstance(mask, list) and set(mask) == set(KEY_FIELD), "R-TABLE/config-mask", "bromelia._internal_utils.config_mask",
               m.rel, "config_mask lists the 12 published keys",
               f"config_mask = {mask} differs from the 12 published configuration keys", key="mask")
    loops = [s for s in walk_no_nested(fn) if isinstance(s, ast.For)]
    main = None
    for lp in loops:
        if isinstance(lp.target, ast.Tuple) and len(lp.target.elts) == 2 and ast.unparse(lp.iter).endswith(".items()") \
                and not any(o is not lp and any(x is lp for x in ast.walk(o)) for o in loops):
            main = lp
    if main is None:
        ctx.undecided("R-FLOW/config", construct, where, "no `for key, value in config.items()` loop", key="loop")
        return
    keyvar, valvar = [e.id for e in main.target.elts]
    # one iteration of the loop per published key, on terms (bsa.sym): key = the key string, value = V
    from .. import sym
    V = sym.S("value")
    per_key = {}
    interp = sym.Interp(fold=lambda e: repo.fold(m, e), log_calls=True)
    for K in KEY_FIELD:
        try:
            per_key[K] = interp.loop_body(main, {keyvar: K, valvar: V})
        except sym.TooMany:
            per_key[K] = None
    br = {}
    for K, paths in per_key.items():
        if paths is None:
            ctx.undecided("R-FLOW/config", construct, where, f"too many paths for key {K}", key=f"paths:{K}")
            continue
        done = [p_ for p_ in paths if p_.term in ("fall", "continue")]
        stores = [sorted(n_ for n_, v_ in p_.env.items() if v_ == V and n_ not in (keyvar, valvar) and "." not in n_) for p_ in done]
        if done:
            br[K] = main
    ctx.floor("config_key_branches", len(br), 12)
    cfg = make_cfg(repo, fn)
    dom = cfg.dominators()
    # local variable fed by each key
    local_of = {}
    for K, paths in per_key.items():
        if paths is None:
            continue
        done = [p_ for p_ in paths if p_.term in ("fall", "continue")]
        stores = {tuple(sorted(n_ for n_, v_ in p_.env.items() if v_ == V and n_ not in (keyvar, valvar) and "." not in n_)) for p_ in done}
        if len(stores) != 1 or len(next(iter(stores))) != 1:
            altered = sorted({(n_, sym.show(v_)[:50]) for p_ in done for n_, v_ in p_.env.items()
                              if n_ not in (keyvar, valvar) and "." not in n_ and v_ != V})
            ctx.violate("R-FLOW/config", construct, where,
                        f"key {K}: the configured value is not stored unchanged into exactly one local on every accepting path "
                        f"(locals holding it: {sorted(stores)}; other stores: {altered[:4]}): the value is altered or dropped", key=f"store:{K}")
            continue
        local_of[K] = next(iter(stores))[0]
    # constructor calls
    field_src = {}
    for c in fn_calls(fn):
        n = call_name(c)
        if n in ("LocalNode", "PeerNode", "Connection"):
            for k in c.keywords:
                field_src[(n, k.arg)] = k.value
    # LocalNode/PeerNode objects must feed Connection.local_node / peer_node
    for tup, fld in (("LocalNode", "local_node"), ("PeerNode", "peer_node")):
        src = field_src.get(("Connection", fld))
        ok = False
        if isinstance(src, ast.Name):
            for s in walk_no_nested(fn):
                if isinstance(s, ast.Assign) and isinstance(s.targets[0], ast.Name) and s.targets[0].id == src.id \
                        and isinstance(s.value, ast.Call) and call_name(s.value) == tup:
                    ok = True
        ctx.decide(ok, "R-FLOW/config", construct, where, f"Connection.{fld} is the {tup} built here",
                   f"Connection.{fld} is not the {tup} tuple built from the configuration", key=f"node:{fld}")
    for K, (tup, fld) in KEY_FIELD.items():
        if K not in br:
            ctx.violate("R-FLOW/config", construct, where, f"no branch handles key {K}", key=f"branch:{K}")
            continue
        if K not in local_of:
            continue
        src = field_src.get((tup, fld))
        ok = isinstance(src, ast.Name) and src.id == local_of[K]
        ctx.decide(ok, "R-FLOW/config", construct, where,
                   f"{K} -> {tup}.{fld} unchanged",
                   f"{K} is stored in `{local_of[K]}` but {tup}.{fld} is built from "
                   f"`{ast.unparse(src) if src is not None else None}`: the configured value does not reach its field",
                   key=f"flow:{K}")
        others = [f for f, v in field_src.items() if isinstance(v, ast.Name) and v.id == local_of[K] and f != (tup, fld)]
        ctx.decide(not others, "R-FLOW/config", construct, where, f"{K} feeds no other field",
                   f"{K} also feeds {others}", key=f"single:{K}", nontrivial=False)
    # locals must not be shared between keys
    inv = {}
    for K, v in local_of.items():
        inv.setdefault(v, []).append(K)
    for v, ks in inv.items():
        if len(ks) > 1:
            ctx.violate("R-FLOW/config", construct, where, f"keys {ks} are stored into the same local `{v}`", key=f"shared:{v}")

    # -- 2 validation dominance --------------------------------------------------------
    ctx.clause = "2-validation-dominance"
    # before the main loop: a key outside config_mask raises InvalidConfigKey.  Two spellings are recognised: a scan loop over
    # the keys whose body raises when `key in config_mask` is false (decided on terms), or a comprehension collecting the keys
    # that are not in config_mask followed by a raise when that collection is non-empty
    from ..astutil import guards as _guards
    cparam = fn.args.args[0].arg if fn.args.args else "config"
    srcs = (cparam, f"{cparam}.keys()", f"list({cparam})", f"list({cparam}.keys())")
    ok = False
    pre_loops = [lp for lp in loops if lp is not main and lp.lineno < main.lineno and isinstance(lp.target, ast.Name)
                 and ast.unparse(lp.iter) in srcs and not any(o is not lp and any(x is lp for x in ast.walk(o)) for o in loops)]
    for lp in pre_loops:
        K_ = sym.S(lp.target.id)
        rej = acc = 0
        for p_ in sym.Interp(fold=lambda e: repo.fold(m, e)).loop_body(lp, {lp.target.id: K_}):
            inmask = [tv for c, tv in p_.conds if isinstance(c, tuple) and c[0] == "cmp" and c[1] == "In" and c[2] == K_]
            if inmask == [False]:
                if p_.term == "raise" and "InvalidConfigKey" in sym.show(p_.value):
                    rej += 1
                else:
                    acc += 1
        ok = ok or (rej > 0 and acc == 0)
    g_ = _guards(fn)
    for n in walk_no_nested(fn):
        if isinstance(n, ast.Assign) and len(n.targets) == 1 and isinstance(n.targets[0], ast.Name) and n.lineno < main.lineno \
                and isinstance(n.value, (ast.ListComp, ast.SetComp)) and len(n.value.generators) == 1:
            gen = n.value.generators[0]
            if ast.unparse(gen.iter) in srcs and isinstance(gen.target, ast.Name) and \
                    [ast.unparse(i) for i in gen.ifs] == [f"{gen.target.id} not in config_mask"] and ast.unparse(n.value.elt) == gen.target.id:
                coll = n.targets[0].id
                for r_ in walk_no_nested(fn):
                    if isinstance(r_, ast.Raise) and r_.lineno < main.lineno and "InvalidConfigKey" in ast.unparse(r_):
                        if any(isinstance(t, ast.Name) and t.id == coll and v is True for t, v in g_.get(id(r_), [])):
                            ok = True
    ctx.decide(ok, "R-DOM/unknown-key", construct, where, "unknown keys raise InvalidConfigKey before any value is read",
               "unknown configuration keys are not rejected with InvalidConfigKey before the values are processed",
               key="unknown_key")

    def raises_lib(p_, name):
        return p_.term == "raise" and name in sym.show(p_.value)

    def fact_everywhere(K, has_fact, what, rule, key):
        """every accepting path carries the validation fact, every path without it raises InvalidConfigValue"""
        paths = per_key.get(K)
        if not paths or K not in local_of:
            return
        ok, why = True, ""
        n_acc = 0
        for p_ in paths:
            if p_.term in ("fall", "continue"):
                n_acc += 1
                if not has_fact(p_):
                    ok, why = False, "a path stores the value without the test"
            elif p_.term == "raise":
                if not raises_lib(p_, "InvalidConfigValue"):
                    ok, why = False, f"a rejecting path raises {sym.show(p_.value)[:40]}"
            else:
                ok, why = False, f"a path ends with {p_.term}"
        rejecting = [p_ for p_ in paths if p_.term == "raise"]
        if not rejecting:
            ok, why = False, "no path rejects the value"
        ctx.decide(ok and n_acc > 0, rule, construct, where, f"{K}: {what} on every accepting path; the others raise InvalidConfigValue",
                   f"{K}: the store is not dominated by {what} that raises InvalidConfigValue ({why})", key=key)

    for K, members in MEMBERS.items():
        def member_fact(p_, members=members):
            for c, tv in p_.conds:
                if isinstance(c, tuple) and c[0] == "cmp" and c[1] == "In" and c[2] == V and isinstance(c[3], tuple) \
                        and c[3][0] in ("list", "tuple", "set") and set(c[3][1]) == members and tv is True:
                    return True
            eqs = {c[3] for c, tv in p_.conds if isinstance(c, tuple) and c[0] == "cmp" and c[1] == "Eq" and c[2] == V and tv is True}
            return bool(eqs) and eqs <= members
        fact_everywhere(K, member_fact, f"a membership test in exactly {sorted(members)}", "R-DOM/membership", f"member:{K}")
    for K in ("LOCAL_NODE_IP_ADDRESS", "PEER_NODE_IP_ADDRESS"):
        def ip_fact(p_):
            parsed = any(e[0] == "ecall" and isinstance(e[1], tuple) and e[1][0] == "call" and sym.show(e[1][1]).endswith("IPv4Address")
                         and e[1][2][:1] == (V,) for e in p_.effects)
            in_exc = any(isinstance(c, tuple) and c[0] == "exc" for c, tv in p_.conds)
            return parsed and not in_exc
        paths = per_key.get(K) or []
        # the parse must be protected: a handler of AddressValueError / ValueError that raises InvalidConfigValue
        prot = any(any(isinstance(c, tuple) and c[0] == "exc" and c[1].split(".")[-1] in ("AddressValueError", "ValueError", "Exception",
                                                                                          "BaseException") for c, tv in p_.conds)
                   and raises_lib(p_, "InvalidConfigValue") for p_ in paths)
        if K in local_of:
            ctx.decide(prot, "R-DOM/ipv4", construct, where, f"{K}: a parse error raises InvalidConfigValue",
                       f"{K}: the store is not dominated by ipaddress.IPv4Address(value) whose failure raises InvalidConfigValue",
                       key=f"ipv4handler:{K}")
        fact_everywhere(K, ip_fact, "ipaddress.IPv4Address(value)", "R-DOM/ipv4", f"ipv4:{K}")
    K = "WATCHDOG_TIMEOUT"
    int_fact = lambda p_: any(c == ("call", ("name", "isinstance"), (V, ("name", "int")), ()) and tv is True for c, tv in p_.conds)
    fact_everywhere(K, int_fact, "an isinstance(value, int) test", "R-DOM/int", "int:WATCHDOG_TIMEOUT")
    # generic: every store of a validated key is not reachable from the raising branch (CFG)
    # -- 3 rebind ---------------------------------------------------------------------------
    ctx.clause = "3-use-after-rebind"
    outer_names = {keyvar, valvar}
    main_node = next((n for n in cfg.nodes.values() if n.kind == "iter" and n.ast is main), None)
    nreb = 0
    for inner in [n for n in walk_no_nested(main) if isinstance(n, ast.For) and n is not main]:
        tn = {x.id for x in ast.walk(inner.target) if isinstance(x, ast.Name)}
        shared = tn & outer_names
        if not shared:
            continue
        nreb += 1
        inode = next((n for n in cfg.nodes.values() if n.kind == "iter" and n.ast is inner), None)
        if inode is None or main_node is None:
            ctx.undecided("R-REBIND", construct, f"{m.rel}:{inner.lineno}", "loop node not found", key="node")
            continue
        # nodes reachable after the inner loop ends, before the next outer iteration
        start = [t for t, l in cfg.succ[inode.id] if l == "F"]
        seen, st = set(start), list(start)
        reads = []
        while st:
            x = st.pop()
            if x == main_node.id:
                continue
            nx = cfg.nodes[x]
            for e in header_exprs(nx):
                comp_bound = set()
                for y in ast.walk(e):
                    if isinstance(y, (ast.ListComp, ast.SetComp, ast.DictComp, ast.GeneratorExp)):
                        for g in y.generators:
                            comp_bound |= {z.id for z in ast.walk(g.target) if isinstance(z, ast.Name)}
                for y in walk_no_nested(e):
                    if isinstance(y, ast.Name) and isinstance(y.ctx, ast.Load) and y.id in shared \
                            and y.id not in comp_bound:
                        reads.append((nx, y.id))
            redefines = set()
            if nx.kind == "iter":
                redefines = {z.id for z in ast.walk(nx.ast.target) if isinstance(z, ast.Name)}
            elif nx.kind == "stmt" and isinstance(nx.ast, ast.Assign):
                redefines = {z.id for t0 in nx.ast.targets for z in ast.walk(t0) if isinstance(z, ast.Name)}
            if shared <= redefines:
                continue
            for t, l in cfg.succ.get(x, []):
                if t not in seen:
                    seen.add(t)
                    st.append(t)
        # reads inside raise statements (error messages) do not alter the accepted result
        real = [(n, v) for n, v in reads if not isinstance(n.ast, ast.Raise)]
        ctx.decide(not real, "R-REBIND", construct, f"{m.rel}:{inner.lineno}",
                   f"inner loop rebinds {sorted(shared)} but no later read in the same outer iteration",
                   f"inner loop rebinds outer loop variable(s) {sorted(shared)} which are read afterwards at line(s) "
                   f"{sorted({n.lineno for n, _ in real})}: a later key test sees the inner value", key=f"rebind:{inner.lineno and ''}{','.join(sorted(shared))}")
    ctx.count("rebinding_inner_loops", nreb)

    # -- 4 YAML converter ------------------------------------------------------------------------
    ctx.clause = "4-yaml-loop"
    _yaml(ctx, repo, m)

    # -- 5 Config defaults -------------------------------------------------------------------------
    ctx.clause = "5-config-defaults"
    cm = ctx.need(repo.mods.get("bromelia.config"), "module bromelia.config")
    ci = ctx.need(repo.cls("bromelia.config.Config"), "bromelia.config.Config")
    ini = ctx.need(ci.methods.get("__init__"), "Config.__init__")
    stores = []
    for n in walk_no_nested(ini):
        if isinstance(n, ast.Assign):
            for t in n.targets:
                if isinstance(t, ast.Subscript):
                    stores.append((ast.unparse(t.slice), n))
        if isinstance(n, ast.Call) and isinstance(n.func, ast.Attribute) and n.func.attr in ("setdefault", "update", "pop") \
                and not ast.unparse(n.func).startswith("dict."):
            stores.append((ast.unparse(n), n))
    ok = len(stores) == 1 and stores[0][0] == "'TRANSPORT_TYPE'" and isinstance(stores[0][1].value, ast.Constant) \
        and stores[0][1].value.value == "TCP"
    ctx.decide(ok, "R-WHO/config-defaults", f"{ci.qual}.__init__", ci.where(ini),
               "Config only defaults TRANSPORT_TYPE to TCP",
               f"Config.__init__ alters the given configuration beyond defaulting TRANSPORT_TYPE to 'TCP': "
               f"{[s[0] for s in stores]}", key="defaults")
    if ok:
        # guarded by absence of the key
        # the default is stored only when the given configuration has no (truthy) TRANSPORT_TYPE: guard of the store, polarity
        # normalised, bool(...) wrappers ignored
        from ..astutil import guards as _guards
        conds = _guards(ini).get(id(stores[0][1]), [])

        def unwrap(t):
            while isinstance(t, ast.Call) and isinstance(t.func, ast.Name) and t.func.id == "bool" and len(t.args) == 1:
                t = t.args[0]
            return ast.unparse(t)
        okg = any((unwrap(t), v) in (("defaults.get('TRANSPORT_TYPE')", False), ("'TRANSPORT_TYPE' in defaults", False),
                                     ("defaults.get('TRANSPORT_TYPE') is None", True)) for t, v in conds)
        ctx.decide(okg, "R-DOM/config-defaults", f"{ci.qual}.__init__", ci.where(ini),
                   "default applied only when TRANSPORT_TYPE is absent",
                   "the TRANSPORT_TYPE default overwrites a configured value", key="defaults_guard")
    # Diameter.make_config passes the given config through unchanged
    d = ctx.need(repo.cls("bromelia.setup.Diameter"), "bromelia.setup.Diameter")
    mk = ctx.need(d.methods.get("make_config"), "Diameter.make_config")
    # on terms: with a (truthy) configuration given, the object handed to config_class is that configuration itself
    from .. import sym as _sk
    cp_ = [a_.arg for a_ in mk.args.args if a_.arg != "self"][0]
    CFG_ = _sk.S(cp_)
    rets, okmk = [], False
    for p_ in _sk.Interp(hook=lambda t: True if t == CFG_ and False else None).run(strip_doc(mk.body), _sk.PathState({cp_: CFG_}, [], [])):
        if p_.term != "return":
            continue
        given = [tv for c, tv in p_.conds if c == CFG_ or c == ("cmp", "Is", CFG_, None)]
        rets.append(_sk.show(p_.value))
        is_given = (given == [True] and not any(c == ("cmp", "Is", CFG_, None) for c, _ in p_.conds)) or \
            (any(c == ("cmp", "Is", CFG_, None) and tv is False for c, tv in p_.conds))
        if is_given or not given:
            v = p_.value
            if isinstance(v, tuple) and v[0] == "call" and v[1] == ("attr", ("name", "self"), "config_class") and v[2] == (CFG_,):
                okmk = True
            elif is_given:
                okmk = False
                break
    ctx.decide(okmk, "R-FLOW/make-config", f"{d.qual}.make_config", d.where(mk),
               "a given config is wrapped unchanged", f"make_config returns {rets} for a given config", key="make_config",
               nontrivial=False)


def _yaml(ctx, repo, m):
    fn = ctx.need(m.funcs.get("_convert_file_to_config"), "_convert_file_to_config")
    construct = "bromelia._internal_utils._convert_file_to_config"
    where = f"{m.rel}:{fn.lineno}"
    allf = [s for s in walk_no_nested(fn) if isinstance(s, ast.For)]
    loops = [s for s in allf if not any(s is not o and any(x is s for x in ast.walk(o)) for o in allf)]
    if len(loops) != 1:
        ctx.undecided("R-LOOPCARRY", construct, where, "expected one per-spec loop", key="loop")
        return
    lp = loops[0]
    cfg = make_cfg(repo, fn)
    lnode = next(n for n in cfg.nodes.values() if n.kind == "iter" and n.ast is lp)
    body_nodes = set()
    st = [t for t, l in cfg.succ[lnode.id] if l == "T"]
    body_nodes.update(st)
    while st:
        x = st.pop()
        for t, l in cfg.succ.get(x, []):
            if t != lnode.id and t not in body_nodes and l not in ("exc", "excp"):
                body_nodes.add(t)
                st.append(t)
    # restrict to nodes lexically inside the loop
    inside = {id(n) for n in ast.walk(lp)}
    body_nodes = {x for x in body_nodes if id(cfg.nodes[x].ast) in inside or
                  (isinstance(cfg.nodes[x].ast, ast.AST) and any(id(cfg.nodes[x].ast) == i for i in inside))}

    def defs_of(x):
        n = cfg.nodes[x]
        out = set()
        if n.kind == "stmt" and isinstance(n.ast, (ast.Assign, ast.AugAssign, ast.AnnAssign)):
            tg = n.ast.targets if isinstance(n.ast, ast.Assign) else [n.ast.target]
            for t in tg:
                for y in ast.walk(t):
                    if isinstance(y, ast.Name) and isinstance(y.ctx, ast.Store):
                        out.add(y.id)
        if n.kind == "iter":
            for y in ast.walk(n.ast.target):
                if isinstance(y, ast.Name):
                    out.add(y.id)
        return out

    assigned_in_loop = set()
    for x in body_nodes:
        assigned_in_loop |= defs_of(x)
    carried = []
    for v in sorted(assigned_in_loop):
        # forward search from loop head (T edge) avoiding defs of v
        start = [t for t, l in cfg.succ[lnode.id] if l == "T"]
        seen, st = set(), []
        for s0 in start:
            seen.add(s0)
            st.append(s0)
        while st:
            x = st.pop()
            n = cfg.nodes[x]
            reads = [y for e in header_exprs(n) for y in walk_no_nested(e)
                     if isinstance(y, ast.Name) and isinstance(y.ctx, ast.Load) and y.id == v]
            if isinstance(n.ast, ast.AugAssign) and isinstance(n.ast.target, ast.Name) and n.ast.target.id == v:
                reads.append(n.ast.target)
            if reads and x in body_nodes:
                carried.append((v, n))
                break
            if v in defs_of(x):
                continue
            for t, l in cfg.succ.get(x, []):
                if t == lnode.id or t not in body_nodes or t in seen:
                    continue
                seen.add(t)
                st.append(t)
    ctx.count("loop_assigned_variables", len(assigned_in_loop))
    if not carried:
        ctx.hold("R-LOOPCARRY", construct, f"{m.rel}:{lp.lineno}",
                 f"every variable assigned in the per-spec loop ({sorted(assigned_in_loop)}) is defined before its reads "
                 f"on every path of the iteration", key="loopcarry")
    for v, n in carried:
        ctx.violate("R-LOOPCARRY", construct, f"{m.rel}:{n.lineno}",
                    f"`{v}` is read in the per-spec loop on a path with no definition in the same iteration (it is only "
                    f"conditionally assigned in the loop): an entry inherits the value of an earlier entry", key=f"loopcarry:{v}")
    # one iteration of the per-spec loop on terms (bsa.sym): exactly one dict is appended, its 12 values are the
    # spec fields (MODE / TRANSPORT_TYPE upper-cased, transport defaulting to tcp)
    from .. import sym
    spec_name = lp.target.id if isinstance(lp.target, ast.Name) else "spec"
    SPEC = sym.S(spec_name)
    it = sym.Interp(fold=lambda e: repo.fold(m, e), log_calls=True)
    try:
        ypaths = it.loop_body(lp, {spec_name: SPEC})
    except sym.TooMany:
        ctx.undecided("R-TABLE/yaml", construct, where, "too many paths in the per-spec loop", key="append")
        return
    done = [p_ for p_ in ypaths if p_.term in ("fall", "continue")]
    if not done:
        ctx.undecided("R-TABLE/yaml", construct, where, "no completing path in the per-spec loop", key="append")
        return
    GET = ("call", ("attr", SPEC, "get"), ("transport_type",), ())
    SUBT = ("sub", SPEC, "transport_type")
    targets = set()

    def expected(src):
        return it.ev(ast.parse(src.replace("spec[", f"{spec_name}["), mode="eval").body, sym.PathState({spec_name: SPEC}, [], []))
    for p_ in done:
        apps = [e[1] for e in p_.effects if e[0] == "ecall" and isinstance(e[1], tuple) and e[1][0] == "call" and isinstance(e[1][1], tuple)
                and e[1][1][0] == "attr" and e[1][1][2] == "append" and len(e[1][2]) == 1 and isinstance(e[1][2][0], tuple)
                and e[1][2][0][0] == "dict"]
        ctx.decide(len(apps) == 1, "R-MUSTPASS/yaml-append", construct, f"{m.rel}:{lp.lineno}",
                   "one dict appended per spec entry on every path",
                   f"a spec entry is appended {len(apps)} time(s) on some path (skipped or duplicated)", key="append_once")
        if len(apps) != 1:
            continue
        targets.add(sym.show(apps[0][1][1]))
        keys = dict(apps[0][2][0][1])
        ctx.decide(set(keys) == set(KEY_FIELD), "R-TABLE/yaml", construct, f"{m.rel}:{lp.lineno}", "all 12 keys produced",
                   f"produced keys differ from the 12 configuration keys: missing {sorted(set(KEY_FIELD) - set(keys))}, "
                   f"extra {sorted(map(str, set(keys) - set(KEY_FIELD)))}", key="keys")
        tcond = [tv for c, tv in p_.conds if c in (GET, SUBT, ("cmp", "In", "transport_type", SPEC))]
        for K, src in YAML_SOURCE.items():
            if K not in keys:
                continue
            v = keys[K]
            txt = sym.show(v)
            upper = lambda t: ("call", ("attr", t, "upper"), (), ())
            if K == "MODE":
                ok = v == upper(expected(src))
                bad = f"MODE is `{txt}`, expected the spec's mode upper-cased"
            elif K == "TRANSPORT_TYPE":
                if tcond == [True]:
                    ok = v in (upper(SUBT), upper(GET))
                elif tcond == [False]:
                    ok = v in (upper("tcp"), "TCP")
                else:
                    ok = v in (upper(("or", (GET, "tcp"))), upper(("call", ("attr", SPEC, "get"), ("transport_type", "tcp"), ())))
                bad = f"TRANSPORT_TYPE is `{txt}` (transport given: {tcond}), expected the given transport type, or tcp, upper-cased"
            else:
                ok = v == expected(src)
                bad = f"{K} is `{txt}`, expected {src} unchanged"
            ctx.decide(ok, "R-TABLE/yaml", construct, f"{m.rel}:{lp.lineno}", f"{K} <- {txt[:60]}", bad, key=f"yaml:{K}")
    rets = [ast.unparse(n.value) for n in walk_no_nested(fn) if isinstance(n, ast.Return) and n.value is not None]
    ctx.decide(len(targets) == 1 and rets == sorted(targets), "R-FLOW/yaml-return", construct, where, f"returns the list `{sorted(targets)}`",
               f"returns {rets}, not the list the entries are appended to ({sorted(targets)})", key="return", nontrivial=False)
    # application constants resolved by name through the variables dictionary (inner loop, on terms)
    inner = [x for x in walk_no_nested(lp) if isinstance(x, ast.For) and x is not lp and isinstance(x.target, ast.Name)]
    ok = False
    for il in inner:
        A = sym.S(il.target.id)
        for p_ in sym.Interp().loop_body(il, {il.target.id: A}):
            w = {e[2]: e[3] for e in p_.effects if e[0] == "setitem" and e[1] == A}
            vd = lambda k: isinstance(w.get(k), tuple) and w[k][0] == "sub" and w[k][2] == ("sub", A, k) and \
                sym.show(w[k][1]) in ("variables_dictionary",)
            ok = vd("vendor_id") and vd("app_id")
    ctx.decide(ok, "R-FLOW/yaml-apps", construct, f"{m.rel}:{lp.lineno}", "application constants resolved by name",
               "application vendor_id/app_id names are not resolved through the variables dictionary", key="apps",
               nontrivial=False)
