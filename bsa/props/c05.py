"""C05 - submitted messages are written to the socket exactly once, whole and in order (structural clauses)."""
import ast

from ..astutil import strip_not, make_cfg, call_name, fn_calls, must_pass, node_calls, walk_no_nested, kwarg, witness_avoiding
from ..raises import Raises
from ..locks import FieldKinds
from .c08 import universe, held_at_entry
from .c04 import conservation, lockset_field, owner

META = {
    "explanation": "Partial-write rule in every _write implementation (after sent = sock.send(B) the success path stores B = B[sent:] "
                   "and nothing else touches B; Tcp and Sctp siblings agree); conservation of the outbound buffers (append / transfer / "
                   "drop-sent-prefix only); consume-once of the selector mailbox (bytes accumulated from key.data must be cleared from "
                   "the slot on every path before the next select()); every downgrade of the selector mask to read-only is dominated "
                   "by a test that nothing is pending (sibling call sites agree); queue discipline of the send path (each accepted "
                   "message put once; a dequeued message is serialised exactly once and never re-enqueued behind later ones; the "
                   "serialised stream reaches the transport hand-off on every path on which messages were dequeued); lock "
                   "consistency of the mask and the hand-off.",
    "decided": ["partial-write rule + siblings", "outbound buffer conservation", "consume-once of the selector slot",
                "guarded downgrade", "queue discipline", "lockset on the hand-off"],
    "not_decided": ["absence of loss/duplication under all interleavings of submitters, state machine and transport thread"],
    "trusted_base": ["Python ast", "CFG must-pass / dominators", "lockset dataflow"],
    "assumptions": ["selectors.modify(fileobj, events, data) replaces the data attached to the key; without data= it clears it"],
}


def check(ctx):
    repo = ctx.repo
    R = Raises(repo)
    fk = FieldKinds(repo)
    funcs = universe(repo)
    tcp = ctx.need(repo.cls("bromelia.transport.TcpConnection"), "TcpConnection")

    # ---- 1 partial-write rule -----------------------------------------------------------------------
    ctx.clause = "1-partial-write"
    impls = []
    for ci in repo.classes:
        if tcp in ci.mro() and "_write" in ci.methods:
            fn = ci.methods["_write"]
            if any(call_name(c).endswith(("sock.send", "sock.sctp_send")) for c in fn_calls(fn)):
                impls.append((ci, fn))
    ctx.floor("write_implementations", len(impls), 1)      # (a second transport may inherit the one implementation)
    shapes = []
    for ci, fn in impls:
        q = f"{ci.qual}._write"
        sends = [s for s in walk_no_nested(fn) if isinstance(s, ast.Assign) and isinstance(s.targets[0], ast.Name)
                 and any(isinstance(y, ast.Call) and call_name(y).endswith(("sock.send", "sock.sctp_send")) for y in ast.walk(s.value))]
        if len(sends) != 1:
            ctx.undecided("R-CONSERVE/partial-write", q, ci.where(fn), "expected one `sent = sock.send(buffer)`", key="send")
            continue
        sv = sends[0].targets[0].id
        scall = next(y for y in ast.walk(sends[0].value) if isinstance(y, ast.Call) and call_name(y).endswith(("sock.send", "sock.sctp_send")))
        ctx.decide(sends[0].value is scall, "R-CONSERVE/partial-write", q, ci.where(sends[0]), f"`{sv}` is the count returned by send()",
                   f"`{ast.unparse(sends[0])}`: the count used to drop the sent prefix is not the value returned by send()", key="sent_value")
        buf = ast.unparse(scall.args[0]) if scall.args else None
        stores = [s for s in walk_no_nested(fn) if isinstance(s, (ast.Assign, ast.AugAssign)) and
                  ast.unparse(s.targets[0] if isinstance(s, ast.Assign) else s.target) == buf]
        ok = len(stores) == 1 and isinstance(stores[0], ast.Assign) and ast.unparse(stores[0].value) == f"{buf}[{sv}:]"
        ctx.decide(ok, "R-CONSERVE/partial-write", q, ci.where(sends[0]),
                   f"after {sv} = send({buf}) the buffer keeps exactly {buf}[{sv}:]",
                   f"after `{ast.unparse(sends[0])}` the buffer is updated by {[ast.unparse(s) for s in stores]}: the unsent remainder of a "
                   f"partial write is lost, duplicated or torn (expected exactly `{buf} = {buf}[{sv}:]`)", key="drop_sent_prefix")
        # the store is on the success path of the send (else-branch of the try, or after it), not in the handler
        in_handler = any(stores and stores[0] in list(ast.walk(h)) for t in walk_no_nested(fn) if isinstance(t, ast.Try) for h in t.handlers)
        ctx.decide(bool(stores) and not in_handler, "R-CONSERVE/partial-write", q, ci.where(fn), "prefix dropped on the success path only",
                   "the sent prefix is dropped on the error path", key="success_path", nontrivial=False)
        shapes.append(ast.dump(ast.Module(body=[s for s in fn.body], type_ignores=[])).replace("sctp_send", "send"))
    ctx.decide(len(set(shapes)) <= 1, "R-SIB/write", "TcpConnection._write~SctpConnection._write", tcp.where(),
               "the _write siblings are structurally identical up to the send primitive",
               "TcpConnection._write and SctpConnection._write differ structurally: one transport handles partial writes differently",
               key="siblings")

    # ---- 2 conservation of outbound buffers -----------------------------------------------------------
    ctx.clause = "2-buffer-conservation"
    n = conservation(ctx, repo, funcs, {("TcpConnection", "data_stream"), ("TcpConnection", "_send_buffer")})
    ctx.floor("send_buffer_write_sites", n, 5)

    # ---- 3 consume-once of the selector mailbox ----------------------------------------------------------
    ctx.clause = "3-selector-slot-consumed-once"
    run = ctx.need(repo.funcs.get("bromelia.transport.TcpConnection._run"), "TcpConnection._run")
    acc = [s for s in walk_no_nested(run.node) if isinstance(s, ast.AugAssign) and ast.unparse(s.value).endswith(".data")
           and ast.unparse(s.target) == "self.data_stream"]
    if len(acc) != 1:
        ctx.undecided("R-ONCE", run.qual, run.where(), "accumulation of key.data not recognised", key="acc")
    else:
        # must-clear summary: which functions clear the slot (selector.modify without data / with data=None) on every path
        memo = {}

        def clears_slot(fi, depth=0):
            if fi.qual in memo:
                return memo[fi.qual]
            memo[fi.qual] = False
            cfg = make_cfg(repo, fi.node)

            def pred(nd):
                for c in node_calls(nd):
                    nm = call_name(c)
                    if nm.endswith("selector.modify"):
                        d = kwarg(c, "data") or (c.args[2] if len(c.args) > 2 else None)
                        if d is None or (isinstance(d, ast.Constant) and d.value is None):
                            return True
                    if depth < 2:
                        for cal in R.resolve_call(fi, c, R.local_types(fi))[0]:
                            if cal.qual in funcs and cal is not fi:
                                # a call with mode "r" of the mask setter clears on that branch: decide with the literal argument
                                if cal.name == "_set_selector_events_mask" and c.args and isinstance(c.args[0], ast.Constant):
                                    if clears_for_mode(cal, c.args[0].value):
                                        return True
                                elif clears_slot(cal, depth + 1):
                                    return True
                return False
            memo[fi.qual] = must_pass(cfg, pred)
            return memo[fi.qual]

        def clears_for_mode(setter, mode):
            for iff in [x for x in ast.walk(setter.node) if isinstance(x, ast.If)]:
                if ast.unparse(iff.test) == f"mode == '{mode}'":
                    for c in [y for s in iff.body for y in ast.walk(s) if isinstance(y, ast.Call)]:
                        if call_name(c).endswith("selector.modify"):
                            d = kwarg(c, "data") or (c.args[2] if len(c.args) > 2 else None)
                            return d is None or (isinstance(d, ast.Constant) and d.value is None)
            return False

        cfg = make_cfg(repo, run.node)
        an = next(nd for nd in cfg.nodes.values() if nd.ast is acc[0])
        sel = [nd for nd in cfg.nodes.values() if any(call_name(c).endswith("selector.select") for c in node_calls(nd))]

        def pred(nd):
            for c in node_calls(nd):
                for cal in R.resolve_call(run, c, R.local_types(run))[0]:
                    if cal.qual in funcs and clears_slot(cal):
                        return True
            return False
        ok = bool(sel) and all(must_pass(cfg, pred, start=t, targets={s.id for s in sel}) for t, l in cfg.succ[an.id] if l not in ("exc", "excp"))
        wit = None
        if not ok and sel:
            w = witness_avoiding(cfg, pred, start=an.id, targets={s.id for s in sel})
            wit = cfg.describe_path(w)
        ctx.decide(ok, "R-ONCE", run.qual, run.where(acc[0]),
                   "the selector slot is cleared on every path from the accumulation to the next select()",
                   f"`{ast.unparse(acc[0])}` accumulates the bytes attached to the selector key, but on a path to the next select() "
                   f"({wit}) nothing clears the slot (write() only resets the mask once the send buffer is empty; a partial write "
                   f"leaves key.data in place): the next event appends the same stream again and the peer receives it twice",
                   key="slot_once", witness=wit)

    # accumulation happens for every event, before anything that may clear the slot
    if len(acc) == 1:
        cfg = make_cfg(repo, run.node)
        dom = cfg.dominators()
        tests = [nd for nd in cfg.nodes.values() if nd.kind == "test" and ast.unparse(nd.ast) in ("key.data is not None", "key.data")]
        clearers = []
        for nd in cfg.nodes.values():
            for c in node_calls(nd):
                for cal in R.resolve_call(run, c, R.local_types(run))[0]:
                    if cal.qual in funcs and _may_clear(repo, R, funcs, cal):
                        clearers.append(nd)
        okd = bool(tests) and bool(clearers) and all(any(t.id in dom[cn.id] for t in tests) for cn in clearers)
        ctx.decide(okd, "R-DOM/accumulate-first", run.qual, run.where(acc[0]),
                   "every call that may clear the selector slot is dominated by the `key.data is not None` accumulation test",
                   "a call that re-registers the socket (read()/write() -> _set_selector_events_mask) can run in an iteration in which "
                   "key.data was not looked at first (the accumulation is conditional on the event mask): when the first event after "
                   "a hand-over is READ-only the attached stream is dropped by read()'s re-registration and never written",
                   key="accumulate_first")

    # ---- 4 guarded downgrade -----------------------------------------------------------------------------------
    ctx.clause = "4-guarded-downgrade"
    downs = []
    for q, fi in funcs.items():
        for c in fn_calls(fi.node):
            if call_name(c).endswith("_set_selector_events_mask") and c.args and isinstance(c.args[0], ast.Constant) and c.args[0].value == "r":
                downs.append((fi, c))
    ctx.floor("downgrade_sites", len(downs), 2)
    for fi, c in downs:
        cfg = make_cfg(repo, fi.node)
        dom = cfg.dominators()
        cn = next(nd for nd in cfg.nodes.values() if any(x is c for x in node_calls(nd)))
        guarded = False
        own_stream = False
        from ..paths import implied_atoms
        for d in dom[cn.id]:
            dn = cfg.nodes[d]
            if dn.kind != "test" or d == cn.id:
                continue
            # the branch of d on which the call lies: reachable from that successor without passing d again
            lab = []
            for m_, l_ in cfg.succ[d]:
                if l_ not in ("T", "F"):
                    continue
                seen, st_ = {m_}, [m_]
                while st_:
                    x = st_.pop()
                    if x == d:
                        continue
                    for y, _l in cfg.succ.get(x, []):
                        if y not in seen:
                            seen.add(y)
                            st_.append(y)
                if cn.id in seen:
                    lab.append(l_)
            if len(lab) != 1:
                continue
            facts = implied_atoms(dn.ast, lab[0] == "T")
            if facts.get("self._send_buffer") is False or facts.get("len(self._send_buffer) == 0") is True \
                    or facts.get("self._send_buffer == b''") is True:
                guarded = True
                if facts.get("self.send_data_stream_queued") is True:
                    own_stream = True
        if fi.name == "write" and guarded:
            # the writer may only leave WRITE mode after it has taken a stream over itself: re-registering for "r" clears
            # the selector's data slot, and an EVENT_WRITE that fires before any hand-over (a freshly connected client) would
            # otherwise wipe a stream attached by the state-machine thread in the meantime
            ctx.decide(own_stream, "R-DOM/downgrade-own-stream", fi.qual, fi.where(c),
                       "write() leaves WRITE mode only after it queued a handed-over stream (send_data_stream_queued) and drained it",
                       "write() drops EVENT_WRITE (and with it the selector's data slot) whenever the send buffer is empty, without "
                       "requiring that it had taken a stream over (`send_data_stream_queued`): a WRITE event that fires before the first "
                       "hand-over re-registers the socket with data=None and wipes a stream attached concurrently - the message is never "
                       "written", key="own_stream")
        ctx.decide(guarded, "R-DOM/downgrade", fi.qual, fi.where(c), "downgrade to read-only is dominated by `nothing pending`",
                   f"{fi.qual.rsplit('.', 1)[-1]}() drops EVENT_WRITE and the attached stream (`{ast.unparse(c)}`) without testing that "
                   f"nothing is pending, while the sibling call site guards it with `not self._send_buffer`: a read event that lands "
                   f"after the state machine attached a stream discards it - the message is never written", key="downgrade_guard")

    # ---- 5 queue discipline ---------------------------------------------------------------------------------------
    ctx.clause = "5-queue-discipline"
    put = ctx.need(repo.funcs.get("bromelia.setup.DiameterAssociation.put_message_into_send_queue"), "put_message_into_send_queue")
    cfg = make_cfg(repo, put.node)
    puts = [c for c in fn_calls(put.node) if call_name(c) == "self._send_messages.put"]
    ok = len(puts) == 1 and must_pass(cfg, lambda nd: any(x is puts[0] for x in node_calls(nd))) and \
        [ast.unparse(a) for a in puts[0].args] == [[p for p in put.params() if p != "self"][0]]
    ctx.decide(ok, "R-MUSTPASS/put-once", put.qual, put.where(), "an accepted message is put exactly once",
               "put_message_into_send_queue does not put the message exactly once on every normal path", key="put_once")
    snd = ctx.need(repo.funcs.get("bromelia.setup.DiameterAssociation.send_message_from_queue"), "send_message_from_queue")
    gets = [c for c in fn_calls(snd.node) if call_name(c) == "self._send_messages.get"]
    reputs = [c for c in fn_calls(snd.node) if call_name(c) in ("self._send_messages.put", "self._send_messages.put_nowait")]
    ctx.decide(not reputs, "R-WHO/no-reenqueue", snd.qual, snd.where(reputs[0] if reputs else snd.node),
               "a dequeued message is never put back on the FIFO",
               "a message taken with get() is put back at the tail of the same FIFO (`self._send_messages.put(msg)` when it does not "
               "fit the buffer limit): it is re-ordered behind later messages, and a message larger than the limit is never sent",
               key="reenqueue")
    loop = next((x for x in walk_no_nested(snd.node) if isinstance(x, ast.While) and any(g in list(ast.walk(x)) for g in gets)), None)
    if loop is None or len(gets) != 1:
        ctx.undecided("R-MUSTPASS/serialise-once", snd.qual, snd.where(), "dequeue loop not recognised", key="loop")
    else:
        cfg = make_cfg(repo, snd.node)
        ln = next(nd for nd in cfg.nodes.values() if nd.kind == "test" and nd.extra is loop)
        gn = next(nd for nd in cfg.nodes.values() if any(x is gets[0] for x in node_calls(nd)))
        mv = gn.ast.targets[0].id if isinstance(gn.ast, ast.Assign) and isinstance(gn.ast.targets[0], ast.Name) else None
        # a local bound once per iteration to `<msg>.dump()` stands for the serialised message
        _ldefs = {}
        for s_ in ast.walk(loop):
            if isinstance(s_, ast.Assign) and len(s_.targets) == 1 and isinstance(s_.targets[0], ast.Name):
                _ldefs.setdefault(s_.targets[0].id, []).append(ast.unparse(s_.value))
        _is_dump = lambda e: ast.unparse(e) == f"{mv}.dump()" or (isinstance(e, ast.Name) and _ldefs.get(e.id) == [f"{mv}.dump()"])
        dumps = [nd for nd in cfg.nodes.values() if nd.kind == "stmt" and isinstance(nd.ast, ast.AugAssign)
                 and _is_dump(nd.ast.value)]
        svar = ast.unparse(dumps[0].ast.target) if dumps else None
        exits = {ln.id} | {nd.id for nd in cfg.nodes.values() if nd.kind == "stmt" and isinstance(nd.ast, ast.Break)}
        once = len(dumps) == 1 and all(must_pass(cfg, lambda nd: nd.id == dumps[0].id, start=t, targets={ln.id})
                                       for t, l in cfg.succ[gn.id] if l not in ("exc", "excp"))
        # a path from the get to a `break` that skips the dump loses/defers the message
        brk = [nd.id for nd in cfg.nodes.values() if nd.kind == "stmt" and isinstance(nd.ast, ast.Break) and any(nd.ast is y for y in ast.walk(loop))]
        skip = any(witness_avoiding(cfg, lambda nd: nd.id in {d.id for d in dumps}, start=gn.id, targets={b}) for b in brk)
        # (a) at most / exactly one serialisation site per iteration
        from ..paths import enum_paths
        multi = False
        for pth in enum_paths(loop.body, loops="skip"):
            nd_ = [st_ for st_ in pth.stmts() if isinstance(st_, ast.AugAssign) and _is_dump(st_.value)]
            if len(nd_) > 1 or (len(nd_) == 0 and pth.term == "fall"):
                multi = True
        # a message that was appended to the batch must not ALSO go back on the queue (it would be written now and again later)
        both = False
        for pth in enum_paths(loop.body, loops="skip"):
            sts_ = list(pth.stmts())
            ser_ = any(isinstance(st_, ast.AugAssign) and _is_dump(st_.value) for st_ in sts_)
            req_ = any(isinstance(st_, ast.Expr) and isinstance(st_.value, ast.Call) and call_name(st_.value) in
                       ("self._send_messages.put", "self._send_messages.put_nowait") for st_ in sts_)
            if ser_ and req_:
                both = True
        ctx.decide(not both, "R-MUSTPASS/serialise-once", snd.qual, snd.where(gn.ast),
                   "no iteration both serialises its message into the batch and puts it back on the queue",
                   "an iteration of the dequeue loop appends the message's encoding to the batch and then puts the same message back on "
                   "the send queue: it is written with this batch and again with a later one (duplicated on the wire)",
                   key="serialised_and_requeued")
        ctx.decide(not multi and bool(dumps), "R-MUSTPASS/serialise-once", snd.qual, snd.where(gn.ast),
                   "an iteration that completes serialises its message exactly once",
                   "an iteration of the dequeue loop serialises its message more than once or completes without serialising it: the "
                   "message is duplicated on / missing from the wire", key="serialise_exactly_once")
        # (b) leaving the iteration early after get()
        ctx.decide(not skip, "R-MUSTPASS/serialise-once", snd.qual, snd.where(gn.ast),
                   "no early exit between get() and the serialisation",
                   "a dequeued message can leave the iteration without being serialised into the stream (the oversize branch breaks "
                   "out after get()): it is not written in submission order", key="serialise_once")
        # the stream reaches the hand-off on every path on which messages were dequeued: enumerate the paths after the loop
        blk = _block_of(snd.node, loop)
        rest = blk[blk.index(loop) + 1:]
        classes = {"direct": [], "after_wait": [], "no_transport": []}
        for pth in enum_paths(rest, loops="once"):
            from .c12 import flatten_conds
            facts = flatten_conds(pth.conds())
            handed = [c for c, _ in pth.calls() if call_name(c).endswith("_set_selector_events_mask") and len(c.args) > 1
                      and ast.unparse(c.args[1]) == svar]
            if facts.get("self.transport") is False and "self.transport.is_write_mode()" not in facts:
                classes["no_transport"].append((pth, handed))
            elif facts.get("self.transport.is_write_mode()") is False and not any("wait" in call_name(c) for c, _ in pth.calls()):
                classes["direct"].append((pth, handed))
            else:
                classes["after_wait"].append((pth, handed))
        okd = bool(classes["direct"]) and all(len(h) == 1 for _, h in classes["direct"])
        ctx.decide(okd, "R-FLOW/stream-handoff", snd.qual, snd.where(),
                   "when the transport is not in write mode the stream is handed over exactly once",
                   "with the transport idle (not in write mode) the serialised stream is not handed to the transport exactly once: "
                   "the dequeued messages are lost or sent twice", key="handoff_direct")
        okw = all(len(h) == 1 for _, h in classes["after_wait"])
        ctx.decide(okw, "R-FLOW/stream-handoff", snd.qual, snd.where(),
                   "after waiting for write mode to end the stream is handed over",
                   "after messages were dequeued and serialised, the wait-for-write-mode loop can end (stop flag set / transport gone) "
                   "without the stream being handed to the transport: the dequeued messages are lost", key="handoff")
        ctx.count("handoff_paths", sum(len(v) for v in classes.values()))
    # the stream is attached only when the previous one has been picked up (transport not in write mode)
    attach_sites = [(snd, None)]
    for fi_ in funcs.values():
        # any other function of the connection layer that attaches a stream to the selector key is held to the same guard
        if fi_ is snd or fi_.mod.name == "bromelia.transport":
            continue
        if any(call_name(c).endswith("_set_selector_events_mask") and (len(c.args) > 1 or any(k.arg in ("msg", "data") for k in c.keywords))
               for c in fn_calls(fi_.node)):
            attach_sites.append((fi_, "other"))
    ctx.count("stream_attach_functions", len(attach_sites))
    for afi, akind in attach_sites:
      cfg = make_cfg(repo, afi.node)
      dom = cfg.dominators()
      hands = [nd for nd in cfg.nodes.values() if any(call_name(c).endswith("_set_selector_events_mask") and
                                                      (len(c.args) > 1 or any(k.arg in ("msg", "data") for k in c.keywords)) for c in node_calls(nd))]
      for hn in hands:
        okg = False
        for d in dom[hn.id]:
            dn = cfg.nodes[d]
            inner, pol = strip_not(dn.ast) if dn.kind == "test" else (None, True)
            if inner is not None and ast.unparse(inner) == "self.transport.is_write_mode()":
                ok_l, bad_l = ("F", "T") if pol else ("T", "F")     # the branch on which the transport is NOT in write mode
                tb = [m for m, l in cfg.succ[d] if l == ok_l]
                if tb and hn.id in cfg.reachable(tb[0]) and (d == hn.id or True):
                    # the other branch must not reach this hand-off without passing the test again
                    fb = [m for m, l in cfg.succ[d] if l == bad_l]
                    reach_f = set()
                    for m in fb:
                        seen, st_ = {m}, [m]
                        while st_:
                            x = st_.pop()
                            if x == d:
                                continue
                            for y, l in cfg.succ.get(x, []):
                                if y not in seen:
                                    seen.add(y)
                                    st_.append(y)
                        reach_f |= seen
                    if hn.id not in reach_f:
                        okg = True
        ctx.decide(okg, "R-DOM/handoff-guard", afi.qual, afi.where(hn.ast),
                   "the stream is attached only under `not transport.is_write_mode()`",
                   "the serialised stream is attached to the selector key without a dominating `not self.transport.is_write_mode()` "
                   "test: the single data slot may still hold the previous stream, which is silently replaced - the earlier batch of "
                   "messages is lost", key=f"handoff_guard")
    # the hand-off passes the stream as the key data
    setter = ctx.need(repo.funcs.get("bromelia.transport.TcpConnection._set_selector_events_mask"), "_set_selector_events_mask")
    # on terms: the setter is interpreted for mode == 'rw' (selectors.EVENT_READ / EVENT_WRITE are the documented bits 1 and 2);
    # every path that returns normally registers the given stream exactly once as the key data
    from .. import sym as _sy
    from ..astutil import strip_doc as _sd
    ps_ = [p for p in setter.params() if p != "self"]
    MSG_ = _sy.S(ps_[1]) if len(ps_) > 1 else None

    def hk_(t):
        if t == ("attr", ("name", "selectors"), "EVENT_READ"):
            return 1
        if t == ("attr", ("name", "selectors"), "EVENT_WRITE"):
            return 2
        return None
    ok, n_p = MSG_ is not None, 0
    if MSG_ is not None:
        try:
            paths_ = _sy.Interp(fold=lambda e: repo.fold(setter.mod, e), hook=hk_, log_calls=True).run(
                _sd(setter.node.body), _sy.PathState({ps_[0]: "rw", ps_[1]: MSG_}, [], []))
        except _sy.TooMany:
            paths_ = []
        for p_ in paths_:
            if p_.term == "raise":
                continue
            n_p += 1
            mods_ = [e[1] for e in p_.effects if e[0] == "ecall" and isinstance(e[1], tuple) and e[1][0] == "call"
                     and _sy.show(e[1][1]).endswith("selector.modify")]
            datas = [dict(m_[3]).get("data", m_[2][2] if len(m_[2]) > 2 else None) for m_ in mods_]
            ok = ok and datas == [MSG_]
        ok = ok and n_p > 0
    ctx.decide(ok, "R-FLOW/stream-handoff", setter.qual, setter.where(), "mode 'rw' attaches the given stream to the selector key",
               "mode 'rw' does not attach the given stream to the selector key (data=msg)", key="attach")

    # ---- 6 lockset ---------------------------------------------------------------------------------------------------
    ctx.clause = "6-lock-consistency"
    flows, sites = held_at_entry(repo, R, fk, funcs)
    lockset_field(ctx, repo, funcs, flows, ("TcpConnection", "events_mask"),
                  "mask and selector registration can be changed concurrently by the state machine and the transport thread")
    # every selector.modify happens under the transport lock
    mods = []
    for q, lf in flows.items():
        for nid, nd in lf.cfg.nodes.items():
            for c in node_calls(nd):
                if call_name(c).endswith("selector.modify"):
                    mods.append((q, nid, lf))
    ok = bool(mods) and all("TcpConnection.lock" in lf.must_at(nid) for q, nid, lf in mods)
    ctx.decide(ok, "R-LOCKSET", "TcpConnection.selector.modify", "bromelia/transport.py", "every selector.modify runs under TcpConnection.lock",
               "selector.modify is called without TcpConnection.lock", key="modify_lock")
    # the mask, the selector registration and the mode events change together: every write of events_mask and every set/clear of
    # the mode events happens inside the region that holds TcpConnection.lock (the send path polls is_write_mode() without a
    # lock; it may act on a mask value only once the registration that goes with it is in place - otherwise it attaches the next
    # stream and the pending modify(.., data=None) of the transport thread wipes it)
    mask_sites = []
    for q, lf in flows.items():
        if funcs[q].name == "__init__":
            continue
        for nid, nd in lf.cfg.nodes.items():
            if nd.kind == "stmt" and isinstance(nd.ast, (ast.Assign, ast.AugAssign)):
                tg = nd.ast.targets if isinstance(nd.ast, ast.Assign) else [nd.ast.target]
                if any(isinstance(t, ast.Attribute) and t.attr == "events_mask" for t in tg):
                    mask_sites.append((q, nid, lf, "events_mask"))
            for c in node_calls(nd):
                cn_ = call_name(c)
                if cn_.rsplit(".", 1)[-1] in ("set", "clear") and cn_.rsplit(".", 2)[-2:-1] and cn_.rsplit(".", 2)[-2] in ("write_mode_on", "read_mode_on") \
                        and funcs[q].name == "_set_selector_events_mask":
                    mask_sites.append((q, nid, lf, cn_))
    unlocked = [(q.rsplit(".", 1)[-1], lf.cfg.nodes[nid].lineno, what) for q, nid, lf, what in mask_sites if "TcpConnection.lock" not in lf.must_at(nid)]
    ctx.decide(bool(mask_sites) and not unlocked, "R-LOCKSET/mask-atomic", "TcpConnection.events_mask", "bromelia/transport.py",
               f"all {len(mask_sites)} writes of the mask / mode events run under TcpConnection.lock, in the region of the selector.modify",
               f"the events mask or a mode event is written outside TcpConnection.lock ({unlocked[:4]}): the send path, which polls "
               f"is_write_mode() without a lock, can see the new mask before the selector registration that goes with it is made and "
               f"attach the next stream - the pending selector.modify(.., data=None) then wipes it: the batch is never written",
               key="mask_atomic")
    ctx.count("mask_write_sites", len(mask_sites))
    # hand-off and enqueue are serialised by the association lock
    for qn in ("put_message_into_send_queue", "send_message_from_queue"):
        q = f"bromelia.setup.DiameterAssociation.{qn}"
        lf = flows[q]
        ops = [nid for nid, nd in lf.cfg.nodes.items() for c in node_calls(nd)
               if call_name(c).startswith("self._send_messages.") or call_name(c).endswith("_set_selector_events_mask")]
        ok = bool(ops) and all("DiameterAssociation.lock" in lf.must_at(nid) for nid in ops)
        ctx.decide(ok, "R-LOCKSET", q, funcs[q].where(), "queue operations and the hand-off run under DiameterAssociation.lock",
                   f"{qn} touches the send queue / hands the stream over without DiameterAssociation.lock: concurrent submitters can "
                   f"interleave their batches", key="assoc_lock")


def _block_of(fn, stmt):
    for n in ast.walk(fn):
        for f in ("body", "orelse", "finalbody"):
            b = getattr(n, f, None)
            if isinstance(b, list) and stmt in b:
                return b
    return fn.body


def _may_clear(repo, R, funcs, fi, depth=0):
    for c in fn_calls(fi.node):
        nm = call_name(c)
        if nm.endswith("_set_selector_events_mask") or nm.endswith("selector.modify"):
            return True
        if depth < 2:
            for cal in R.resolve_call(fi, c, R.local_types(fi))[0]:
                if cal.qual in funcs and cal is not fi and _may_clear(repo, R, funcs, cal, depth + 1):
                    return True
    return False
