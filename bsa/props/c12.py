"""C12 - answers leaving a route carry the request's identity and a correct error flag."""
import ast
import itertools

from ..astutil import make_cfg, call_name, fn_calls, must_pass, node_calls, walk_no_nested
from ..paths import enum_paths, eval_bool

META = {
    "explanation": "decorate_answer is enumerated path by path (decision table over the family predicates, the E bit and the "
                   "has_avp tests): identifiers are copied from the same-named request fields on every path; the Session-Id copy "
                   "is guarded and followed by a length refresh; set_error_bit(True) is executed exactly when one of the three "
                   "verified failure-family predicates holds and the flag is not already set (the setter raises on a redundant "
                   "toggle); Result-Code is removed exactly when both Experimental-Result and Result-Code are present; every "
                   "dynamic `<x>.<name>_avp` read is dominated by `<x>.has_avp('<name>_avp')` on the same object.",
    "decided": ["identifier must-defs", "guarded session copy + refresh", "E-flag decision table on verified predicates",
                "Result-Code removal guard", "dynamic-attribute guard"],
    "not_decided": ["the E flag when only the experimental result code (inside the Grouped AVP) is an error", "values",
                    "clearing an E flag that the handler set on a non-error Result-Code"],
    "trusted_base": ["Python ast", "path enumeration", "C17 (family predicates are interval-correct)"],
    "assumptions": ["route handlers return DiameterAnswer objects (C13 clause 3 covers the rest)"],
}


def flatten_conds(conds):
    """[(test, truth)] -> {atom text: truth} using And/True and Or/False decomposition."""
    out = {}

    def add(t, truth):
        if isinstance(t, ast.UnaryOp) and isinstance(t.op, ast.Not):
            add(t.operand, not truth)
        elif isinstance(t, ast.BoolOp) and ((isinstance(t.op, ast.And) and truth) or (isinstance(t.op, ast.Or) and not truth)):
            for v in t.values:
                add(v, truth)
        else:
            out[ast.unparse(t)] = truth
    for t, tr in conds:
        add(t, tr)
    return out


def attribute_guard_violations(fn, objs):
    """reads of X.<name>_avp (X in objs) not dominated by X.has_avp('<name>_avp') == True on the path."""
    bad = {}
    for p in enum_paths(fn.body, loops="skip"):
        known = {}
        for e in p.events:
            if e[0] == "cond":
                # the condition expression itself may read X.n_avp: check against facts known so far
                node = e[1]
            elif e[0] == "stmt":
                node = e[1]
            else:
                continue
            for n in ast.walk(node):
                if isinstance(n, ast.Attribute) and isinstance(n.value, ast.Name) and n.value.id in objs \
                        and n.attr.endswith("_avp") and n.attr != "has_avp" and isinstance(n.ctx, ast.Load):
                    g = f"{n.value.id}.has_avp('{n.attr}')"
                    # within an `A and B` test the left conjunct guards the right one
                    local = dict(known)
                    if e[0] == "cond":
                        local.update(_left_guards(e[1], n))
                    if local.get(g) is not True:
                        bad[(n.value.id, n.attr, getattr(node, "lineno", 0))] = n
            if e[0] == "cond":
                known.update(flatten_conds([(e[1], e[2])]))
    return bad


def _left_guards(test, target):
    """facts established by conjuncts to the left of the one containing `target` in an And chain."""
    out = {}
    if isinstance(test, ast.BoolOp) and isinstance(test.op, ast.And):
        for v in test.values:
            if any(x is target for x in ast.walk(v)):
                out.update(_left_guards(v, target))
                break
            out.update(flatten_conds([(v, True)]))
    return out


def analyse_decorate(ctx, repo, prop_rules):
    """Shared by C12 and C13.  prop_rules: set of rule groups to report."""
    m = ctx.need(repo.mods.get("bromelia.bromelia"), "module bromelia.bromelia")
    fn = ctx.need(m.funcs.get("decorate_answer"), "bromelia.bromelia.decorate_answer")
    construct = "bromelia.bromelia.decorate_answer"
    where = f"{m.rel}:{fn.lineno}"
    params = [a.arg for a in fn.args.args]
    if len(params) != 2:
        ctx.undecided("R-MUSTDEF/identifiers", construct, where, "expected (answer, request)", key="params")
        return
    A, R = params

    if "identifiers" in prop_rules:
        ctx.clause = "1-identifiers"
        # on terms (bsa.sym): on every returning path the last store to answer.header.<f> is request.header.<f>
        from .. import sym
        from ..astutil import strip_doc
        fields = ("application_id", "hop_by_hop", "end_to_end")
        AT, RT = sym.S(A), sym.S(R)
        try:
            paths_ = [p_ for p_ in sym.Interp().run(strip_doc(fn.body), sym.PathState({A: AT, R: RT}, [], [])) if p_.term in ("return", "fall")]
        except sym.TooMany:
            paths_ = []
        if not paths_:
            ctx.undecided("R-MUSTDEF/identifiers", construct, where, "no returning path evaluated", key="paths")
        for f in fields:
            bad = set()
            for p_ in paths_:
                st_ = [e for e in p_.effects if e[0] == "storeattr" and e[1] == ("attr", AT, "header") and e[2] == f]
                if not st_:
                    bad.add(f"`{A}.header.{f}` is never assigned")
                elif st_[-1][3] != ("attr", ("attr", RT, "header"), f):
                    bad.add(f"`{A}.header.{f}` is assigned `{sym.show(st_[-1][3])}`")
            if paths_:
                ctx.decide(not bad, "R-MUSTDEF/identifiers", construct, where, f"answer.header.{f} = request.header.{f} on every path",
                           f"answer.header.{f} is not the request's {f}: {'; '.join(sorted(bad))}", key=f"id:{f}")
        rets = [ast.unparse(n.value) for n in walk_no_nested(fn) if isinstance(n, ast.Return) and n.value is not None]
        ctx.decide(rets and all(r == A for r in rets), "R-MUSTDEF/identifiers", construct, where, "returns the decorated answer",
                   f"returns {rets}", key="return", nontrivial=False)

    if "session" in prop_rules:
        ctx.clause = "2-session-id"
        cfg = make_cfg(repo, fn)
        stores = [n for n in cfg.nodes.values() if n.kind == "stmt" and isinstance(n.ast, ast.Assign)
                  and ast.unparse(n.ast.targets[0]) == f"{A}.session_id_avp.data"]
        if not stores:
            ctx.violate("R-DOM/session-copy", construct, where, "the request's Session-Id is never copied onto the answer", key="copy")
        for s in stores:
            val = ast.unparse(s.ast.value)
            ctx.decide(val == f"{R}.session_id_avp.data", "R-DOM/session-copy", construct, f"{m.rel}:{s.lineno}",
                       "Session-Id data copied from the request", f"Session-Id data is set from `{val}`", key="copy_src")
            refreshed = must_pass(cfg, lambda n: n.kind == "stmt" and ast.unparse(n.ast) in (f"{A}.refresh()",) and n.id != s.id,
                                  start=s.id)
            ctx.decide(refreshed, "R-MUSTPASS/session-refresh", construct, f"{m.rel}:{s.lineno}",
                       "length refreshed after the Session-Id copy on every path",
                       "after the Session-Id data is replaced the Message Length is not refreshed on every path to the return",
                       key="refresh")
        # the length is refreshed whenever both messages carry a Session-Id - under no further condition (the handler may have
        # edited AVP data in place; this refresh is what makes the Message Length of the outgoing answer right)
        from ..astutil import guards as _guards
        g_ = _guards(fn)
        rf_ = [x for x in walk_no_nested(fn) if isinstance(x, ast.Expr) and ast.unparse(x) == f"{A}.refresh()"]
        from ..astutil import guard_facts
        allowed_ = {(f"{R}.has_avp('session_id_avp')", True), (f"{A}.has_avp('session_id_avp')", True)}
        for x in rf_:
            facts_, resid_ = guard_facts(g_.get(id(x), []))
            extra_ = sorted(set(facts_.items()) - allowed_) + resid_
            ctx.decide(not extra_, "R-DOM/session-refresh-exactly", construct, f"{m.rel}:{x.lineno}",
                       "refresh() runs whenever request and answer carry a Session-Id",
                       f"the refresh of the Message Length is skipped unless {extra_} also holds: an answer whose AVP data the handler edited "
                       f"in place leaves the route with a stale Message Length", key="refresh_exactly")
        # guard: copy happens iff request has one (and the answer has one to receive it)
        for p in enum_paths(fn.body, loops="skip"):
            facts = {}
            for e in p.events:
                if e[0] == "cond":
                    facts.update(flatten_conds([(e[1], e[2])]))
                if e[0] == "stmt" and isinstance(e[1], ast.Assign) and ast.unparse(e[1].targets[0]) == f"{A}.session_id_avp.data":
                    ok = facts.get(f"{R}.has_avp('session_id_avp')") is True
                    ctx.decide(ok, "R-DOM/session-copy", construct, f"{m.rel}:{e[1].lineno}",
                               "copy guarded by the request having a Session-Id",
                               "Session-Id copy is not guarded by request.has_avp('session_id_avp')", key="copy_guard")
                    break

    if "eflag" in prop_rules:
        ctx.clause = "3-error-flag"
        fams = {}
        for k in (3, 4, 5):
            fams[k] = f"is_{k}xxx_failure({A})"
        # the E flag is decided by the 3xxx/4xxx/5xxx predicates: they must accept exactly their numeric family (the interval
        # analysis of C17, run here for the three predicates this property depends on)
        from . import c17 as _c17
        um = repo.mods.get("bromelia.utils")
        accs_ = {}
        for k in (3, 4, 5):
            pf = um.funcs.get(f"is_result_code_family_{k}xxx") if um else None
            if pf is None or len(pf.args.args) != 1:
                ctx.undecided("R-INTERVAL/eflag-family", f"bromelia.utils.is_result_code_family_{k}xxx", "bromelia/utils.py", "predicate not found", key=f"fam{k}")
                continue
            try:
                acc_ = _c17.accepted_set(repo, um, pf, pf.args.args[0].arg, _c17.U)
                okf, why = _c17.family_ok(acc_, k)
                accs_[k] = acc_
                ctx.decide(okf, "R-INTERVAL/eflag-family", f"bromelia.utils.is_result_code_family_{k}xxx", f"{um.rel}:{pf.lineno}",
                           f"accepts exactly [{1000*k+1},{1000*k+999}]",
                           f"the predicate that decides the error flag accepts {acc_}, not exactly [{1000*k+1},{1000*k+999}] ({why}): answers whose "
                           f"Result-Code is outside the 3xxx/4xxx/5xxx families leave the route with the E flag set (or failures without it)",
                           key=f"fam{k}")
            except _c17.Undecidable as e:
                cex = _c17.witness_refute(repo, um, pf, pf.args.args[0].arg, k)
                if cex is not None:
                    ctx.violate("R-INTERVAL/eflag-family", f"bromelia.utils.is_result_code_family_{k}xxx", f"{um.rel}:{pf.lineno}",
                                f"the predicate that decides the error flag answers {cex[1]} for Result-Code {cex[0]}", key=f"fam{k}")
                else:
                    ctx.undecided("R-INTERVAL/eflag-family", f"bromelia.utils.is_result_code_family_{k}xxx", f"{um.rel}:{pf.lineno}",
                                  f"cannot normalise: {e}", key=f"fam{k}")
            af = um.funcs.get(f"is_{k}xxx_failure")
            if af is not None and k in accs_:
                _c17._answer_pred(ctx, repo, um, af, k, accs_)
        sym_ok = all(repo.resolve(m, f"is_{k}xxx_failure") is not None and repo.resolve(m, f"is_{k}xxx_failure").mod.name == "bromelia.utils"
                     for k in (3, 4, 5))
        ctx.decide(sym_ok, "R-TABLE/eflag-predicates", construct, where, "family predicates resolve to bromelia.utils",
                   "is_3xxx/4xxx/5xxx_failure do not resolve to bromelia.utils", key="resolve", nontrivial=False)
        n_rows = 0
        from .. import sym as _se
        from ..astutil import strip_doc as _sd
        AT_, RT_ = _se.S(A), _se.S(R)
        for f3, f4, f5, ise in itertools.product((False, True), repeat=4):
            other_used = []

            def hook(t, f3=f3, f4=f4, f5=f5, ise=ise, other_used=other_used):
                if isinstance(t, tuple) and t and t[0] == "call" and t[2] == (AT_,) and isinstance(t[1], tuple) and t[1][0] == "name":
                    nm = t[1][1]
                    if nm == "is_3xxx_failure":
                        return f3
                    if nm == "is_4xxx_failure":
                        return f4
                    if nm == "is_5xxx_failure":
                        return f5
                if t == ("call", ("attr", ("attr", AT_, "header"), "is_error"), (), ()):
                    return ise
                # the same decision written on the integer predicates (a helper that decodes the Result-Code once):
                # is_result_code_family_Kxxx(<integer of answer.result_code_avp.data>) is the K family atom for an answer that
                # carries a Result-Code; the presence test is true on the rows where a family is assumed
                if isinstance(t, tuple) and t and t[0] == "call" and isinstance(t[1], tuple) and t[1][0] == "name" and len(t[2]) == 1 \
                        and t[1][1] in ("is_result_code_family_3xxx", "is_result_code_family_4xxx", "is_result_code_family_5xxx") \
                        and "result_code_avp" in _se.show(t[2][0]):
                    return {"3": f3, "4": f4, "5": f5}[t[1][1][-4]]
                if t == ("call", ("attr", AT_, "has_avp"), ("result_code_avp",), ()) and (f3 or f4 or f5):
                    return True
                return None
            try:
                ps_ = _se.Interp(hook=hook, log_calls=True).run(_sd(fn.body), _se.PathState({A: AT_, R: RT_}, [], []))
            except _se.TooMany:
                ctx.undecided("R-DOM/eflag", construct, where, "too many paths", key="paths")
                break
            for p_ in ps_:
                n_rows += 1
                sets = [e[1][2] for e in p_.effects if e[0] == "ecall" and isinstance(e[1], tuple) and e[1][0] == "call"
                        and e[1][1] == ("attr", ("attr", AT_, "header"), "set_error_bit")]
                args = [a_[0] if a_ else None for a_ in sets]
                want = (f3 or f4 or f5) and not ise
                case = f"3xxx={f3},4xxx={f4},5xxx={f5},E_already={ise}"
                if want:
                    ok = args == [True]
                    bad = f"{case}: the E flag must be set exactly once, set_error_bit calls: {args}"
                elif (f3 or f4 or f5) and ise:
                    ok = args == []
                    bad = (f"{case}: set_error_bit(True) is called although the E flag is already set - the setter raises "
                           f"DiameterHeaderError('E-bit was already set') and no answer is sent")
                else:
                    ok = args == []
                    bad = f"{case}: the E flag is changed ({args}) although the Result-Code is in no failure family"
                ctx.decide(ok, "R-DOM/eflag", construct, where, f"{case}: ok", bad, key=case)
        ctx.count("eflag_table_rows", n_rows)
        # no other family predicate participates
        other = [call_name(c) for c in fn_calls(fn) if isinstance(c.func, ast.Name) and c.func.id.startswith("is_")
                 and "xxx" in c.func.id and c.func.id not in ("is_3xxx_failure", "is_4xxx_failure", "is_5xxx_failure",
                                                               "is_result_code_family_3xxx", "is_result_code_family_4xxx",
                                                               "is_result_code_family_5xxx")]
        ctx.decide(not other, "R-DOM/eflag", construct, where, "only the 3xxx/4xxx/5xxx predicates drive the E flag",
                   f"other family predicates {other} take part in the E-flag decision", key="other_families", nontrivial=False)

    if "rcremoval" in prop_rules:
        ctx.clause = "4-result-code-removal"
        from .. import sym as _sr
        from ..astutil import strip_doc as _sd2
        AT2, RT2 = _sr.S(A), _sr.S(R)
        for er, rc in itertools.product((False, True), repeat=2):
            def hook(t, er=er, rc=rc):
                if t == ("call", ("attr", AT2, "has_avp"), ("experimental_result_avp",), ()):
                    return er
                if t == ("call", ("attr", AT2, "has_avp"), ("result_code_avp",), ()):
                    return rc
                return None
            try:
                ps_ = _sr.Interp(hook=hook, log_calls=True).run(_sd2(fn.body), _sr.PathState({A: AT2, R: RT2}, [], []))
            except _sr.TooMany:
                ctx.undecided("R-DOM/rc-removal", construct, where, "too many paths", key="paths")
                break
            for p_ in ps_:
                pops = [repr(e[1][2][0]) for e in p_.effects if e[0] == "ecall" and isinstance(e[1], tuple) and e[1][0] == "call"
                        and e[1][1] == ("attr", AT2, "pop") and e[1][2]]
                case = f"experimental_result={er},result_code={rc}"
                want = ["'result_code_avp'"] if (er and rc) else []
                ctx.decide(pops == want, "R-DOM/rc-removal", construct, where, f"{case}: ok",
                           f"{case}: pop calls {pops}, expected {want} (a Result-Code must never be sent alongside an "
                           f"Experimental-Result, and nothing may be removed otherwise)", key=case)

    if "rcremoval" in prop_rules and "eflag" in prop_rules:
        ctx.clause = "4-result-code-removal"
        # the E flag is decided from the Result-Code the handler supplied: the family predicates must be evaluated before
        # the Result-Code can be removed on the same path
        bad = None
        for p in enum_paths(fn.body, loops="skip"):
            pop_i = None
            for i, e in enumerate(p.events):
                node = e[1] if e[0] in ("stmt", "cond") else None
                if node is None:
                    continue
                txt = ast.unparse(node)
                if e[0] == "stmt" and f"{A}.pop('result_code_avp')" in txt and pop_i is None:
                    pop_i = i
                if pop_i is not None and i > pop_i and any(f"is_{k}xxx_failure({A})" in txt for k in (3, 4, 5)):
                    bad = node
        ctx.decide(bad is None, "R-ORDER/eflag-before-removal", construct, where,
                   "the failure-family predicates read the Result-Code before it can be removed",
                   "on some path `answer.pop('result_code_avp')` runs before the 3xxx/4xxx/5xxx predicates are evaluated: with an "
                   "Experimental-Result present the predicates no longer see the handler's Result-Code and an error answer leaves "
                   "without the E flag", key="order")

    if "attrguard" in prop_rules:
        ctx.clause = "5-attribute-guard"
        bad = attribute_guard_violations(fn, {A, R})
        reads = [n for n in ast.walk(fn) if isinstance(n, ast.Attribute) and isinstance(n.value, ast.Name)
                 and n.value.id in (A, R) and n.attr.endswith("_avp") and n.attr != "has_avp"]
        ctx.count("dynamic_attribute_reads", len(reads))
        seen = set()
        for (obj, attr, line), n in sorted(bad.items()):
            if (obj, attr) in seen:
                continue
            seen.add((obj, attr))
            ctx.violate("R-DOM/attr-guard", construct, f"{m.rel}:{line}",
                        f"`{obj}.{attr}` is read without a dominating `{obj}.has_avp('{attr}')` on the same object: when the "
                        f"{'answer' if obj == A else 'request'} lacks that AVP the read raises AttributeError and no answer is sent",
                        key=f"{obj}.{attr}")
        for n in reads:
            k = (n.value.id, n.attr)
            if k not in seen:
                seen.add(k)
                ctx.hold("R-DOM/attr-guard", construct, f"{m.rel}:{n.lineno}", f"`{n.value.id}.{n.attr}` guarded by has_avp",
                         key=f"{n.value.id}.{n.attr}")


def check(ctx):
    analyse_decorate(ctx, ctx.repo, {"identifiers", "session", "eflag", "rcremoval", "attrguard"})
    # pop keeps the length in step (C11 clause 4, shared)
    repo = ctx.repo
    ctx.clause = "4-result-code-removal"
    msg = ctx.need(repo.cls("bromelia.base.DiameterMessage"), "DiameterMessage")
    pop = ctx.need(msg.methods.get("pop"), "DiameterMessage.pop")
    src = ast.unparse(pop)
    ctx.decide("self.header.length =" in src and "get_length()" in src and "get_padding_length()" in src,
               "R-SIB/pop-length", f"{msg.qual}.pop", msg.where(pop), "pop subtracts length + padding from the Message Length",
               "DiameterMessage.pop does not update the Message Length by the removed AVP's length + padding", key="pop_len")
    ctx.clause = "3-error-flag"
    _copy_is_independent(ctx, repo, msg)
    # the Message Length refreshed after the Session-Id was replaced counts get_padding_length() per AVP: it must be the padding
    # that dump() emits for the CURRENT data (shared with C01)
    ctx.clause = "2-session-id"
    from .c01 import padding_accessor
    padding_accessor(ctx, repo, ctx.need(repo.cls("bromelia.base.DiameterAVP"), "DiameterAVP"))


def _copy_is_independent(ctx, repo, msg):
    """decorate_answer writes identifiers, E bit and length INTO the header of the answer the handler returned.  Handlers stamp
    answers out of templates with DiameterMessage.copy(): the copy must not share its header (nor any other mutable part) with
    the template, or what one answer sets (the E bit is only ever set, never cleared) shows up in every later one."""
    from .. import sym as _sy
    from ..astutil import strip_doc
    cp = msg.methods.get("copy")
    if cp is None:
        return
    ok, shown = True, []
    n = 0
    for p_ in _sy.Interp(log_calls=True).run(strip_doc(cp.body), _sy.PathState({}, [], [])):
        if p_.term != "return":
            continue
        n += 1
        v = p_.value
        shown.append(_sy.show(v)[:60])
        whole = isinstance(v, tuple) and v and v[0] == "call" and _sy.show(v[1]) in ("deepcopy", "copy.deepcopy") \
            and v[2] == (("name", "self"),)
        if whole:
            continue
        # built by hand: the header given to the result must itself be a deep copy of this message's header
        hdr_ok = False
        for e in p_.effects:
            if e[0] in ("storeattr", "store", "setitem"):
                txt = " ".join(_sy.show(x) for x in e[1:] if isinstance(x, (tuple, str)))
                if "header" in txt and ("deepcopy(self.header)" in txt or "deepcopy(self._header)" in txt):
                    hdr_ok = True
        ok = ok and hdr_ok
    ctx.decide(ok and n > 0, "R-ALIAS/copy-independent", f"{msg.qual}.copy", msg.where(cp),
               "copy() returns a deep copy: template and copy share no header",
               f"DiameterMessage.copy() returns {shown}: the copy is not a deep copy of the message, its header (and every attribute that "
               f"is not re-created) is the template's own object - decorate_answer then writes the request's identifiers, the length and "
               f"the E bit into the shared header, so an error flag set for one answer stays set in the template and in every later "
               f"copy, including success answers", key="copy")
