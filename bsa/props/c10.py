"""C10 - the AVP dictionary is unambiguous and every class enforces its declared type."""
import ast
import json
import os
import re

from ..core import AnalysisError, VERIF
from ..loader import is_unknown, norm_stmt
from ..astutil import (fn_calls, call_name, kwarg, arg_or_kw, make_cfg, must_pass, witness_avoiding,
                       node_calls, header_exprs, walk_no_nested)
from .. import avpdict
from ..absval import WidthAnalysis, B, TOP

META = {
    "explanation": "Table analysis of every DiameterAVP subclass definition (code/vendor folding, uniqueness of "
                   "(vendor, code), constructor protocol V-flag<=>Vendor-ID<=>class vendor, declared type initialiser), "
                   "of the enumerations and grouped member tables, must-define/width analysis of every type "
                   "constructor and every parser_data implementation on all CFG paths, and agreement with the "
                   "published dictionary (docs/list-of-avps.md and the frozen wire identities).",
    "decided": ["shape of every dictionary class", "uniqueness of (vendor, code) over all definitions",
                "constructor protocol incl. V flag <=> vendor", "enumeration tables + membership dominance",
                "grouped tables + mandatory-member check dominance", "totality/width of type constructors",
                "published identity (docs + frozen reference)"],
    "not_decided": ["out-of-domain values inside an accepted Python type (ranges, URI grammar corner cases)"],
    "trusted_base": ["Python ast", "constant folder (bsa.loader.Repo.fold) incl. convert_to_N_bytes derived from its AST",
                     "reference/avp_identity.json frozen from the pinned tree after cross-reading docs"],
    "assumptions": ["AVP classes are registered through DiameterAVP.__subclasses__() (checked in C02 clause 4)"],
}

FIXED_WIDTH = {"Integer32Type": 4, "Unsigned32Type": 4, "Unsigned64Type": 8, "TimeType": 4,
               "EnumeratedType": 4, "Integer64Type": 8, "Float32Type": 4, "Float64Type": 8}
DOC_TYPE_MAP = {
    "UTF8String": {"UTF8StringType"}, "OctetString": {"OctetStringType"}, "Unsigned32": {"Unsigned32Type"},
    "Unsigned64": {"Unsigned64Type"}, "Integer32": {"Integer32Type"}, "Integer64": {"Unsigned64Type", "Integer64Type"},
    "Enumerated": {"EnumeratedType"}, "Grouped": {"GroupedType"}, "Time": {"TimeType"},
    "Address": {"AddressType"}, "DiameterIdentity": {"DiameterIdentityType"},
    "DiameterURI": {"DiameterURIType"}, "IPFilterRule": {"OctetStringType", "UTF8StringType"},
}


def _where(ci, node=None):
    return ci.where(node)


def writes_data(repo, stmt):
    """Does this simple statement store the AVP data field of self?"""
    if isinstance(stmt, ast.Assign):
        for t in stmt.targets:
            if isinstance(t, ast.Attribute) and isinstance(t.value, ast.Name) and t.value.id == "self" \
                    and t.attr in ("_data", "data"):
                return True
    return False


def mustdef_data(repo, ci, fn, depth=0, accept_calls=True):
    """True iff every normal path through fn stores self._data / self.data, directly or through a
    call to a parser_data implementation / a type initialiser that itself must-defines.
    Returns (ok, witness path text)."""
    cfg = make_cfg(repo, fn)

    def pred(n):
        if n.kind == "stmt" and writes_data(repo, n.ast):
            return True
        if not accept_calls or depth > 4:
            return False
        for c in node_calls(n):
            nm = call_name(c)
            if nm.endswith(".parser_data"):
                # totality of each parser_data implementation is its own obligation (clause 8, per
                # implementation); here the call counts as the defining step
                return True
            elif nm.endswith(".__init__") and nm != "DiameterAVP.__init__":
                owner = nm[:-len(".__init__")]
                sym = repo.resolve(ci.mod, owner)
                tci = repo.class_of_sym(sym)
                if tci and "__init__" in tci.methods:
                    ok, _ = mustdef_data(repo, tci, tci.methods["__init__"], depth + 1)
                    if ok:
                        return True
        return False

    ok = must_pass(cfg, pred)
    wit = None
    if not ok:
        wit = cfg.describe_path(witness_avoiding(cfg, pred))
    return ok, wit


def check(ctx):
    repo = ctx.repo
    base, rows = avpdict.avp_rows(repo)
    ctx.need(base, "class bromelia.base.DiameterAVP")
    ctx.floor("avp_class_definitions", len(rows), 200)
    tclasses = avpdict.type_classes(repo)
    ctx.floor("type_classes", len(tclasses), 11)
    tnames = {c.name for c in tclasses}

    # ---- clause 1/2: shape, code, vendor -------------------------------------
    ctx.clause = "1-shape"
    for r in rows:
        ci = r.ci
        ok = len(r.type_bases) == 1
        ctx.decide(ok, "R-TABLE/shape", ci.qual, _where(ci),
                   f"direct bases DiameterAVP + {r.type_bases[0].name if ok else '?'}",
                   f"needs exactly one type class from bromelia.types among the direct bases, found "
                   f"{[b.name for b in r.type_bases]}", key="bases", nontrivial=False)
    for ci in avpdict.indirect_avp_classes(repo):
        ctx.violate("R-TABLE/shape", ci.qual, _where(ci),
                    "class reaches DiameterAVP only through another class: DiameterAVP.__subclasses__() is not "
                    "transitive, so the decoder never dispatches (vendor, code) to it", key="indirect")
    ctx.clause = "2-code-vendor-width"
    for r in rows:
        ci = r.ci
        ok = isinstance(r.code, bytes) and len(r.code) == 4
        ctx.decide(ok, "R-WIDTH/code", ci.qual, _where(ci), f"code={r.code!r}",
                   f"class attribute `code` does not fold to 4 bytes: {r.code!r}", key="code")
        okv = (r.vendor is None) or (isinstance(r.vendor, bytes) and len(r.vendor) == 4)
        ctx.decide(okv, "R-WIDTH/vendor", ci.qual, _where(ci), f"vendor_id={r.vendor!r}",
                   f"class attribute `vendor_id` is neither None nor 4 bytes: {r.vendor!r}", key="vendor_id")

    # ---- clause 3: uniqueness -------------------------------------------------
    ctx.clause = "3-uniqueness"
    seen = {}
    for r in rows:
        if not isinstance(r.code, bytes):
            continue
        k = (r.vendor if isinstance(r.vendor, bytes) else None, r.code)
        # the registry treats a falsy vendor as "no vendor"
        if k in seen:
            o = seen[k]
            ctx.violate("R-TABLE/unique", r.ci.qual, _where(r.ci),
                        f"(vendor, code)=({k[0].hex() if k[0] else None}, {int.from_bytes(k[1], 'big')}) is also "
                        f"defined by {o.ci.qual} at {o.ci.where()}: two live DiameterAVP subclasses share one "
                        f"dictionary slot", key=f"dup:{o.ci.qual}")
        else:
            seen[k] = r
            ctx.hold("R-TABLE/unique", r.ci.qual, _where(r.ci),
                     f"({k[0].hex() if k[0] else None},{int.from_bytes(k[1], 'big')}) unique so far", key="unique")

    # ---- clause 4/5: constructor protocol -----------------------------------------
    ctx.clause = "4-constructor-protocol"
    for r in rows:
        ci = r.ci
        if r.init is None:
            ctx.undecided("R-MUSTPASS/ctor", ci.qual, _where(ci), "no own __init__", key="init")
            continue
        cc = avpdict.ctor_calls(r)
        vendor_specific = isinstance(r.vendor, bytes)
        cfg = make_cfg(repo, r.init)
        # (a) base initialiser present on all paths, names the class's own code/vendor
        if not cc["base_init"]:
            ctx.undecided("R-MUSTPASS/ctor", ci.qual, _where(ci, r.init),
                          "no DiameterAVP.__init__(self, ...) call recognised", key="base_init")
            continue
        bi = cc["base_init"][0]
        on_all = must_pass(cfg, lambda n: any(c is bi for c in node_calls(n)))
        ctx.decide(on_all, "R-MUSTPASS/ctor", ci.qual, _where(ci, bi), "DiameterAVP.__init__ on every path",
                   "DiameterAVP.__init__ is not executed on every path of the constructor", key="base_init_all_paths")
        args = [a for a in bi.args if not (isinstance(a, ast.Name) and a.id == "self")]
        code_arg = args[0] if args else kwarg(bi, "code")
        vend_arg = args[1] if len(args) > 1 else kwarg(bi, "vendor_id")
        own = {f"{ci.name}.code", "self.code", "type(self).code", "self.__class__.code"}
        code_v = repo.fold(ci.mod, code_arg) if code_arg is not None else None
        ok = code_arg is not None and (ast.unparse(code_arg) in own or (isinstance(code_v, bytes) and code_v == r.code))
        ctx.decide(ok, "R-TABLE/ctor-code", ci.qual, _where(ci, bi), "base initialiser receives own code",
                   f"DiameterAVP.__init__ receives `{ast.unparse(code_arg) if code_arg is not None else None}` "
                   f"which is not this class's code {r.code!r}", key="ctor_code")
        if vendor_specific:
            vv = None
            if vend_arg is not None:
                txt = ast.unparse(vend_arg)
                if txt in {f"{ci.name}.vendor_id", "self.vendor_id", "type(self).vendor_id"}:
                    vv = r.vendor
                else:
                    vv = repo.fold(ci.mod, vend_arg)
            ctx.decide(vv == r.vendor, "R-TABLE/ctor-vendor", ci.qual, _where(ci, bi),
                       "base initialiser receives own vendor",
                       f"vendor-specific class but DiameterAVP.__init__ receives vendor "
                       f"`{ast.unparse(vend_arg) if vend_arg is not None else None}` (class vendor {r.vendor!r}): "
                       f"V flag / Vendor-ID field disagree with the class", key="ctor_vendor")
        else:
            ctx.decide(vend_arg is None or repo.fold(ci.mod, vend_arg) is None, "R-TABLE/ctor-vendor", ci.qual,
                       _where(ci, bi), "no vendor passed",
                       "class is not vendor-specific but passes a vendor to DiameterAVP.__init__", key="ctor_vendor")
        # (b) V bit iff vendor-specific
        flags = avpdict.default_flags(r)
        vcalls = [c for n, c in cc["flag"] if n == "set_vendor_id_bit"]
        if vendor_specific:
            okv = flags["set_vendor_id_bit"] and all(
                must_pass(cfg, lambda n, c=c: any(x is c for x in node_calls(n))) for c in vcalls)
            ctx.decide(okv, "R-DOM/vbit", ci.qual, _where(ci, r.init), "V bit set on every path",
                       "vendor-specific class does not set the V bit on every constructor path: the AVP is "
                       "serialised with a Vendor-ID field (or without) in disagreement with its flag", key="vbit")
        else:
            ctx.decide(not vcalls, "R-DOM/vbit", ci.qual, _where(ci, r.init), "V bit never set",
                       "class without vendor sets the V bit", key="vbit")
        # each flag set at most once, after the base initialiser (flags start from 0)
        names = [n for n, _ in cc["flag"]]
        dup = {n for n in names if names.count(n) > 1}
        order_ok = all((c.lineno, c.col_offset) > (bi.lineno, bi.col_offset) for _, c in cc["flag"])
        ctx.decide(not dup and order_ok, "R-MUSTPASS/flag-order", ci.qual, _where(ci, r.init),
                   "flag setters follow the base initialiser, each at most once",
                   f"flag setters duplicated ({sorted(dup)}) or before DiameterAVP.__init__ (which resets flags)",
                   key="flag_order")
        # (c) type initialiser = declared type base, after base init, vendor kw iff vendor-specific
        tis = [(n, c) for n, c in cc["type_init"] if n in tnames]
        if r.type_cls is None:
            continue
        if not tis:
            ctx.undecided("R-MUSTPASS/ctor", ci.qual, _where(ci, r.init),
                          "no <Type>.__init__(self, ...) call recognised", key="type_init")
            continue
        tn, tc = tis[-1]
        declared = r.type_cls
        called = repo.class_of_sym(repo.resolve(ci.mod, tn))
        ok = called is declared
        if not ok and called is not None and called in declared.mro():
            # skipped initialisers must be pure delegations
            ok = True
            for k in declared.mro():
                if k is called:
                    break
                ini = k.methods.get("__init__")
                if ini is not None and not _pure_delegation(ini):
                    ok = False
        ctx.decide(ok, "R-TABLE/type-init", ci.qual, _where(ci, tc),
                   f"type initialiser {tn}.__init__ matches declared base {declared.name}",
                   f"constructor calls {tn}.__init__ but the class declares {declared.name}: the declared type's "
                   f"validation is bypassed", key="type_init")
        on_all = must_pass(cfg, lambda n: any(c is tc for c in node_calls(n)))
        after = (tc.lineno, tc.col_offset) > (bi.lineno, bi.col_offset)
        ctx.decide(on_all and after, "R-MUSTPASS/type-init", ci.qual, _where(ci, tc),
                   "type initialiser on every path, after the base initialiser",
                   "type initialiser skipped on some path or executed before DiameterAVP.__init__ (which resets data)",
                   key="type_init_paths")
        vkw = kwarg(tc, "vendor_id")
        if vkw is None:
            a2 = [a for a in tc.args if not (isinstance(a, ast.Name) and a.id == "self")]
            vkw = a2[1] if len(a2) > 1 else None
        if vendor_specific:
            vv = repo.fold(ci.mod, vkw) if vkw is not None else None
            if vkw is not None and ast.unparse(vkw) in {f"{ci.name}.vendor_id", "self.vendor_id"}:
                vv = r.vendor
            ctx.decide(vv == r.vendor, "R-TABLE/type-vendor", ci.qual, _where(ci, tc),
                       "type initialiser receives the class vendor",
                       f"vendor-specific class passes vendor_id={ast.unparse(vkw) if vkw is not None else None} to "
                       f"{tn}.__init__ (class vendor {r.vendor!r}): Vendor-ID field/length disagree with the class",
                       key="type_vendor")
        else:
            ctx.decide(vkw is None or repo.fold(ci.mod, vkw) is None, "R-TABLE/type-vendor", ci.qual, _where(ci, tc),
                       "no vendor passed to type initialiser",
                       "class without vendor passes a vendor to its type initialiser", key="type_vendor")

    # ---- clause 6: enumerations ------------------------------------------------
    ctx.clause = "6-enumerations"
    enum_t = repo.cls("bromelia.types.EnumeratedType")
    ctx.need(enum_t, "bromelia.types.EnumeratedType")
    n_enum = 0
    for r in rows:
        if r.type_cls is not enum_t:
            continue
        n_enum += 1
        vals = avpdict.fold_values(repo, r)
        if vals is None:
            ctx.violate("R-TABLE/enum", r.ci.qual, _where(r.ci), "Enumerated class defines no `values` table",
                        key="values")
            continue
        if is_unknown(vals) or not isinstance(vals, (list, tuple)):
            ctx.undecided("R-TABLE/enum", r.ci.qual, _where(r.ci), f"`values` does not fold: {vals}", key="values")
            continue
        bad = [v for v in vals if not (isinstance(v, bytes) and len(v) == 4)]
        ctx.decide(not bad and len(vals) > 0, "R-TABLE/enum", r.ci.qual, _where(r.ci),
                   f"{len(vals)} enumerators of 4 bytes", f"enumerators not 4 bytes wide or empty: {bad[:3]}",
                   key="values")
    ctx.floor("enumerations", n_enum, 50)
    ini = enum_t.methods.get("__init__")
    ctx.need(ini, "EnumeratedType.__init__")
    _enum_dominance(ctx, repo, enum_t, ini)

    # ---- clause 7: grouped ----------------------------------------------------------
    ctx.clause = "7-grouped"
    grp_t = repo.cls("bromelia.types.GroupedType")
    ctx.need(grp_t, "bromelia.types.GroupedType")
    row_by_ci = {id(r.ci): r for r in rows}
    n_grp = 0
    for r in rows:
        if r.type_cls is not grp_t:
            continue
        n_grp += 1
        for tname in ("mandatory", "optionals"):
            t = avpdict.table(repo, r.ci, tname)
            if t is None:
                ctx.violate("R-TABLE/grouped", r.ci.qual, _where(r.ci), f"no `{tname}` table", key=tname)
                continue
            if t == "NOT_DICT":
                ctx.undecided("R-TABLE/grouped", r.ci.qual, _where(r.ci), f"`{tname}` is not a dict literal", key=tname)
                continue
            bad = [k for k, (v, c) in t.items() if c is None or id(c) not in row_by_ci]
            ctx.decide(not bad, "R-TABLE/grouped", r.ci.qual, _where(r.ci),
                       f"{tname}: {len(t)} members resolve to dictionary classes",
                       f"{tname} members {bad} do not resolve to dictionary classes", key=tname,
                       nontrivial=bool(t))
    ctx.floor("grouped_classes", n_grp, 30)
    _grouped_dominance(ctx, repo, grp_t)

    # ---- clause 8: totality + widths ------------------------------------------------
    ctx.clause = "8-totality-width"
    impls = []
    for ci in repo.classes:
        if "parser_data" in ci.methods and (ci in tclasses or base in ci.mro()):
            impls.append(ci)
    ctx.floor("parser_data_implementations", len(impls), 8)
    for ci in impls:
        fn = ci.methods["parser_data"]
        ok, wit = mustdef_data(repo, ci, fn, accept_calls=False)
        ctx.decide(ok, "R-MUSTDEF/_data", f"{ci.qual}.parser_data", _where(ci, fn),
                   "every normal exit has stored the data field",
                   f"a normal exit is reachable without storing the data field (path {wit}): a value of an "
                   f"unhandled Python type silently yields an empty/stale AVP", key="parser_data", witness=wit)
    for ci in tclasses:
        ini = ci.methods.get("__init__")
        if ini is None:
            continue
        ok, wit = mustdef_data(repo, ci, ini)
        ctx.decide(ok, "R-MUSTDEF/_data", f"{ci.qual}.__init__", _where(ci, ini),
                   "every normal exit has stored the data field",
                   f"constructor can return without storing the data field (path {wit})", key="__init__", witness=wit)
    # widths
    for ci in tclasses:
        w = FIXED_WIDTH.get(ci.name)
        if w is None:
            continue
        sites = 0
        for fname in ("parser_data", "__init__"):
            fn = ci.methods.get(fname)
            if fn is None:
                continue
            wa = WidthAnalysis(repo, ci.mod, fn)
            for n, expr, val in wa.stores_to(("_data", "data")):
                sites += 1
                ctx.decide(val == B(w), "R-WIDTH/_data", f"{ci.qual}.{fname}", _where(ci, n.ast),
                           f"stored value has width {w}",
                           f"value stored into the data field has abstract width {val} instead of {w} octets",
                           key=n.ast)
            # delegation to another initialiser with the data argument
            for n in wa.cfg.nodes.values():
                if wa.IN.get(n.id) is None:
                    continue
                for c in node_calls(n):
                    nm = call_name(c)
                    if nm.endswith(".__init__") and nm[:-9] in tnames:
                        args = [a for a in c.args if not (isinstance(a, ast.Name) and a.id == "self")]
                        d = kwarg(c, "data") or (args[0] if args else None)
                        if d is None:
                            continue
                        callee = repo.cls(f"bromelia.types.{nm[:-9]}")
                        if callee is not None and callee.name in FIXED_WIDTH and FIXED_WIDTH[callee.name] == w \
                                and callee is not ci:
                            sites += 1
                            ctx.hold("R-WIDTH/_data", f"{ci.qual}.{fname}", _where(ci, c),
                                     f"delegates to {callee.name} (width {w} checked there)", key=c)
                            continue
                        val = wa.value_at(n, d)
                        sites += 1
                        ctx.decide(val == B(w), "R-WIDTH/_data", f"{ci.qual}.{fname}", _where(ci, c),
                                   f"value handed to {nm} has width {w}",
                                   f"value handed to {nm} has abstract width {val} instead of {w} octets", key=c)
        if sites == 0:
            ctx.undecided("R-WIDTH/_data", ci.qual, _where(ci), "no store site found for fixed-width type", key="sites")
    _address_uri(ctx, repo)

    # ---- clause 3b: decoding dispatches (vendor, code) to that class (registry writer/reader, shared with C02 clause 4) ----
    ctx.clause = "3b-dispatch"
    from .c02 import _registry
    _registry(ctx, repo)
    _fallback_only_for_unknown(ctx, repo)
    # Time: every instant that fits the 32-bit field is accepted and nothing else is folded into it (the rules of C20 for the
    # Time type, which C10's "encode that value or fail" clause depends on)
    ctx.clause = "8c-time-domain"
    from .c20 import _time as _time20
    _time20(ctx, repo, repo.mods.get("bromelia.types"))

    # ---- clause 9: published identity -------------------------------------------------
    ctx.clause = "9-published-identity"
    _docs(ctx, repo, rows)
    _reference(ctx, repo, rows)


def _fallback_only_for_unknown(ctx, repo):
    """DiameterAVP.load falls back to a generic AVP only when the (vendor, code) pair is NOT in the dictionary: the handler that
    keeps the raw AVP may catch the registry miss (KeyError) and nothing else - a dictionary class that refuses the value
    (DataTypeError, AVPAttributeValueError ...) must reject the stream, not be by-passed."""
    avp = ctx.need(repo.cls("bromelia.base.DiameterAVP"), "DiameterAVP")
    ld = ctx.need(avp.methods.get("load"), "DiameterAVP.load")
    n_try = 0
    for t in [n for n in walk_no_nested(ld) if isinstance(n, ast.Try)]:
        if not any(isinstance(c, ast.Call) and call_name(c).endswith("get_avp_class") for b in t.body for c in ast.walk(b)):
            continue
        n_try += 1
        for h in t.handlers:
            falls_back = not any(isinstance(x, ast.Raise) for b in h.body for x in ast.walk(b))
            if not falls_back:
                continue
            names = []
            if h.type is None:
                names = ["BaseException"]
            else:
                for e in (h.type.elts if isinstance(h.type, ast.Tuple) else [h.type]):
                    r_ = repo.resolve(avp.mod, e.id) if isinstance(e, ast.Name) else None
                    if r_ is not None and r_.kind == "const" and isinstance(r_.node, ast.Tuple):
                        names += [ast.unparse(x).split(".")[-1] for x in r_.node.elts]
                    else:
                        names.append(ast.unparse(e).split(".")[-1])
            extra = sorted(n for n in names if n not in ("KeyError", "LookupError"))
            ctx.decide(not extra, "R-ESC/dispatch-fallback", f"{avp.qual}.load", avp.where(h),
                       "the generic-AVP fallback is taken only for a registry miss (KeyError)",
                       f"the handler that keeps the AVP as a generic DiameterAVP also catches {extra}: a known (vendor, code) whose "
                       f"dictionary class refuses the value (wrong width, bad grammar, value not enumerated) is no longer rejected but "
                       f"decoded as an untyped AVP carrying the malformed data - the class no longer enforces its type on decode",
                       key="fallback_types")
    if n_try == 0:
        # no handler around the dispatch: nothing a dictionary class raises can be swallowed here
        ctx.hold("R-ESC/dispatch-fallback", f"{avp.qual}.load", avp.where(ld), "the dispatch is not wrapped by a handler", key="fallback_types",
                 nontrivial=False)


def _pure_delegation(fn):
    body = [s for s in fn.body if not (isinstance(s, ast.Expr) and isinstance(s.value, ast.Constant))]
    return len(body) == 1 and isinstance(body[0], ast.Expr) and isinstance(body[0].value, ast.Call) \
        and call_name(body[0].value).endswith(".__init__")


def _enum_dominance(ctx, repo, enum_t, ini):
    """raise on non-membership dominates the store (delegation to Integer32Type.__init__)."""
    cfg = make_cfg(repo, ini)
    dom = cfg.dominators()
    deleg = [n for n in cfg.nodes.values() if any(call_name(c).endswith(".__init__") for c in node_calls(n))]
    tests = []
    for n in cfg.nodes.values():
        if n.kind == "test" and isinstance(n.ast, ast.Compare) and len(n.ast.ops) == 1 \
                and isinstance(n.ast.ops[0], (ast.NotIn, ast.In)):
            comp = ast.unparse(n.ast.comparators[0])
            left = ast.unparse(n.ast.left)
            if comp in ("self.values", "type(self).values", "self.__class__.values") and left == "data":
                tests.append(n)
    if not deleg:
        ctx.undecided("R-DOM/enum-membership", f"{enum_t.qual}.__init__", enum_t.where(ini),
                      "no delegation to the integer initialiser found", key="deleg")
        return
    ok = False
    for t in tests:
        notin = isinstance(t.ast.ops[0], ast.NotIn)
        # the branch on which data is NOT a member must not reach the delegation
        bad_label = "T" if notin else "F"
        bad_succ = [m for m, l in cfg.succ[t.id] if l == bad_label]
        reach = set()
        for b in bad_succ:
            reach |= cfg.reachable(b)
        if all(t.id in dom[d.id] for d in deleg) and not any(d.id in reach for d in deleg):
            ok = True
    ctx.decide(ok, "R-DOM/enum-membership", f"{enum_t.qual}.__init__", enum_t.where(ini),
               "membership test in `values` dominates the store; non-members raise",
               "EnumeratedType.__init__ can store a value that is not in `values` (membership test missing, "
               "not dominating, or not raising)", key="membership")


def _grouped_dominance(ctx, repo, grp_t):
    ini = grp_t.methods.get("__init__")
    ctx.need(ini, "GroupedType.__init__")
    cfg = make_cfg(repo, ini)
    # a test mentioning issubset / mandatory codes whose failing branch raises, reached on every normal path
    # when self.mandatory is non-empty
    found = False
    for n in cfg.nodes.values():
        if n.kind != "test":
            continue
        txt = ast.unparse(n.ast)
        if "issubset" in txt or "mandatory" in txt and ("<=" in txt or "all(" in txt):
            if "issubset" in txt or "all(" in txt or "<=" in txt:
                neg = isinstance(n.ast, ast.UnaryOp) and isinstance(n.ast.op, ast.Not)
                lab = "T" if neg else "F"
                tgt = [m for m, l in cfg.succ[n.id] if l == lab]
                raises = all(_leads_to_raise(cfg, m) for m in tgt) and bool(tgt)
                if raises:
                    found = True
    # guard `if self.mandatory:` must be on every path
    guard = [n for n in cfg.nodes.values() if n.kind == "test" and ast.unparse(n.ast) in
             ("self.mandatory", "self.mandatory != {}", "len(self.mandatory) > 0", "bool(self.mandatory)")]
    on_all = bool(guard) and must_pass(cfg, lambda x: x in guard) or (found and not guard)
    ctx.decide(found and on_all, "R-DOM/grouped-mandatory", f"{grp_t.qual}.__init__", grp_t.where(ini),
               "missing mandatory member raises on every path",
               "GroupedType.__init__ does not raise on every path when a mandatory member code is absent",
               key="mandatory_check")


def _leads_to_raise(cfg, nid, limit=6):
    """The straight-line successor chain from nid ends in a raise (no normal continuation)."""
    seen = set()
    cur = nid
    for _ in range(limit):
        n = cfg.nodes[cur]
        if n.kind == "stmt" and isinstance(n.ast, ast.Raise):
            return True
        nxt = [m for m, l in cfg.succ.get(cur, []) if l not in ("exc", "excp")]
        if len(nxt) != 1 or cur in seen:
            return False
        seen.add(cur)
        cur = nxt[0]
    return False


def _address_uri(ctx, repo):
    at = repo.cls("bromelia.types.AddressType")
    ut = repo.cls("bromelia.types.DiameterURIType")
    ctx.need(at, "AddressType")
    ctx.need(ut, "DiameterURIType")
    # DiameterURI: store dominated by a fullmatch test whose failing branch raises
    fn = ut.methods.get("parser_data") or ut.methods.get("__init__")
    ctx.need(fn, "DiameterURIType.parser_data")
    cfg = make_cfg(repo, fn)
    dom = cfg.dominators()
    stores = [n for n in cfg.nodes.values() if n.kind == "stmt" and writes_data(repo, n.ast)]
    tests = [n for n in cfg.nodes.values() if n.kind == "test" and "fullmatch" in ast.unparse(n.ast)]
    ok = bool(stores) and bool(tests)
    for s in stores:
        good = False
        for t in tests:
            neg = isinstance(t.ast, ast.UnaryOp) and isinstance(t.ast.op, ast.Not)
            lab = "T" if neg else "F"
            bad = [m for m, l in cfg.succ[t.id] if l == lab]
            reach = set()
            for b in bad:
                reach |= cfg.reachable(b)
            if t.id in dom[s.id] and s.id not in reach:
                good = True
        ok = ok and good
    ctx.decide(ok, "R-DOM/uri-grammar", f"{ut.qual}.{fn.name}", ut.where(fn),
               "store of the URI is dominated by a successful fullmatch",
               "DiameterURI data can be stored without passing the grammar check (re.fullmatch)", key="fullmatch")
    # the pattern must require the aaa / aaas scheme
    # (the pattern is the first argument of every fullmatch call: a literal, a module constant or a local bound once)
    pats = []
    for c_ in ast.walk(fn):
        if isinstance(c_, ast.Call) and ast.unparse(c_.func).endswith("fullmatch") and c_.args:
            a0 = c_.args[0]
            if isinstance(a0, ast.Name):
                binds = [n for n in ast.walk(fn) if isinstance(n, ast.Assign) and any(
                    isinstance(t, ast.Name) and t.id == a0.id for t in n.targets)]
                if len(binds) == 1:
                    a0 = binds[0].value
            pats.append(ast.copy_location(ast.Assign(targets=[ast.Name(id="pattern", ctx=ast.Store())], value=a0), c_))
    if not pats:
        ctx.undecided("R-TABLE/uri-scheme", f"{ut.qual}.{fn.name}", ut.where(fn), "no fullmatch call with a pattern argument", key="scheme")
    for pat_ in pats:
        pats = [pat_]
        v = repo.fold(ut.mod, pats[-1].value)
        if isinstance(v, str):
            ctx.decide(v.startswith("aaa") and "://" in v[:14], "R-TABLE/uri-scheme", f"{ut.qual}.{fn.name}",
                       ut.where(pats[-1]), "pattern anchored on the aaa/aaas scheme",
                       f"URI pattern does not start with the aaa/aaas scheme: {v[:30]!r}", key="scheme")
            try:
                ok = _scheme_set(v)
                ctx.decide(ok, "R-TABLE/uri-scheme", f"{ut.qual}.{fn.name}", ut.where(pats[-1]),
                           "scheme prefix accepts exactly aaa:// and aaas://",
                           "scheme prefix of the URI pattern accepts something other than aaa:// / aaas://",
                           key="scheme_exact")
            except Exception:   # noqa
                pass
        else:
            ctx.undecided("R-TABLE/uri-scheme", f"{ut.qual}.{fn.name}", ut.where(pats[-1]),
                          "pattern does not fold to a string", key="scheme")
    # Address: str path stores family + packed; bytes path parses before storing
    fn = at.methods.get("parser_data")
    ctx.need(fn, "AddressType.parser_data")
    src = ast.unparse(fn)
    cfg = make_cfg(repo, fn)
    stores = [n for n in cfg.nodes.values() if n.kind == "stmt" and writes_data(repo, n.ast)]
    ctx.decide(bool(stores), "R-MUSTDEF/_data", f"{at.qual}.parser_data", at.where(fn), "store present",
               "AddressType.parser_data never stores data", key="store", nontrivial=False)
    # family-coded bytes are validated: for each family constant compared with data[:2] there is an
    # ipaddress.IPvNAddress(data[2:]) call inside a handler that raises a library error
    from ._address import bytes_cases
    cases = bytes_cases(repo, at, fn)
    fam = {c: ["ipaddress." + v for v in (r["validators"] or [])] if r else [] for c, r in cases.items()}
    for const, want in ((b"\x00\x01", "ipaddress.IPv4Address"), (b"\x00\x02", "ipaddress.IPv6Address")):
        ctx.decide(const in fam and want in fam[const], "R-TABLE/address-family", f"{at.qual}.parser_data",
                   at.where(fn), f"family {const.hex()} bytes are parsed by {want}",
                   f"bytes with family code {const.hex()} are stored without being parsed by {want} "
                   f"(found {fam.get(const)})", key=f"family:{const.hex()}")
        r_ = cases.get(const)
        ctx.decide(r_ is not None and r_["rejects_with"] == {"DataTypeError"}, "R-ESC/address-family", f"{at.qual}.parser_data",
                   at.where(fn), f"family {const.hex()}: a parse failure raises DataTypeError",
                   f"family {const.hex()}: a failure of the address parse ends in {sorted(r_['rejects_with']) if r_ else None} instead of "
                   f"DataTypeError", key=f"reject:{const.hex()}")


def _scheme_set(pattern):
    """Accepts exactly {'aaa://','aaas://'} as prefixes: decided on the regex AST of the prefix."""
    import re._parser as sp
    idx = pattern.index("://") + 3
    prefix = pattern[:idx]
    tree = sp.parse(prefix)
    # enumerate the (finite) language of the prefix
    langs = [""]
    for op, av in tree:
        if op == sp.LITERAL:
            langs = [s + chr(av) for s in langs]
        elif op == sp.MAX_REPEAT:
            lo, hi, sub = av
            if hi > 3 or len(sub) != 1:
                return False
            sop, sav = sub[0]
            if sop == sp.LITERAL:
                alts = [chr(sav)]
            elif sop == sp.IN:
                alts = [chr(x[1]) for x in sav if x[0] == sp.LITERAL]
                if len(alts) != len(sav):
                    return False
            else:
                return False
            new = []
            for k in range(lo, hi + 1):
                exts = [""]
                for _ in range(k):
                    exts = [e + a for e in exts for a in alts]
                new += [s + e for s in langs for e in exts]
            langs = new
        elif op == sp.IN:
            alts = [chr(x[1]) for x in av if x[0] == sp.LITERAL]
            if len(alts) != len(av):
                return False
            langs = [s + a for s in langs for a in alts]
        else:
            return False
    return set(langs) == {"aaa://", "aaas://"}


ROW_RE = re.compile(r"^\|(\d+)\|`([^`]+)`\|(\d+)\|([A-Za-z0-9]+)\|([^|]*)\|([^|]*)\|\[([^\]]+)\]\(([^)]*)\)\|(\w+)\s*$")


def _docs(ctx, repo, rows):
    p = os.path.join(repo.root, "docs", "list-of-avps.md")
    if not os.path.exists(p):
        raise AnalysisError("anchor vanished: docs/list-of-avps.md")
    by_name = {}
    for r in rows:
        by_name.setdefault((r.module, r.name), []).append(r)
    n = 0
    for line in open(p, encoding="utf-8"):
        m = ROW_RE.match(line.strip())
        if not m:
            continue
        n += 1
        _, avpname, code, typ, _, _, path, _, cname = m.groups()
        mod = "bromelia." + path
        cands = by_name.get((mod, cname))
        construct = f"docs/list-of-avps.md:{avpname}"
        if not cands:
            ctx.violate("R-TABLE/docs", construct, "docs/list-of-avps.md",
                        f"published row names class {cname} in {mod}, which does not exist", key=cname)
            continue
        r = cands[-1]
        okc = isinstance(r.code, bytes) and int.from_bytes(r.code, "big") == int(code)
        ctx.decide(okc, "R-TABLE/docs", construct, "docs/list-of-avps.md", f"code {code} agrees with {cname}",
                   f"published code {code} but class {r.qual} has code "
                   f"{int.from_bytes(r.code, 'big') if isinstance(r.code, bytes) else r.code}", key=f"code:{cname}")
        want = DOC_TYPE_MAP.get(typ)
        tn = r.type_cls.name if r.type_cls else None
        if want is None:
            ctx.undecided("R-TABLE/docs", construct, "docs/list-of-avps.md", f"unknown published type {typ}", key=f"type:{cname}")
        else:
            ctx.decide(tn in want, "R-TABLE/docs", construct, "docs/list-of-avps.md", f"type {typ} agrees",
                       f"published type {typ} but class {r.qual} is a {tn}", key=f"type:{cname}")
    ctx.floor("docs_rows", n, 180)


def identity_of(repo, r):
    flags = avpdict.default_flags(r)
    vals = avpdict.fold_values(repo, r)
    d = {
        "vendor": r.vendor.hex() if isinstance(r.vendor, bytes) else None,
        "code": int.from_bytes(r.code, "big") if isinstance(r.code, bytes) else None,
        "type": r.type_cls.name if r.type_cls else None,
        "M": flags["set_mandatory_bit"], "V": flags["set_vendor_id_bit"], "P": flags["set_protected_bit"],
    }
    if isinstance(vals, (list, tuple)) and all(isinstance(v, bytes) for v in vals):
        d["values"] = sorted({v.hex() for v in vals})
    return d


def _reference(ctx, repo, rows):
    p = os.path.join(VERIF, "reference", "avp_identity.json")
    if not os.path.exists(p):
        raise AnalysisError("reference/avp_identity.json missing")
    ref = json.load(open(p))["classes"]
    cur = {}
    for r in rows:
        cur[f"{r.module}.{r.name}"] = r          # last definition wins, like the module namespace
    for q, want in ref.items():
        r = cur.get(q)
        if r is None:
            ctx.violate("R-TABLE/identity", q, "-", "published AVP class no longer exists", key="exists")
            continue
        got = identity_of(repo, r)
        diffs = [f"{k}: published {want.get(k)!r}, now {got.get(k)!r}" for k in want if want.get(k) != got.get(k)]
        ctx.decide(not diffs, "R-TABLE/identity", q, r.ci.where(), "wire identity unchanged",
                   "published wire identity changed: " + "; ".join(diffs), key="identity")
    ctx.count("reference_classes", len(ref))
