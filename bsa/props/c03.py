"""C03 - malformed input is rejected cleanly and never wedges the decoder or the node."""
import ast

from ..astutil import make_cfg, call_name, fn_calls, must_pass, node_calls, walk_no_nested, header_exprs, witness_avoiding
from ..raises import Raises
from ..locks import FieldKinds, LockFlow, lock_ops
from ..cfg import CFG

META = {
    "explanation": "Decoder progress: the loop index of DiameterMessage.load and DiameterAVP.load advances by an amount with a proven "
                   "lower bound >= 1 on every path to the back edge (lower-bound facts from dominating guards: `x < c -> raise`, "
                   "`len(d) != b - h -> raise`, int.from_bytes >= 0, len >= 0). Only-library-errors: the escape set of the decoder "
                   "entry points (explicit raises + registry-dispatched constructors + the implicit-hazard table on wire-derived "
                   "values: integer subscripts, .decode(), ipaddress parsing), filtered by the enclosing handlers with the real "
                   "exception hierarchy, contains only classes of bromelia/exceptions.py. Thread survival: the input-driven part of "
                   "the escape set of the three connection thread roots is empty (the receive worker's handlers cover what the "
                   "decoder raises; the state machine catches what message processing raises). Lock pairing: every acquire is "
                   "released on all CFG paths, normal and exceptional (R-PAIR).",
    "decided": ["decoder loop progress", "only library errors leave the decoder", "handler coverage at the receive worker",
                "no input-driven exception reaches the top of a connection thread", "lock pairing on all exits"],
    "not_decided": ["memory growth", "liveness after arbitrary fault sequences as a whole", "feasibility of every exceptional path "
                    "(argued per finding, not proved)"],
    "trusted_base": ["Python ast", "statement CFG with exception edges", "call resolution (CHA + hint tables in bsa.locks / bsa.raises)",
                     "may-raise model: explicit raises, registry dispatch, hazard tables; logging/attribute reads/arithmetic assumed not to raise"],
    "assumptions": ["API-misuse guards (`not isinstance(x, T)`) are not counted: the properties quantify over well-typed use"],
}

ROOTS = ["bromelia.transport.TcpConnection._run", "bromelia.setup.DiameterAssociation.recv_message_from_queue",
         "bromelia.statemachine.PeerStateMachine.__start"]
STATE_DRIVEN = {"DiameterAssociationError", "DiameterApplicationError", "ConnectionError", "TypeError", "BromeliaException",
                "InvalidConfigKey", "InvalidConfigValue"}
BATON = {"bromelia.bromelia.Worker.set_outgoing_message": "Worker.send_lock is a baton released by Worker.send_message / send_messages",
         "bromelia.bromelia.Worker.send_message": "baton consumer", "bromelia.bromelia.Worker.send_messages": "baton consumer"}


def input_driven(R, excs):
    out = set()
    for e in excs:
        if "#" in e or e in STATE_DRIVEN:
            continue
        out.add(e)
    return out


def lower_bound_progress(ctx, repo, R, fi, construct, loop=None):
    """R-LOWER for the `while index < len(stream)` loop of a load() function."""
    fn = fi.node
    if loop is None:
        loop = next((s for s in walk_no_nested(fn) if isinstance(s, ast.While)), None)
    if loop is None:
        ctx.undecided("R-LOWER/progress", construct, fi.where(), "no while loop found", key="loop")
        return
    test_names = {n.id for n in ast.walk(loop.test) if isinstance(n, ast.Name)}
    # stores to a name of the loop test: `idx += E`, or `idx = E'` where E' expands (through locals assigned once in the
    # loop) to idx + E
    single = {}
    for s_ in walk_no_nested(loop):
        if isinstance(s_, ast.Assign) and len(s_.targets) == 1 and isinstance(s_.targets[0], ast.Name):
            single.setdefault(s_.targets[0].id, []).append(s_.value)

    def flat(e, depth=0):
        if isinstance(e, ast.BinOp) and isinstance(e.op, ast.Add):
            return flat(e.left, depth) + flat(e.right, depth)
        if isinstance(e, ast.Name) and e.id not in test_names and len(single.get(e.id, [])) == 1 and depth < 4 \
                and isinstance(single[e.id][0], ast.BinOp) and isinstance(single[e.id][0].op, ast.Add) \
                and any(isinstance(x, ast.Name) and x.id in test_names for x in ast.walk(single[e.id][0])):
            return flat(single[e.id][0], depth + 1)
        return [e]
    cands = []
    for s_ in walk_no_nested(loop):
        if isinstance(s_, ast.AugAssign) and isinstance(s_.target, ast.Name) and s_.target.id in test_names and isinstance(s_.op, ast.Add):
            cands.append((s_.target.id, s_, flat(s_.value)))
        elif isinstance(s_, ast.Assign) and len(s_.targets) == 1 and isinstance(s_.targets[0], ast.Name) and s_.targets[0].id in test_names:
            parts = flat(s_.value)
            own = [x for x in parts if isinstance(x, ast.Name) and x.id == s_.targets[0].id]
            if len(own) == 1:
                cands.append((s_.targets[0].id, s_, [x for x in parts if x is not own[0]]))
    idx = cands[0][0] if cands else None
    incs = [c for c in cands if c[0] == idx]
    if idx is None or len(incs) != 1:
        ctx.undecided("R-LOWER/progress", construct, fi.where(loop), "index increment not recognised", key="inc")
        return
    inc, inc_atoms = incs[0][1], incs[0][2]
    lt = R.local_types(fi)
    # exception edges only from statements that really may raise (hazards + callee escape sets)
    cfg = CFG(fn, R.node_raises(fi, lt, None, None), R.hier)
    inc_node = next(n for n in cfg.nodes.values() if n.ast is inc)

    def atoms(e):
        if isinstance(e, ast.BinOp) and isinstance(e.op, ast.Add):
            return atoms(e.left) + atoms(e.right)
        return [e]

    total = 0
    details = []
    for a in inc_atoms:
        lb, why = lower_of(ctx, repo, fi, cfg, loop, inc_node, a)
        if lb is None:
            ctx.undecided("R-LOWER/progress", construct, fi.where(inc), f"no lower bound for `{ast.unparse(a)}`: {why}", key="lb")
            return
        total += lb
        details.append(f"{ast.unparse(a)} >= {lb} ({why})")
    ctx.decide(total >= 1, "R-LOWER/progress", construct, fi.where(inc),
               "loop index strictly advances: " + "; ".join(details),
               f"the loop index `{idx}` advances by `{' + '.join(ast.unparse(a) for a in inc_atoms)}` whose proven lower bound is {total} "
               f"({'; '.join(details)}): a length field of 0 (or less than the header) makes the decoder spin forever or mis-split "
               f"the stream", key="progress")
    # the increment is reached on every normal path of the body
    lnode = next(n for n in cfg.nodes.values() if n.kind == "test" and n.extra is loop)
    start = [t for t, l in cfg.succ[lnode.id] if l == "T"][0]
    ok = must_pass(cfg, lambda n: n.id == inc_node.id, start=start, targets={lnode.id})
    ctx.decide(ok, "R-LOWER/progress", construct, fi.where(loop), "every iteration passes the increment",
               "an iteration can return to the loop test without advancing the index", key="inc_all_paths")


def lower_of(ctx, repo, fi, cfg, loop, use_node, a, _depth=0):
    """lower bound of atom expression `a` at the increment."""
    v = repo.fold(fi.mod, a)
    if isinstance(v, int) and not isinstance(v, bool):
        return v, "constant"
    txt = ast.unparse(a)
    # an entry of a literal table of integers is at least the smallest entry
    if isinstance(a, ast.Subscript) and isinstance(a.value, (ast.Tuple, ast.List)) and a.value.elts and \
            all(isinstance(e_, ast.Constant) and type(e_.value) is int for e_ in a.value.elts):
        return min(e_.value for e_ in a.value.elts), "smallest entry of the constant table"
    # non-negative by construction
    nonneg = False
    if isinstance(a, ast.Call) and (txt.endswith(".get_length()") or call_name(a) in ("len", "int.from_bytes")):
        nonneg = True
    if isinstance(a, ast.Name):
        defs = [n for n in cfg.nodes.values() if n.kind == "stmt" and isinstance(n.ast, ast.Assign)
                and any(isinstance(t, ast.Name) and t.id == a.id for t in n.ast.targets)]
        if defs and all(isinstance(d.ast.value, ast.Name) and d.ast.value.id != a.id for d in defs) and _depth < 3:
            # `a = b`: a is as large as b is where the copy is made
            subs = [lower_of(ctx, repo, fi, cfg, loop, d, d.ast.value, _depth + 1) for d in defs]
            if all(lb_ is not None for lb_, _ in subs):
                lb_, why_ = min(subs, key=lambda x: x[0])
                return lb_, f"copy of `{defs[0].ast.value.id}`: {why_}"
        if defs and all(_nonneg_expr(repo, fi, d.ast.value) for d in defs):
            nonneg = True
    else:
        defs = []
    # guards: test nodes whose non-raising edge implies txt >= c
    best = 0 if nonneg else None
    why = "non-negative by construction" if nonneg else "no fact"
    for g in cfg.nodes.values():
        if g.kind != "test":
            continue
        c = guard_bound(repo, fi, g, txt)
        if c is None:
            continue
        # the raising branch must really leave (raise) ...
        # ... and the guard must cut every def->use path (or, for call atoms, dominate the use within the iteration)
        if isinstance(a, ast.Name):
            cut = all(must_pass(cfg, lambda n, g=g, d=d: n.id == g.id or (n in defs and n.id != d.id), start=s, targets={use_node.id})
                      for d in defs for s, l in cfg.succ[d.id] if l not in ("exc", "excp")) if defs else False
        else:
            lnode = next(n for n in cfg.nodes.values() if n.kind == "test" and n.extra is loop)
            start = [t for t, l in cfg.succ[lnode.id] if l == "T"][0]
            cut = must_pass(cfg, lambda n, g=g: n.id == g.id, start=start, targets={use_node.id})
            # receiver must not be reassigned between guard and use
        if cut and (best is None or c > best):
            best, why = c, f"guard `{ast.unparse(g.ast)}` -> raise (line {g.lineno})"
    # the same test may be written once per branch (one guard per alternative): together they protect the use when every path
    # to it passes one of them; the bound is the weakest of theirs
    bounded = [(g, guard_bound(repo, fi, g, txt)) for g in cfg.nodes.values() if g.kind == "test"]
    bounded = [(g, c) for g, c in bounded if c is not None]
    if len(bounded) > 1:
        ids = {g.id for g, _ in bounded}
        if isinstance(a, ast.Name):
            cut_all = all(must_pass(cfg, lambda n, d=d: n.id in ids or (n in defs and n.id != d.id), start=s, targets={use_node.id})
                          for d in defs for s, l in cfg.succ[d.id] if l not in ("exc", "excp")) if defs else False
        else:
            lnode = next(n for n in cfg.nodes.values() if n.kind == "test" and n.extra is loop)
            start = [t for t, l in cfg.succ[lnode.id] if l == "T"][0]
            cut_all = must_pass(cfg, lambda n: n.id in ids, start=start, targets={use_node.id})
        weakest = min(c for _, c in bounded)
        if cut_all and (best is None or weakest > best):
            best, why = weakest, f"guards {sorted({ast.unparse(g.ast) for g, _ in bounded})} -> raise, one on every path"
    return best, why


def _nonneg_expr(repo, fi, e):
    # a local that is assigned once (x = y % c) stands for its definition
    if isinstance(e, ast.BinOp) and isinstance(e.right, ast.Name):
        defs = [n.value for n in walk_no_nested(fi.node) if isinstance(n, ast.Assign) and len(n.targets) == 1
                and isinstance(n.targets[0], ast.Name) and n.targets[0].id == e.right.id]
        if len(defs) == 1 and isinstance(defs[0], ast.BinOp) and isinstance(defs[0].op, ast.Mod):
            e = ast.BinOp(left=e.left, op=e.op, right=defs[0])
    v = repo.fold(fi.mod, e)
    if isinstance(v, int):
        return v >= 0
    if isinstance(e, ast.Call) and call_name(e) in ("int.from_bytes", "len"):
        return True
    if isinstance(e, ast.BinOp) and isinstance(e.op, ast.Mod):
        m = repo.fold(fi.mod, e.right)
        if isinstance(m, int) and not isinstance(m, bool) and m > 0:
            return True       # x % m with m > 0 is in [0, m) for every integer x (Python's modulo takes the sign of the divisor)
    if isinstance(e, ast.BinOp) and isinstance(e.op, ast.Sub) and isinstance(e.left, ast.Constant) and isinstance(e.right, ast.BinOp) \
            and isinstance(e.right.op, ast.Mod) and isinstance(e.right.right, ast.Constant) and e.left.value >= e.right.right.value - 1 + 1:
        return True       # c - (x % c')  with c >= c'
    if isinstance(e, ast.BinOp) and isinstance(e.op, ast.Sub) and isinstance(e.left, ast.Constant) and isinstance(e.right, ast.BinOp) \
            and isinstance(e.right.op, ast.Mod):
        return True if e.left.value >= (e.right.right.value if isinstance(e.right.right, ast.Constant) else 10 ** 9) else False
    return False


def guard_bound(repo, fi, g, txt):
    """If test node g has the form `<txt> < c` / `len(D) != <txt> - h` (raising when true), return the bound implied on the
    fall-through edge; else None."""
    t = g.ast
    if not isinstance(t, ast.Compare) or len(t.ops) != 1:
        return None
    iff = g.extra
    if not isinstance(iff, ast.If):
        return None
    l, op, r = t.left, t.ops[0], t.comparators[0]
    raises_true = bool(iff.body) and isinstance(iff.body[-1], ast.Raise)
    raises_false = bool(iff.orelse) and isinstance(iff.orelse[-1], ast.Raise)
    if not raises_true and raises_false and isinstance(op, (ast.Eq, ast.GtE, ast.Gt)):
        # the test is written the other way round (`if ok: .. else: raise`): the same fact holds where the test is true
        op = {ast.Eq: ast.NotEq, ast.GtE: ast.Lt, ast.Gt: ast.LtE}[type(op)]()
        raises_true = True
    if not raises_true:
        return None
    if ast.unparse(l) == txt and isinstance(op, (ast.Lt, ast.LtE)):
        c = repo.fold(fi.mod, r)
        if isinstance(c, int):
            return c if isinstance(op, ast.Lt) else c + 1
    if isinstance(op, ast.NotEq) and isinstance(l, ast.Call) and call_name(l) == "len" and isinstance(r, ast.BinOp) \
            and isinstance(r.op, ast.Sub) and ast.unparse(r.left) == txt:
        # len(D) != txt - H  falls through only when txt = len(D) + H >= H
        h = None
        if isinstance(r.right, ast.Name):
            vals = []
            for s in ast.walk(fi.node):
                if isinstance(s, ast.Assign) and any(isinstance(x, ast.Name) and x.id == r.right.id for x in s.targets):
                    vals.append(repo.fold(fi.mod, s.value))
            if vals and all(isinstance(v, int) for v in vals):
                h = min(vals)
            elif not vals:
                v = repo.fold(fi.mod, r.right)           # a module-level constant
                h = v if isinstance(v, int) and not isinstance(v, bool) else None
        else:
            v = repo.fold(fi.mod, r.right)
            h = v if isinstance(v, int) else None
        return h
    return None


def check(ctx):
    repo = ctx.repo
    R = Raises(repo)
    fk = FieldKinds(repo)

    # ---- 1 decoder progress ---------------------------------------------------------------
    ctx.clause = "1-decoder-progress"
    for q in ("bromelia.base.DiameterMessage.load", "bromelia.base.DiameterAVP.load"):
        fi = ctx.need(repo.funcs.get(q), q)
        lower_bound_progress(ctx, repo, R, fi, q)
    framing_rules(ctx, repo)
    # every OTHER loop of the receive path that scans a byte stream with an index (`while i < len(S)`, `while len(S) - i >= c`) -
    # a message splitter, a pre-scan, a re-framing helper added later - is held to the same obligation: the index advances by a
    # proven positive amount on every iteration (a Message Length / AVP Length of 0 taken from the wire must not stall it: the
    # receive worker would spin for ever holding the association lock)
    covered = {"bromelia.base.DiameterMessage.load", "bromelia.base.DiameterAVP.load", "bromelia.setup.get_complete_messages_length"}
    n_scan = 0
    for fi_ in list(repo.funcs.values()):
        if fi_.mod.name not in ("bromelia.base", "bromelia.setup", "bromelia.transport", "bromelia.types"):
            continue
        for k_, lp_ in enumerate([x for x in walk_no_nested(fi_.node) if isinstance(x, ast.While)]):
            if fi_.qual in covered and k_ == 0:
                continue
            t_ = lp_.test
            cmps = [c for c in ast.walk(t_) if isinstance(c, ast.Compare) and len(c.ops) == 1]
            scan = False
            for c in cmps:
                sides = [c.left, c.comparators[0]]
                has_len = any(isinstance(y, ast.Call) and call_name(y) == "len" for z in sides for y in ast.walk(z))
                has_idx = any(isinstance(y, ast.Name) for z in sides for y in ast.walk(z)
                              if not (isinstance(z, ast.Call) and call_name(z) == "len" and y in ast.walk(z)))
                stored_in_loop = {n.id for b in lp_.body for n in ast.walk(b) if isinstance(n, ast.Name) and isinstance(n.ctx, ast.Store)}
                idx_names = {y.id for z in sides for y in ast.walk(z) if isinstance(y, ast.Name)} & stored_in_loop
                sliced = any(isinstance(y, ast.Subscript) and isinstance(y.slice, ast.Slice) and
                             any(isinstance(w, ast.Name) and w.id in idx_names for w in ast.walk(y.slice)) for b in lp_.body for y in ast.walk(b))
                if has_len and has_idx and idx_names and sliced:
                    scan = True
            if not scan:
                continue
            n_scan += 1
            lower_bound_progress(ctx, repo, R, fi_, f"{fi_.qual} (scan loop at line {lp_.lineno})", loop=lp_)
    ctx.count("other_scan_loops", n_scan)
    # recursive decode of Grouped data receives the AVP's own data (strictly shorter than the enclosing stream)
    g = ctx.need(repo.cls("bromelia.types.GroupedType"), "GroupedType")
    src = ast.unparse(g.methods["__init__"])
    ctx.decide("DiameterAVP.load(data)" in src, "R-LOWER/progress", f"{g.qual}.__init__", g.where(),
               "nested decode recurses on the member data only (a slice that excludes the 8/12-octet AVP header)",
               "Grouped decode does not recurse on the AVP's own data", key="recursion", nontrivial=False)

    # ---- 2 only library errors ----------------------------------------------------------------
    ctx.clause = "2-only-library-errors"
    for q in ("bromelia.base.DiameterHeader.load", "bromelia.base.DiameterAVP.load", "bromelia.base.DiameterMessage.load"):
        fi = ctx.need(repo.funcs.get(q), q)
        esc = R.escapes(fi)
        foreign = sorted(e for e in esc if e.split("#")[0] not in R.lib_exc)
        for e in sorted(esc):
            org = R.origin.get((q, e), "?")
            ctx.decide(e.split("#")[0] in R.lib_exc, "R-ESC/library-errors", q, fi.where(), f"{e} is a library error",
                       f"{e} can leave {q.rsplit('.', 2)[-2]}.{q.rsplit('.', 1)[-1]} ({_trace(R, q, e)}): malformed input leaks an "
                       f"unrelated runtime error instead of one of the library's own error types", key=f"esc:{e}")
        if not esc:
            ctx.hold("R-ESC/library-errors", q, fi.where(), "nothing escapes", key="esc:none")
    ctx.count("avp_constructors_in_dispatch", len(R.avp_inits()))
    ctx.floor("registry_dispatch_targets", len(R.avp_inits()), 200)

    # ---- 3 handler coverage at the receive worker ------------------------------------------------
    ctx.clause = "3-receive-worker-coverage"
    q = "bromelia.setup.DiameterAssociation.recv_message_from_queue"
    fi = ctx.need(repo.funcs.get(q), q)
    dec = R.escapes(repo.funcs["bromelia.base.DiameterMessage.load"])
    left = input_driven(R, R.escapes(fi))
    for e in sorted(input_driven(R, dec)):
        ctx.decide(e not in left, "R-ESC/handler-coverage", q, fi.where(), f"{e} raised by the decoder is handled by the worker",
                   f"the decoder can raise {e} ({_trace(R, 'bromelia.base.DiameterMessage.load', e)}) but the receive worker's handlers "
                   f"do not catch it (every library error derives from BaseException, `except Exception` does not help): the "
                   f"worker thread dies, with the association lock held if it was taken by acquire()", key=f"cover:{e}")
    ctx.floor("decoder_escape_classes", len(dec), 3)

    # ---- 4 thread roots ---------------------------------------------------------------------------------
    ctx.clause = "4-thread-survival"
    for q in ROOTS:
        fi = ctx.need(repo.funcs.get(q), q)
        esc = input_driven(R, R.escapes(fi))
        if not esc:
            ctx.hold("R-THREAD", q, fi.where(), "no input-driven exception reaches the top of the thread", key="thread:none")
        for e in sorted(esc):
            ctx.violate("R-THREAD", q, fi.where(),
                        f"input-driven {e} reaches the top of thread root {q.rsplit('.', 1)[-1]} uncaught ({_trace(R, q, e)}): "
                        f"bytes from the peer kill a worker thread of the node", key=f"thread:{e}")
    unresolved = {k: sorted(v) for k, v in R.unresolved.items() if any(k.startswith(p) for p in ("bromelia.setup", "bromelia.statemachine", "bromelia.transport"))}
    ctx.advisory(f"unresolved attribute calls on analysed paths (library receivers: queues, events, loggers, sockets): "
                 f"{sum(len(v) for v in unresolved.values())}")

    # ---- 5 lock pairing -----------------------------------------------------------------------------------
    ctx.clause = "5-lock-pairing"
    n_regions = 0
    for fq, f in sorted(repo.funcs.items()):
        if not any(isinstance(n, ast.Attribute) and n.attr in ("acquire", "release") for n in ast.walk(f.node)) and \
                not any(isinstance(n, ast.With) for n in ast.walk(f.node)):
            continue
        lt = R.local_types(f)
        lf = LockFlow(repo, fk, f, raises=R.node_raises(f, lt, None, None))
        acq = [(nid, lid) for nid, ops in lf.ops.items() for op, lid, _ in ops if op == "acquire" and lf.cfg.nodes[nid].kind != "with_enter"]
        withs = [(nid, lid) for nid, ops in lf.ops.items() for op, lid, _ in ops if lf.cfg.nodes[nid].kind == "with_enter"]
        if not acq and not withs:
            continue
        n_regions += len(acq) + len(withs)
        if fq in BATON:
            ctx.hold("R-PAIR", fq, f.where(), f"baton exemption: {BATON[fq]}", key="baton", nontrivial=False)
            continue
        for which, label in (("exit", "normal"), ("rexit", "exceptional")):
            held = lf.held_at_exit(which)
            tgt = lf.cfg.exit if which == "exit" else lf.cfg.rexit
            if tgt not in lf.IN:
                continue
            for lid in sorted({l for _, l in acq} | {l for _, l in withs}):
                if lid in held:
                    # shortest witness: from the acquire to the exit avoiding releases of this lock
                    a0 = next(nid for nid, l in acq + withs if l == lid)
                    rel = {nid for nid, ops in lf.ops.items() for op, l2, _ in ops if op == "release" and l2 == lid}
                    wit = witness_avoiding(lf.cfg, lambda n: n.id in rel, start=a0, targets={tgt})
                    desc = lf.cfg.describe_path(wit)
                    why = ""
                    if which == "rexit" and wit:
                        last = wit[-1][0]
                        why = f" raised by line {lf.cfg.nodes[last].lineno}: {sorted(lf.cfg.raise_sites.get(last, []))}"
                    ctx.violate("R-PAIR", fq, f.where(lf.cfg.nodes[a0].ast),
                                f"{lid} acquired here can still be held at the {label} exit (path {desc}{why}): the lock is leaked "
                                f"and the next thread that needs it blocks forever", key=f"pair:{lid}:{label}", witness=desc)
                else:
                    ctx.hold("R-PAIR", fq, f.where(), f"{lid} released on every path to the {label} exit", key=f"pair:{lid}:{label}")
    ctx.floor("lock_regions", n_regions, 10)


def _trace(R, q, e, depth=0):
    o = R.origin.get((q, e))
    if not o:
        return "origin unknown"
    if o.startswith("call ") and " -> " in o and depth < 6:
        callee = o.split(" -> ", 1)[1]
        return f"{o.split(' -> ')[0][5:]} -> " + _trace(R, callee, e, depth + 1)
    if o.startswith("setter ") and depth < 6:
        return o + " -> " + _trace(R, o[7:], e, depth + 1)
    return o


def framing_rules(ctx, repo, rule_prefix="R-LOWER/framing"):
    """bromelia.setup.get_complete_messages_length on terms (one iteration of its scan loop, I = offset of the header,
    L = the Message Length read at I+1..I+4): a complete message advances the offset by L, an incomplete one ends the scan
    with the offset unchanged (the tail stays buffered), and a header whose length is below 20 is never left at the front
    of the buffer - the whole stream is handed to the decoder, which rejects it."""
    from .. import sym
    from ..astutil import strip_doc
    m = ctx.need(repo.mods.get("bromelia.setup"), "module bromelia.setup")
    fn = ctx.need(m.funcs.get("get_complete_messages_length"), "bromelia.setup.get_complete_messages_length")
    construct = "bromelia.setup.get_complete_messages_length"
    where = f"{m.rel}:{fn.lineno}"
    loops = [n for n in walk_no_nested(fn) if isinstance(n, ast.While)]
    p0 = fn.args.args[0].arg if fn.args.args else "stream"
    if len(loops) != 1:
        ctx.undecided(rule_prefix, construct, where, "expected one scan loop", key="loop")
        return
    lp = loops[0]
    idx = next((n.id for n in ast.walk(lp.test) if isinstance(n, ast.Name) and n.id != p0 and
                any(isinstance(x, ast.Name) and x.id == n.id and isinstance(x.ctx, ast.Store) for x in ast.walk(lp))), None)
    if idx is None:
        # `while True:` with the guard as the first break: the offset is the name returned after the scan
        after = [n.value.id for n in walk_no_nested(fn) if isinstance(n, ast.Return) and isinstance(n.value, ast.Name)
                 and not any(n is x for x in ast.walk(lp))]
        idx = next((a for a in after if any(isinstance(x, ast.Name) and x.id == a and isinstance(x.ctx, ast.Store) for x in ast.walk(lp))), None)
    if idx is None:
        ctx.undecided(rule_prefix, construct, where, "scan offset not recognised", key="loop")
        return
    I, S, L = sym.S("int:I"), sym.S(p0), sym.S("int:L")
    LEN = ("call", ("name", "len"), (S,), ())

    def hook(t):
        if isinstance(t, tuple) and t and t[0] == "call" and len(t[2]) >= 1 and isinstance(t[2][0], tuple) and t[2][0][0] == "slice" \
                and t[2][0][1] == S and t[2][0][2] == sym.add(I, 1) and t[2][0][3] == sym.add(I, 4) \
                and (t[1] == ("attr", ("name", "int"), "from_bytes") or "integer_from_bytes" in sym.show(t[1])):
            return L
        return None
    itp = sym.Interp(fold=lambda e: repo.fold(m, e), hook=hook)
    # names bound before the loop (stream_length = len(stream) ...) keep their meaning inside it
    pre = []
    for st_ in strip_doc(fn.body):
        if st_ is lp or any(x is lp for x in ast.walk(st_)):
            break
        pre.append(st_)
    pre_paths = [q for q in itp.run(pre, sym.PathState({p0: S}, [], [])) if q.term == "fall"]
    st0 = pre_paths[0] if len(pre_paths) == 1 else sym.PathState({}, [], [])
    st0.conds, st0.effects = [], []
    paths = itp.loop_body(lp, {idx: I, p0: S}, st0)
    rets = [ast.unparse(n.value) for n in walk_no_nested(fn) if isinstance(n, ast.Return) and n.value is not None and
            not any(n is x for x in ast.walk(lp))]
    ctx.decide(rets == [idx], rule_prefix, construct, where, "after the scan the offset of the first incomplete message is returned",
               f"after the scan the function returns {rets}, not the offset reached", key="final_return", nontrivial=False)
    n_mal = n_full = n_part = 0
    for p_ in paths:
        short = [tv for c, tv in p_.conds if isinstance(c, tuple) and c[0] == "cmp" and c[1] == "Lt" and c[2] == L and c[3] == 20]
        part = [tv for c, tv in p_.conds if isinstance(c, tuple) and c[0] == "cmp" and c[1] == "Lt" and c[3] == L
                and c[2] == sym.add(LEN, I, -1)]
        hdr_short = [tv for c, tv in p_.conds if isinstance(c, tuple) and c[0] == "cmp" and c[1] == "Lt" and c[2] == sym.add(LEN, I, -1) and c[3] == 20]
        # a completeness test that measures something else than the bytes remaining after the scan offset
        wrong = [c for c, tv in p_.conds if isinstance(c, tuple) and c[0] == "cmp" and c[1] in ("Lt", "LtE", "Gt", "GtE") and L in (c[2], c[3])
                 and (c[2] if c[3] == L else c[3]) != sym.add(LEN, I, -1) and sym.show(LEN) in sym.show(c[2] if c[3] == L else c[3])]
        if wrong and not part:
            ctx.violate(rule_prefix + "-partial", construct, f"{m.rel}:{lp.lineno}",
                        f"the Message Length at the scan offset is compared with `{sym.show(wrong[0][2] if wrong[0][3] == L else wrong[0][3])}`, not with "
                        f"the bytes remaining after the offset (len - offset): behind a complete message an incomplete one is declared "
                        f"complete, handed to the decoder truncated and its tail is parsed as a new message", key="partial_measure")
            continue
        if hdr_short == [True] and not short:
            ctx.decide((p_.term == "break" and p_.get(idx) == I) or (p_.term == "return" and p_.value == I and rets == [idx]),
                       rule_prefix + "-partial", construct, f"{m.rel}:{lp.lineno}",
                       "fewer than 20 buffered bytes end the scan with the offset unchanged",
                       f"with fewer than 20 bytes left the iteration ends with `{p_.term}` and offset `{sym.show(p_.get(idx))}`", key="partial_header")
            continue
        if short == [True]:
            n_mal += 1
            ok = p_.term == "return" and p_.value == LEN
            ctx.decide(ok, rule_prefix + "-malformed", construct, f"{m.rel}:{lp.lineno}",
                       "a Message Length below 20 hands the whole stream to the decoder (which rejects it)",
                       f"when the header at the scan offset has a Message Length below 20 the scan ends with `{p_.term}`"
                       f"{' ' + sym.show(p_.value) if p_.term == 'return' else ''} instead of handing the whole stream over: with the "
                       f"malformed header at the front of the buffer nothing is ever consumed, every later message queues up behind it and "
                       f"the connection is deaf from then on", key="malformed")
        elif short == [False] and part == [True]:
            n_part += 1
            ends_unchanged = (p_.term == "break" and p_.get(idx) == I) or (p_.term == "return" and p_.value == I and rets == [idx])
            ctx.decide(ends_unchanged, rule_prefix + "-partial", construct, f"{m.rel}:{lp.lineno}",
                       "an incomplete message ends the scan with the offset unchanged",
                       f"an incomplete trailing message ends the iteration with `{p_.term}` and offset `{sym.show(p_.get(idx))}`", key="partial")
        elif short == [False] and part == [False]:
            n_full += 1
            ctx.decide(p_.term in ("fall", "continue") and p_.get(idx) == sym.add(I, L), rule_prefix + "-advance", construct,
                       f"{m.rel}:{lp.lineno}", "a complete message advances the offset by its Message Length",
                       f"a complete message changes the offset to `{sym.show(p_.get(idx))}` (iteration ends with `{p_.term}`)", key="advance")
        else:
            ctx.undecided(rule_prefix, construct, f"{m.rel}:{lp.lineno}", f"path conditions not recognised: "
                          f"{[(sym.show(c), tv) for c, tv in p_.conds]}", key="path")
    if not (n_mal and n_full and n_part):
        ctx.undecided(rule_prefix, construct, where, f"cases found: malformed {n_mal}, complete {n_full}, incomplete {n_part}", key="cases")
