"""C20 - typed AVP value accessors agree with the wire data for every value."""
import ast
import copy

from ..astutil import strip_doc, call_name, walk_no_nested, fn_calls
from ..intervals import ISet, test_set, Undecidable
from ..loader import is_unknown

META = {
    "explanation": "Bit accessors: the if/elif chain of is_bit_set / set_bit / unset_bit is normalised to interval sets over the "
                   "bit index; the regions must partition [0,32) into [8j,8j+8), branch j must touch byte 3-j of the big-endian "
                   "word with mask 2**(bit%8), rebuild the word with the other three bytes in place, reject out-of-range indices "
                   "and redundant operations with DiameterTypeError; the three siblings must agree. Address: family constants "
                   "fold to 0x0001/0x0002 and pair with IPv4Address/IPv6Address, data = family + packed, accessors skip "
                   "len(family) bytes. Time: epoch (1900,1,1) and a seconds expression that is linear with coefficients "
                   "(86400, 1) in (days, seconds).",
    "decided": ["bit partition / byte index / mask / sibling agreement", "address family table and offsets", "time epoch and scale"],
    "not_decided": ["value-level behaviour of ipaddress/datetime (IPv6 compression forms, dates beyond 2036)"],
    "trusted_base": ["Python ast", "interval-set algebra", "constant folder"],
    "assumptions": ["the data of an Unsigned32 AVP is 4 octets (C10 clause 8)"],
}

UB = ISet.full(-64, 95)


def _chain(fn, var):
    """Top-level if/elif/else chain testing `var`: [(region ISet, body stmts, test)] + else body."""
    for s in fn.body:
        if isinstance(s, ast.If) and _mentions(s.test, var) and not _is_redundant_guard(s):
            if all(isinstance(b, ast.Raise) for b in s.body) and not s.orelse:
                continue          # a range guard, not the dispatch chain
            if not s.orelse:
                continue          # a single test is not a partition of the index space
            if not (len(s.orelse) == 1 and isinstance(s.orelse[0], ast.If)):
                if all(isinstance(b, ast.Raise) for b in s.orelse) or all(isinstance(b, ast.Raise) for b in s.body):
                    continue      # `if in-range: ... else: raise` is the same range guard after normalisation
            return s
    return None


def _is_redundant_guard(s):
    t = ast.unparse(s.test)
    return "is_bit_set" in t


def _mentions(e, var):
    return any(isinstance(n, ast.Name) and n.id == var for n in ast.walk(e))


def _regions(repo, mod, iff, var):
    out = []
    rest = ISet.full(UB.lo, UB.hi)
    cur = iff
    els = None
    while cur is not None:
        s = test_set(repo, mod, cur.test, var, UB)
        out.append((s.intersect(rest), cur.body, cur.test))
        rest = rest.minus(s)
        if len(cur.orelse) == 1 and isinstance(cur.orelse[0], ast.If):
            cur = cur.orelse[0]
        else:
            els = cur.orelse
            cur = None
    return out, rest, els


def _mask_ok(e, var, lo):
    """e is 2 ** X or 1 << X with X in {var % 8, var - lo, var (lo == 0)}"""
    while isinstance(e, ast.Expr):
        e = e.value
    if not isinstance(e, ast.BinOp):
        return False
    if isinstance(e.op, ast.Pow) and isinstance(e.left, ast.Constant) and e.left.value == 2:
        x = e.right
    elif isinstance(e.op, ast.LShift) and isinstance(e.left, ast.Constant) and e.left.value == 1:
        x = e.right
    else:
        return False
    t = ast.unparse(x)
    if t == f"{var} % 8":
        return True
    if t == var and lo == 0:
        return True
    if t == f"{var} - {lo}" and lo % 8 == 0:
        return True
    return False


def _byte_subscript(e):
    """self.data[i] -> i"""
    if isinstance(e, ast.Subscript) and ast.unparse(e.value) in ("self.data", "self._data") and isinstance(e.slice, ast.Constant) \
            and isinstance(e.slice.value, int):
        return e.slice.value
    return None


def check(ctx):
    repo = ctx.repo
    tm = ctx.need(repo.mods.get("bromelia.types"), "module bromelia.types")
    u32 = ctx.need(repo.cls("bromelia.types.Unsigned32Type"), "Unsigned32Type")
    ctx.clause = "1-bit-accessors"
    summaries = {}
    for name in ("is_bit_set", "set_bit", "unset_bit"):
        fn = ctx.need(u32.methods.get(name), f"Unsigned32Type.{name}")
        construct = f"{u32.qual}.{name}"
        where = u32.where(fn)
        var = [a.arg for a in fn.args.args if a.arg != "self"][0]
        iff = _chain(fn, var)
        if iff is None:
            _bits_by_abstract_evaluation(ctx, u32, name, fn, construct, where, summaries)
            continue
        try:
            regs, rest, els = _regions(repo, tm, iff, var)
        except Undecidable as e:
            ctx.undecided("R-INTERVAL/bits", construct, where, f"branch conditions not normalisable: {e}", key="chain")
            continue
        covered = ISet([], UB.lo, UB.hi)
        summ = []
        for reg, body, test in regs:
            if reg.empty():
                ctx.violate("R-INTERVAL/bits", construct, f"{u32.mod.rel}:{test.lineno}",
                            f"branch `{ast.unparse(test)}` is unreachable (shadowed by an earlier branch)", key=f"dead:{ast.unparse(test)}")
                continue
            covered = covered.union(reg)
            single = len(reg.ivs) == 1
            lo, hi = (reg.ivs[0] if single else (None, None))
            aligned = single and lo % 8 == 0 and hi == lo + 7 and 0 <= lo <= 24
            ctx.decide(aligned, "R-INTERVAL/bits", construct, f"{u32.mod.rel}:{test.lineno}",
                       f"branch covers bits [{lo},{hi}]",
                       f"branch `{ast.unparse(test)}` covers {reg}, not one byte-aligned group of 8 bit indices",
                       key=f"region:{lo}")
            if not aligned:
                continue
            want_idx = 3 - lo // 8
            if name == "is_bit_set":
                rets = [s for s in body if isinstance(s, ast.Return)]
                ok = False
                why = "no return"
                if rets:
                    v = rets[0].value
                    # (self.data[i] & MASK) != 0   |  bool(self.data[i] & MASK)
                    inner = None
                    if isinstance(v, ast.Compare) and len(v.ops) == 1 and isinstance(v.ops[0], ast.NotEq) \
                            and isinstance(v.comparators[0], ast.Constant) and v.comparators[0].value == 0:
                        inner = v.left
                    elif isinstance(v, ast.Call) and call_name(v) == "bool" and v.args:
                        inner = v.args[0]
                    if isinstance(inner, ast.BinOp) and isinstance(inner.op, ast.BitAnd):
                        idx = _byte_subscript(inner.left)
                        msk = inner.right
                        if idx is None:
                            idx = _byte_subscript(inner.right)
                            msk = inner.left
                        if idx != want_idx:
                            why = f"tests byte index {idx}, bits [{lo},{hi}] of a big-endian word live in byte {want_idx}"
                        elif not _mask_ok(msk, var, lo):
                            why = f"mask `{ast.unparse(msk)}` is not 2 ** ({var} % 8)"
                        else:
                            ok = True
                    else:
                        why = f"return expression `{ast.unparse(v)}` not recognised"
                ctx.decide(ok, "R-SIB/bits", construct, f"{u32.mod.rel}:{test.lineno}",
                           f"bits [{lo},{hi}] read byte {want_idx} with mask 2**(bit%8)", f"bits [{lo},{hi}]: {why}",
                           key=f"access:{lo}")
                summ.append((lo, want_idx if ok else None))
            else:
                want_op = ast.BitOr if name == "set_bit" else ast.BitXor
                ok, why = _mutator_branch(body, var, lo, want_idx, want_op, name)
                ctx.decide(ok, "R-SIB/bits", construct, f"{u32.mod.rel}:{test.lineno}",
                           f"bits [{lo},{hi}] rewrite byte {want_idx} only", f"bits [{lo},{hi}]: {why}", key=f"access:{lo}")
                summ.append((lo, want_idx if ok else None))
        full = ISet([(0, 31)], UB.lo, UB.hi)
        ctx.decide(covered == full, "R-INTERVAL/bits", construct, where, "branches cover exactly bit indices 0..31",
                   f"branches cover {covered} instead of [0,31]" +
                   (f": index {full.minus(covered).min()} is handled by no branch" if not full.minus(covered).empty() else
                    f": out-of-range index {covered.minus(full).min()} is accepted"), key="cover")
        summaries[name] = sorted(summ)
        if name == "is_bit_set":
            ok = bool(els) and any(isinstance(s, ast.Raise) and "DiameterTypeError" in ast.unparse(s) for s in els)
            ctx.decide(ok, "R-DOM/bits-range", construct, where, "out-of-range index raises DiameterTypeError",
                       "an out-of-range bit index is not rejected with DiameterTypeError", key="range")
        else:
            g = fn.body[0] if fn.body else None
            while isinstance(g, ast.Expr) and isinstance(g.value, ast.Constant):
                g = fn.body[fn.body.index(g) + 1]
            want = f"self.is_bit_set({var})" if name == "set_bit" else f"not self.is_bit_set({var})"
            ok = isinstance(g, ast.If) and ast.unparse(g.test) == want and \
                any(isinstance(s, ast.Raise) and "DiameterTypeError" in ast.unparse(s) for s in g.body)
            ctx.decide(ok, "R-DOM/bits-redundant", construct, where,
                       "redundant operation (and, through is_bit_set, an out-of-range index) is rejected first",
                       f"{name} does not start by rejecting the redundant operation with DiameterTypeError "
                       f"(expected `if {want}: raise DiameterTypeError`)", key="redundant")
    ctx.floor("bit_accessors", len(summaries), 3)
    vals = list(summaries.values())
    ctx.decide(all(v == vals[0] for v in vals), "R-SIB/bits", f"{u32.qual}.is_bit_set~set_bit~unset_bit", u32.where(),
               "the three accessors agree on the bit -> byte mapping",
               f"the three accessors disagree on the bit -> byte mapping: {summaries}", key="siblings")

    ctx.clause = "2-address"
    _address(ctx, repo, tm)
    ctx.clause = "3-time"
    _time(ctx, repo, tm)


def _mutator_branch(body, var, lo, want_idx, want_op, name):
    assigns = [s for s in body if isinstance(s, ast.Assign)]
    if len(assigns) < 2:
        return False, "expected `data = self.data[i] <op> mask` and `self.data = bytes(bytearray([...]))`"
    a0, a1 = assigns[0], assigns[1]
    if not (isinstance(a0.targets[0], ast.Name) and isinstance(a0.value, ast.BinOp)):
        return False, f"`{ast.unparse(a0)}` not recognised"
    tmp = a0.targets[0].id
    op = a0.value.op
    idx = _byte_subscript(a0.value.left)
    msk = a0.value.right
    alt_clear = False
    if isinstance(op, ast.BitAnd) and isinstance(msk, ast.UnaryOp) and isinstance(msk.op, ast.Invert):
        alt_clear = True
        msk = msk.operand
    if idx != want_idx:
        return False, f"combines byte index {idx}, bits [{lo},{lo+7}] of a big-endian word live in byte {want_idx}"
    if name == "set_bit" and not isinstance(op, ast.BitOr):
        return False, f"set_bit must OR the mask in, found {type(op).__name__}"
    if name == "unset_bit" and not (isinstance(op, ast.BitXor) or alt_clear):
        return False, f"unset_bit must clear the mask (XOR under the is-set guard, or & ~mask), found {type(op).__name__}"
    if not _mask_ok(msk, var, lo):
        return False, f"mask `{ast.unparse(msk)}` is not 2 ** ({var} % 8)"
    # rebuilt word
    if ast.unparse(a1.targets[0]) not in ("self.data", "self._data"):
        return False, f"`{ast.unparse(a1.targets[0])}` is not the data field"
    lst = None
    for n in ast.walk(a1.value):
        if isinstance(n, ast.List) and len(n.elts) == 4:
            lst = n
    if lst is None:
        return False, "rebuilt value is not a 4-element byte list"
    for pos, e in enumerate(lst.elts):
        if pos == want_idx:
            if not (isinstance(e, ast.Name) and e.id == tmp):
                return False, f"position {pos} of the rebuilt word is `{ast.unparse(e)}`, expected the modified byte"
        else:
            if _byte_subscript(e) != pos:
                return False, f"position {pos} of the rebuilt word is `{ast.unparse(e)}`, expected self.data[{pos}] unchanged"
    return True, ""


def _address(ctx, repo, tm):
    at = ctx.need(repo.cls("bromelia.types.AddressType"), "AddressType")
    fn = ctx.need(at.methods.get("parser_data"), "AddressType.parser_data")
    construct = f"{at.qual}.parser_data"
    # text path on terms: the address whose class selects the family and whose `.packed` is stored is exactly
    # ipaddress.ip_address(<the given literal>) - not a value derived from it
    from .. import sym as _sa
    pd_ = [a_.arg for a_ in fn.args.args if a_.arg != "self"][0]
    DATA_ = _sa.S(pd_)
    IP_ = ("call", ("attr", ("name", "ipaddress"), "ip_address"), (DATA_,), ())

    def hook_(t):
        if isinstance(t, tuple) and t and t[0] == "call" and t[1] == ("name", "isinstance") and t[2][:1] == (DATA_,):
            return "str" in _sa.show(t[2][1]) and "bytes" not in _sa.show(t[2][1])
        return None
    rows_ = []
    okt = True
    fam_codes, layouts = {}, []
    for p_ in _sa.Interp(fold=lambda e: repo.fold(tm, e), hook=hook_).run(strip_doc(fn.body), _sa.PathState({pd_: DATA_}, [], [])):
        if p_.term == "raise":
            continue
        v = p_.get("self._data")
        fam4 = any(tv and c == ("call", ("name", "isinstance"), (IP_, ("attr", ("name", "ipaddress"), "IPv4Address")), ()) for c, tv in p_.conds)
        fam6 = any(tv and c == ("call", ("name", "isinstance"), (IP_, ("attr", ("name", "ipaddress"), "IPv6Address")), ()) for c, tv in p_.conds)
        want = None
        if fam4:
            want = ("op", "Add", b"\x00\x01", ("attr", IP_, "packed"))
        elif fam6:
            want = ("op", "Add", b"\x00\x02", ("attr", IP_, "packed"))
        rows_.append(_sa.show(v)[:90])
        okt = okt and want is not None and v == want
        for cls_, hit_ in (("IPv4Address", fam4), ("IPv6Address", fam6)):
            if hit_:
                code_ = v[2] if isinstance(v, tuple) and len(v) == 4 and v[:2] == ("op", "Add") and isinstance(v[2], bytes) else None
                fam_codes.setdefault(cls_, set()).add(code_)
        layouts.append(isinstance(v, tuple) and len(v) == 4 and v[:2] == ("op", "Add") and isinstance(v[2], bytes) and len(v[2]) == 2
                       and isinstance(v[3], tuple) and v[3][:1] == ("attr",) and v[3][2] == "packed")
    for cls, want in (("IPv4Address", b"\x00\x01"), ("IPv6Address", b"\x00\x02")):
        got = fam_codes.get(cls, set())
        ctx.decide(got == {want}, "R-TABLE/address-family", construct, at.where(fn),
                   f"{cls} <-> family {want.hex()}",
                   f"{cls} is paired with family code {sorted(g.hex() if isinstance(g, bytes) else None for g in got) or None}, IANA address family is {want.hex()}",
                   key=f"family:{cls}")
    ctx.decide(bool(layouts) and all(layouts), "R-TABLE/address-layout", construct, at.where(fn), "data = family + packed address",
               "the stored value is not `family code + packed address` (family first)", key="layout")
    ctx.decide(okt and bool(rows_), "R-TABLE/address-text", construct, at.where(fn),
               "a textual address is stored as family(ip) + ip.packed with ip = ipaddress.ip_address(text)",
               f"for a textual address the stored value is {rows_}: not `family + packed` of ipaddress.ip_address(<the text>) itself - the "
               f"wire data and the accessors no longer denote the address that was given", key="text_path")
    # bytes path: per family code (one run of the term interpreter each), the bytes after the 2 family octets are
    # validated by the class of that family; an unknown family is stored as given
    from ._address import bytes_cases, CODES
    cases = bytes_cases(repo, at, fn)
    got = {c.hex(): (sorted(r["validators"] or []) if r else None) for c, r in cases.items()}
    ok = all(r is not None and r["accepting"] > 0 for r in cases.values()) and \
        all((cases[c]["validators"] or set()) == ({cls} if cls else set()) for c, cls in CODES.items() if cases[c])
    ctx.decide(ok, "R-TABLE/address-family", construct, at.where(fn),
               "bytes path recognises families 0001 and 0002 on data[:2]",
               f"bytes path validates data[2:] per family code as {got}; expected 0001 -> IPv4Address, 0002 -> IPv6Address, "
               f"other -> none", key="bytes_family")
    for name in ("is_ipv4", "is_ipv6", "get_ip_address"):
        f = ctx.need(at.methods.get(name), f"AddressType.{name}")
        lows = []
        for n in ast.walk(f):
            if isinstance(n, ast.Subscript) and ast.unparse(n.value) in ("self.data", "self._data") and isinstance(n.slice, ast.Slice):
                lows.append((ast.unparse(n.slice.lower) if n.slice.lower else None, n.slice.upper))
        ok = bool(lows) and all(l == "2" and u is None for l, u in lows)
        ctx.decide(ok, "R-TABLE/address-offset", f"{at.qual}.{name}", at.where(f), "accessor skips the 2 family octets",
                   f"accessor slices the data at {[l for l, _ in lows]} instead of skipping exactly the 2 family octets",
                   key="offset")
    for name, cls in (("is_ipv4", "IPv4Address"), ("is_ipv6", "IPv6Address")):
        f = at.methods.get(name)
        ok = False
        for n in ast.walk(f):
            if isinstance(n, ast.If) and isinstance(n.test, ast.Call) and call_name(n.test) == "isinstance" \
                    and ast.unparse(n.test.args[1]).split(".")[-1] == cls \
                    and any(isinstance(s, ast.Return) and isinstance(s.value, ast.Constant) and s.value.value is True for s in n.body):
                ok = True
            if isinstance(n, ast.Return) and isinstance(n.value, ast.Call) and call_name(n.value) == "isinstance" \
                    and ast.unparse(n.value.args[1]).split(".")[-1] == cls:
                ok = True
        ctx.decide(ok, "R-TABLE/address-family", f"{at.qual}.{name}", at.where(f), f"{name} tests {cls}",
                   f"{name} does not report True exactly for {cls}", key="isinstance")
    f = at.methods.get("get_ip_address")
    pairs = {}
    for n in ast.walk(f):
        if isinstance(n, ast.If):
            t = ast.unparse(n.test)
            for s in n.body:
                if isinstance(s, ast.Return):
                    for c in ast.walk(s):
                        if isinstance(c, ast.Call) and call_name(c).startswith("ipaddress."):
                            pairs[t] = call_name(c).split(".")[-1]
    want = {"self.is_ipv4()": "IPv4Address", "self.is_ipv6()": "IPv6Address"}
    ok = all(pairs.get(k) in (v, "ip_address") for k, v in want.items()) and len(pairs) >= 2
    ctx.decide(ok, "R-TABLE/address-family", f"{at.qual}.get_ip_address", at.where(f), "formats each family with its own class",
               f"get_ip_address pairs {pairs}", key="format")


def _time(ctx, repo, tm):
    tt = ctx.need(repo.cls("bromelia.types.TimeType"), "TimeType")
    fn = ctx.need(tt.methods.get("__init__"), "TimeType.__init__")
    construct = f"{tt.qual}.__init__"
    # on terms (bsa.sym): the value handed to the base constructor on the datetime path is
    # H4(c0 + cd*DIFF.days + cs*DIFF.seconds) with DIFF = data - datetime(1900,1,1,0,0,0)   (or int(DIFF.total_seconds()))
    from .. import sym
    from ..astutil import strip_doc
    params = [a.arg for a in fn.args.args if a.arg != "self"]
    DATA = sym.S(params[0])
    paths = sym.Interp(fold=lambda e: repo.fold(tm, e), log_calls=True).run(strip_doc(fn.body), sym.PathState({params[0]: DATA}, [], []))
    dt_paths = [p_ for p_ in paths if any(tv and isinstance(c, tuple) and c[0] == "call" and c[1] == ("name", "isinstance")
                                          and c[2][0] == DATA and "datetime" in sym.show(c[2][1]) for c, tv in p_.conds)
                and p_.term != "raise"]
    if not dt_paths:
        ctx.undecided("R-TABLE/time-scale", construct, tt.where(fn), "no path for a datetime argument", key="diff")
        return
    for p_ in dt_paths:
        base_calls = [e[1] for e in p_.effects if e[0] == "ecall" and isinstance(e[1], tuple) and e[1][0] == "call"
                      and isinstance(e[1][1], tuple) and e[1][1][0] == "attr" and e[1][1][2] == "__init__"]
        val = None
        for bc in base_calls:
            for a_ in bc[2]:
                if isinstance(a_, tuple) and a_[0] == "call" and a_[1][0] == "name" and repo.helper_width(tm, a_[1][1]):
                    val = a_
        if val is None:
            ctx.undecided("R-WIDTH/time", construct, tt.where(fn), "the encoded timestamp handed to the base constructor not recognised", key="width")
            continue
        w = repo.helper_width(tm, val[1][1])
        ctx.decide(w[0] == 4 and w[1] == "big" and not w[2], "R-WIDTH/time", construct, tt.where(fn),
                   "timestamp encoded as 4 big-endian unsigned octets",
                   f"timestamp is not encoded as 4 big-endian unsigned octets ({w})", key="width")
        ts = val[2][0]
        # a range guard on the timestamp may refuse only what does not fit in 32 bits: the accepted set, read off the comparisons
        # between the timestamp and constants recorded on this (accepting) path, must contain [0, 2**32 - 1]
        lo, hi = None, None          # accepted: lo <= ts <= hi
        for c, tv in p_.conds:
            if not (isinstance(c, tuple) and c[0] == "cmp" and c[1] in ("Lt", "LtE", "Gt", "GtE")):
                continue
            a_, b_ = c[2], c[3]
            op = c[1]
            if b_ == ts and sym.is_int(a_):
                a_, b_ = b_, a_
                op = {"Lt": "Gt", "LtE": "GtE", "Gt": "Lt", "GtE": "LtE"}[op]
            if a_ != ts or not sym.is_int(b_):
                continue
            if not tv:
                op = {"Lt": "GtE", "LtE": "Gt", "Gt": "LtE", "GtE": "Lt"}[op]
            if op == "Lt":
                hi = b_ - 1 if hi is None else min(hi, b_ - 1)
            elif op == "LtE":
                hi = b_ if hi is None else min(hi, b_)
            elif op == "Gt":
                lo = b_ + 1 if lo is None else max(lo, b_ + 1)
            elif op == "GtE":
                lo = b_ if lo is None else max(lo, b_)
        ok_rng = (lo is None or lo <= 0) and (hi is None or hi >= 2 ** 32 - 1)
        ctx.decide(ok_rng, "R-INTERVAL/time-range", construct, tt.where(fn), "every instant that fits in 32 bits is accepted",
                   f"the range check in front of the 4-octet packer accepts only [{lo}, {hi}]: instants of the representable range "
                   f"[0, {2 ** 32 - 1}] seconds since 1900 (up to 2036-02-07 06:28:15) are refused", key="range", nontrivial=False)
        # find the difference term: (data - <epoch ctor>)
        diffs = set()

        def collect(t):
            if isinstance(t, tuple):
                if len(t) == 4 and t[0] == "op" and t[1] == "Sub" and t[2] == DATA:
                    diffs.add(t)
                for x in t:
                    if isinstance(x, tuple):
                        collect(x)
        collect(ts)
        if len(diffs) != 1:
            ctx.undecided("R-TABLE/time-scale", construct, tt.where(fn), "difference to the epoch not recognised", key="diff")
            continue
        DIFF = next(iter(diffs))
        ep = DIFF[3]
        epoch = None
        if isinstance(ep, tuple) and ep[0] == "call" and sym.show(ep[1]).endswith("datetime"):
            # datetime(1900, 1, 1) / datetime(year=1900, month=1, day=1): positional fields first, the named ones in their slot
            order = ("year", "month", "day", "hour", "minute", "second", "microsecond")
            kw_ = dict(ep[3])
            if all(k in order[len(ep[2]):] for k in kw_):
                epoch = tuple(ep[2]) + tuple(kw_.get(k, 0) for k in order[len(ep[2]):])
                while len(epoch) > 3 and epoch[-1] == 0 and len(epoch) > len(ep[2]):
                    epoch = epoch[:-1]
        ok = epoch is not None and len(epoch) >= 3 and epoch[:3] == (1900, 1, 1) and all(v == 0 for v in epoch[3:])
        ctx.decide(ok, "R-TABLE/time-epoch", construct, tt.where(fn), "epoch is 1900-01-01T00:00:00",
                   f"epoch is {sym.show(ep)}, RFC 6733 Time counts seconds since 1900-01-01 00:00:00", key="epoch")
        DAYS, SECS = ("attr", DIFF, "days"), ("attr", DIFF, "seconds")
        total = ("call", ("attr", DIFF, "total_seconds"), (), ())
        if ts == ("call", ("name", "int"), (total,), ()):
            ctx.hold("R-TABLE/time-scale", construct, tt.where(fn), "whole seconds via int(total_seconds())", key="scale")
        elif ts == total:
            ctx.violate("R-TABLE/time-scale", construct, tt.where(fn), "the timestamp is total_seconds() without truncation to whole seconds "
                        "(a float is handed to the 4-octet packer)", key="scale")
        else:
            c0, cd, cs = sym.lin_const(ts), sym.lin_coef(ts, DAYS), sym.lin_coef(ts, SECS)
            extra = sym.lin_atoms(ts) - {DAYS, SECS}
            ctx.decide(c0 == 0 and cd == 86400 and cs == 1 and not extra, "R-TABLE/time-scale", construct, tt.where(fn),
                       "timestamp = days*86400 + seconds",
                       f"`{sym.show(ts)}` counts {cd} per day and {cs} per second (offset {c0}, other terms {[sym.show(x) for x in extra]}); "
                       f"expected 86400 and 1", key="scale")


def _mentions_attr(e, var):
    return any(isinstance(n, ast.Attribute) and isinstance(n.value, ast.Name) and n.value.id == var for n in ast.walk(e))


def _bits_by_abstract_evaluation(ctx, u32, name, fn, construct, where, summaries):
    """Fallback of clause 1: the accessor is not an if/elif chain.  Evaluate it abstractly for every bit index of a finite
    range around [0, 32) with symbolic data octets (bsa.bitsem)."""
    from ..bitsem import run, Unsupported, DATA0
    summ = []
    try:
        for b in range(-9, 42):
            outs = run(u32, fn, b)
            inr = 0 <= b < 32
            i, m = 3 - b // 8, 1 << (b % 8)
            for ch, kind, val, data, qs in outs:
                case = f"bit={b},choices={list(ch)}"
                if not inr:
                    ok = kind == "raise" and val == "DiameterTypeError"
                    ctx.decide(ok, "R-DOM/bits-range", construct, where, "out-of-range index raises DiameterTypeError",
                               f"bit index {b} is out of range but {name} ends with {kind} {val!r} "
                               f"(reads/changes {qs or data}) instead of raising DiameterTypeError", key=f"range:{'neg' if b < 0 else 'high'}")
                    continue
                q_ok = bool(qs) and qs[0] == ("op", "&", i, m)
                if name == "is_bit_set":
                    ok = q_ok and len(qs) == 1 and kind == "return" and val is (ch[0] if ch else None) and data == DATA0
                    ctx.decide(ok, "R-SIB/bits", construct, where, f"bit {b} tests octet {i} with mask {m:#04x}",
                               f"is_bit_set({b}) tests {qs} and returns {val!r} for answer {list(ch)}: expected octet {i} & {m:#04x} != 0 "
                               f"of the big-endian word", key=f"access:{b - b % 8}")
                else:
                    is_set = ch[0] if ch else None
                    redundant = (name == "set_bit" and is_set) or (name == "unset_bit" and not is_set)
                    if redundant:
                        ok = q_ok and kind == "raise" and val == "DiameterTypeError"
                        ctx.decide(ok, "R-DOM/bits-redundant", construct, where, "redundant operation raises DiameterTypeError",
                                   f"{name}({b}) on a word whose bit is {'set' if is_set else 'clear'} ends with {kind} {val!r} "
                                   f"instead of DiameterTypeError", key="redundant")
                    else:
                        want = list(DATA0)
                        alts = [("op", "|", i, m)] if name == "set_bit" else [("op", "^", i, m), ("op", "&", i, 0xFF ^ m)]
                        ok = q_ok and kind in ("return", "fall") and any(data == want[:i] + [a] + want[i + 1:] for a in alts)
                        ctx.decide(ok, "R-SIB/bits", construct, where, f"bit {b}: only octet {i} changes, by mask {m:#04x}",
                                   f"{name}({b}) leaves the data as {data}: expected only octet {i} combined with mask {m:#04x}",
                                   key=f"access:{b - b % 8}")
            if inr and b % 8 == 0:
                summ.append((b, i))
        summaries[name] = sorted(summ)
    except Unsupported as e:
        ctx.undecided("R-INTERVAL/bits", construct, where,
                      f"accessor is neither an if/elif chain over the bit index nor abstractly evaluable ({e})", key="chain")
