"""C14 - a waiting sender gets its own answer, matched by Hop-by-Hop id, and always wakes."""
import ast

from ..astutil import strip_doc, make_cfg, call_name, fn_calls, must_pass, node_calls, walk_no_nested
from ..paths import enum_paths, eval_bool, decide_by_assignments

META = {
    "explanation": "Ordering rule on every path of Bromelia.send_message: when a request is published with recv_answer, the waiter is "
                   "registered in pending_answers before the message is handed to the worker (otherwise an answer dispatched in "
                   "between finds no waiter, is dropped, and the caller blocks forever); registry insert / lookup / removal use the "
                   "same header field; the dispatch side replaces the waiter's message before notifying and removes after "
                   "notifying; notify() sets the very event wait() blocks on and the two-event rendezvous is closed.",
    "decided": ["register-before-publish on all paths", "key agreement", "update-before-notify, remove-after-notify",
                "notify sets the awaited event"],
    "not_decided": ["all interleavings of callers and dispatch threads; double delivery under races"],
    "trusted_base": ["Python ast", "path enumeration"],
    "assumptions": [],
}


def check(ctx):
    repo = ctx.repo
    br = ctx.need(repo.cls("bromelia.bromelia.Bromelia"), "Bromelia")
    wk = ctx.need(repo.cls("bromelia.bromelia.Worker"), "Worker")
    pa = ctx.need(repo.cls("bromelia.bromelia.PendingAnswer"), "PendingAnswer")
    sm = ctx.need(br.methods.get("send_message"), "Bromelia.send_message")
    construct = f"{br.qual}.send_message"

    from .. import sym
    ctx.clause = "1-register-before-publish"
    # on terms (bsa.sym), call order from the evaluation log: W = PendingAnswer(MSG) is inserted before MSG is handed to the
    # worker, and the caller waits on that same W afterwards and returns W.msg
    mparams = [a.arg for a in sm.args.args if a.arg != "self"]
    msgp = mparams[0]
    MSG = sym.S(msgp)
    W = ("call", ("name", "PendingAnswer"), (MSG,), ())
    env0 = {a_: sym.S(a_) for a_ in mparams}
    n = waited = 0
    try:
        spaths = sym.Interp(fold=lambda e: repo.fold(br.mod, e), log_calls=True, limit=20000).run(strip_doc(sm.body), sym.PathState(env0, [], []))
    except sym.TooMany:
        spaths = []
        ctx.undecided("R-MUSTPASS/order", construct, br.where(sm), "too many paths", key="paths")
    for p in spaths:
        ec = [e for e in p.effects if e[0] == "ecall" and isinstance(e[1], tuple) and e[1][0] == "call"]
        fname = lambda e: e[1][1][2] if isinstance(e[1][1], tuple) and e[1][1][0] == "attr" else None
        pub = [i for i, e in enumerate(ec) if fname(e) == "set_outgoing_message"]
        ins = [i for i, e in enumerate(ec) if fname(e) == "insert_pending_answer"]
        # the caller's wait: `.wait()` on a PendingAnswer built here, or on whatever object was inserted into the registry (a waiter
        # that is NOT a fresh construction - taken from a pool, a cache, an attribute - is judged by R-ALIAS/waiter below)
        ins_args = {ec[i][1][2][0] for i in ins if ec[i][1][2]}
        wt = [i for i, e in enumerate(ec) if fname(e) == "wait" and isinstance(e[1][1][1], tuple) and
              (e[1][1][1][:2] == ("call", ("name", "PendingAnswer")) or e[1][1][1] in ins_args)]
        if not pub:
            continue
        n += 1
        if not wt:
            ctx.hold("R-MUSTPASS/order", construct, br.where(sm), "path publishes without waiting (answer or fire-and-forget)",
                     key=f"nowait:{len(ins)}", nontrivial=False)
            continue
        waited += 1
        ok = bool(ins) and ins[0] < pub[0] < wt[0]
        ctx.decide(ok, "R-MUSTPASS/order", construct, br.where(ec[pub[0]][2]),
                   "waiter registered before the request is published, wait after",
                   "the request is handed to the worker (set_outgoing_message) before the waiter is inserted into "
                   "pending_answers: an answer dispatched in between finds no waiter, is dropped, and the caller blocks forever",
                   key="insert_before_publish")
        insarg = ec[ins[0]][1][2][0] if ins and ec[ins[0]][1][2] else None
        awaited = ec[wt[0]][1][1][1]
        pubarg = ec[pub[0]][1][2][0] if ec[pub[0]][1][2] else None
        n_built = len([e for e in ec if e[1] == W])     # one PendingAnswer object: equal terms are the same object only then
        ok2 = insarg == W and awaited == W and pubarg == MSG and n_built == 1
        ctx.decide(ok2, "R-ALIAS/waiter", construct, br.where(sm), "the waiter inserted is the one awaited, built from the request",
                   f"inserted waiter `{sym.show(insarg)}`, awaited `{sym.show(awaited)}`, published `{sym.show(pubarg)}`, "
                   f"PendingAnswer objects built on the path: {n_built} - the waiter must be a PendingAnswer constructed for this "
                   f"request on this path (an object taken from a pool / cache / attribute can still be in the hands of an earlier "
                   f"caller that has been woken but has not yet read its answer: that caller then returns this request's message)",
                   key="same_waiter")
        rets = p.value if p.term == "return" else None
        ctx.decide(rets == ("attr", W, "msg"), "R-FLOW/waiter-result", construct, br.where(sm), "returns the waiter's message",
                   f"a waiting caller returns `{sym.show(rets)}`", key="returns_msg", nontrivial=False)
        guard = any(tv and "is_request" in sym.show(c) for c, tv in p.conds) and any(tv and sym.show(c) == "recv_answer" for c, tv in p.conds)
        ctx.decide(guard, "R-DOM/waits-for-requests", construct, br.where(sm),
                   "waiting is conditioned on a request sent with recv_answer",
                   f"a path waits for an answer without `is_request() and recv_answer`: {[(sym.show(c), tv) for c, tv in p.conds][:6]}",
                   key="guard", nontrivial=False)
    ctx.floor("publishing_paths", n, 2)
    ctx.floor("waiting_paths", waited, 1)

    ctx.clause = "2-registry-keys"
    ins = ctx.need(wk.methods.get("insert_pending_answer"), "Worker.insert_pending_answer")
    isp = ctx.need(wk.methods.get("is_pending_answer"), "Worker.is_pending_answer")
    get = ctx.need(wk.methods.get("get_pending_answer"), "Worker.get_pending_answer")
    rem = ctx.need(wk.methods.get("remove_pending_answer"), "Worker.remove_pending_answer")
    REG = ("attr", ("name", "self"), "pending_answers")
    hbh = lambda obj: ("attr", ("attr", obj, "header"), "hop_by_hop")

    def run(fn):
        ps = [a.arg for a in fn.args.args if a.arg != "self"]
        return ps, sym.Interp(log_calls=True).run(strip_doc(fn.body), sym.PathState({a_: sym.S(a_) for a_ in ps}, [], []))
    ps_, paths_ = run(ins)
    Pw = sym.S(ps_[0])
    rows = []
    for p in paths_:
        ent = [(e[1], e[2], e[3]) for e in p.effects if e[0] == "setitem"]
        rows.append([(sym.show(k), sym.show(v)) for _, k, v in ent])
        okk = ent == [(REG, hbh(("attr", Pw, "msg")), Pw)]
        ctx.decide(okk, "R-TABLE/pending-keys", f"{wk.qual}.insert_pending_answer", wk.where(ins),
                   "waiters are keyed by the request's Hop-by-Hop", f"insert writes {rows[-1]}", key="insert")
    ps_, paths_ = run(isp)
    Mi = sym.S(ps_[0])
    member = lambda t: isinstance(t, tuple) and t[0] == "cmp" and t[1] == "In" and t[2] == hbh(Mi) and \
        t[3] in (REG, ("call", ("attr", REG, "keys"), (), ()))
    ok, shown = bool(paths_), []
    for p in paths_:
        if p.term != "return":
            ok = False
            continue
        dec = [tv for c, tv in p.conds if member(c)]
        shown.append((sym.show(p.value), dec))
        ok = ok and (member(p.value) or (dec and p.value is dec[0]) and len(dec) == 1)
    ctx.decide(ok, "R-TABLE/pending-keys", f"{wk.qual}.is_pending_answer", wk.where(isp),
               "membership is tested with the answer's Hop-by-Hop", f"membership test: {shown}", key="is_pending")
    ps_, paths_ = run(get)
    Kg = sym.S(ps_[0])
    rets = [p.value for p in paths_ if p.term == "return"]
    ctx.decide(bool(rets) and all(r == ("sub", REG, Kg) for r in rets) and len(rets) == len(paths_), "R-TABLE/pending-keys",
               f"{wk.qual}.get_pending_answer", wk.where(get),
               "lookup indexes the registry with its argument", f"lookup returns {[sym.show(r) for r in rets]}", key="get")
    hp = ctx.need(br.methods.get("handler_pending_answers"), "Bromelia.handler_pending_answers")
    ps_, paths_ = run(hp)
    Mh = sym.S(ps_[0])
    gcalls = []
    for p in paths_:
        for e in p.effects:
            if e[0] == "ecall" and isinstance(e[1], tuple) and e[1][0] == "call" and isinstance(e[1][1], tuple) and e[1][1][0] == "attr" \
                    and e[1][1][2] == "get_pending_answer":
                gcalls.append(e[1][2])
    ok = bool(gcalls) and all(g == (hbh(Mh),) for g in gcalls)
    ctx.decide(ok, "R-TABLE/pending-keys", f"{br.qual}.handler_pending_answers", br.where(hp),
               "the dispatch side looks the waiter up by the answer's Hop-by-Hop",
               f"dispatch looks up with {sorted({sym.show(a) for g in gcalls for a in g})}", key="dispatch_lookup")
    ps_, paths_ = run(rem)
    Pr = sym.S(ps_[0])
    pops = []
    for p in paths_:
        pp = [e[1][2] for e in p.effects if e[0] == "ecall" and isinstance(e[1], tuple) and e[1][0] == "call"
              and e[1][1] == ("attr", REG, "pop")]
        dels = [e[1] for e in p.effects if e[0] == "del"]
        pops.append(pp)
        okp = len(pp) == 1 and pp[0][:1] == (hbh(("attr", Pr, "msg")),)
        ctx.decide(okp, "R-TABLE/pending-keys", f"{wk.qual}.remove_pending_answer", wk.where(rem),
                   "removal uses the Hop-by-Hop of the waiter's message",
                   f"removal pops {[[sym.show(a) for a in x] for x in pp]} {[sym.show(d) for d in dels]}", key="remove")

    # the registry belongs to one worker (one connection): Hop-by-Hop identifiers are unique per connection only
    wini = ctx.need(wk.methods.get("__init__"), "Worker.__init__")
    inst = [x for x in walk_no_nested(wini) if isinstance(x, ast.Assign) and any(ast.unparse(t) == "self.pending_answers" for t in x.targets)]
    cfgw = make_cfg(repo, wini)
    ok = len(inst) == 1 and ast.unparse(inst[0].value) in ("dict()", "{}") and \
        must_pass(cfgw, lambda n: n.ast is inst[0]) and "pending_answers" not in wk.attrs
    ctx.decide(ok, "R-WHO/registry-per-worker", f"{wk.qual}.pending_answers", wk.where(wini),
               "each Worker creates its own empty pending_answers registry",
               "pending_answers is not a fresh per-instance dict created in Worker.__init__ (class-level or shared registry): two "
               "workers (connections) whose requests carry the same Hop-by-Hop collide - one caller gets the other's answer and "
               "the other never wakes", key="per_worker")
    writers = sorted({fi.qual for fi in repo.funcs.values() for x in walk_no_nested(fi.node)
                      if isinstance(x, ast.Attribute) and x.attr == "pending_answers" and fi.cls is not wk})
    ctx.decide(not writers, "R-WHO/registry-per-worker", f"{wk.qual}.pending_answers", wk.where(),
               "only Worker methods touch the registry", f"pending_answers is accessed from {writers}", key="who_touches", nontrivial=False)

    ctx.clause = "2-update-notify-remove-order"
    # dispatch: guarded by is_pending_answer, update_msg(msg) before remove_pending_answer (which notifies then pops)
    found = False
    ps_, paths_ = run(hp)
    Mh = sym.S(ps_[0])
    for p in paths_:
        ec = [e for e in p.effects if e[0] == "ecall" and isinstance(e[1], tuple) and e[1][0] == "call" and isinstance(e[1][1], tuple)
              and e[1][1][0] == "attr"]
        nm = [e[1][1][2] for e in ec]
        if "remove_pending_answer" in nm:
            found = True
            guarded = any(tv and isinstance(c, tuple) and c[0] == "call" and isinstance(c[1], tuple) and c[1][0] == "attr"
                          and c[1][2] == "is_pending_answer" and c[2] == (Mh,) for c, tv in p.conds)
            iu = next((i for i, x in enumerate(nm) if x == "update_msg"), None)
            ir = nm.index("remove_pending_answer")
            waiter = ec[ir][1][2][0] if ec[ir][1][2] else None
            upd_ok = iu is not None and iu < ir and ec[iu][1][2] == (Mh,) and ec[iu][1][1][1] == waiter
            ctx.decide(guarded and upd_ok, "R-MUSTPASS/dispatch-order", f"{br.qual}.handler_pending_answers", br.where(hp),
                       "waiter's message replaced by the answer before it is notified",
                       "the waiter is notified/removed before (or without) its message being replaced by the received answer, "
                       "or without checking that a waiter exists", key="update_before_notify")
    ctx.decide(found, "R-MUSTPASS/dispatch-order", f"{br.qual}.handler_pending_answers", br.where(hp),
               "dispatch path that wakes the waiter exists", "no path of handler_pending_answers wakes a waiter", key="wakes",
               nontrivial=False)
    # exactly when: an answer is dropped (the function completes without waking anybody) only after the registry said that no
    # waiter is registered for it - any other reason to skip the dispatch (a duplicate filter, a history, a rate limit, a state
    # flag) leaves a registered caller blocked forever, because nothing else ever wakes it
    is_pend = lambda c: isinstance(c, tuple) and c and c[0] == "call" and isinstance(c[1], tuple) and c[1][0] == "attr" \
        and c[1][2] == "is_pending_answer" and c[2] == (Mh,)
    member_h = lambda t: isinstance(t, tuple) and t and t[0] == "cmp" and t[1] in ("In", "NotIn") and t[2] == hbh(Mh) and \
        isinstance(t[3], tuple) and (t[3][:1] == ("attr",) and t[3][2] == "pending_answers" or
                                     t[3][:1] == ("call",) and isinstance(t[3][1], tuple) and t[3][1][:1] == ("attr",) and
                                     isinstance(t[3][1][1], tuple) and t[3][1][1][-1:] == ("pending_answers",))
    n_drop = 0
    for p in paths_hp if (paths_hp := run(hp)[1]) else []:
        if p.term == "raise":
            continue
        nm = [e[1][1][2] for e in p.effects if e[0] == "ecall" and isinstance(e[1], tuple) and e[1][0] == "call"
              and isinstance(e[1][1], tuple) and e[1][1][0] == "attr"]
        if "remove_pending_answer" in nm or "notify" in nm:
            continue
        n_drop += 1
        consulted = any((is_pend(c) and tv is False) or (member_h(c) and tv is (c[1] == "NotIn")) for c, tv in p.conds)
        other = [f"{sym.show(c)} is {tv}" for c, tv in p.conds if not is_pend(c) and not member_h(c) and not (isinstance(c, tuple) and c[:1] == ("exc",))]
        ctx.decide(consulted, "R-DOM/dispatch-iff-pending", f"{br.qual}.handler_pending_answers", br.where(p.node if p.node is not None else hp),
                   "an answer is dropped only after the registry reported no waiter for it",
                   f"a path of handler_pending_answers ends without waking a waiter and without having asked the registry whether one is "
                   f"registered (conditions on the path: {other[:4]}): the answer of a registered request is discarded and its caller "
                   f"blocks forever in wait()", key="drop_only_if_not_pending")
    ctx.count("dropping_paths", n_drop)
    ps_, paths_ = run(rem)
    Pr = sym.S(ps_[0])
    ok = bool(paths_)
    for p in paths_:
        if p.term == "raise":
            continue
        ec = [e[1] for e in p.effects if e[0] == "ecall" and isinstance(e[1], tuple) and e[1][0] == "call"]
        inot = next((i for i, c in enumerate(ec) if c[1] == ("attr", Pr, "notify")), None)
        ipop = next((i for i, c in enumerate(ec) if c[1] == ("attr", REG, "pop")), None)
        idel = next((i for i, e in enumerate(p.effects) if e[0] == "del"), None)
        ok = ok and inot is not None and (ipop is None or inot < ipop) and (ipop is not None or idel is not None)
    ctx.decide(ok, "R-MUSTPASS/dispatch-order", f"{wk.qual}.remove_pending_answer", wk.where(rem),
               "notify on every path, removal after notification",
               "remove_pending_answer does not notify the waiter on every path before removing it", key="notify_then_pop")

    ctx.clause = "3-notify-sets-awaited-event"
    wt = ctx.need(pa.methods.get("wait"), "PendingAnswer.wait")
    nt = ctx.need(pa.methods.get("notify"), "PendingAnswer.notify")
    w_calls = [call_name(c) for c in fn_calls(wt)]
    n_calls = [call_name(c) for c in fn_calls(nt)]
    waited_ev = [c[:-5] for c in w_calls if c.endswith(".wait")]
    set_in_notify = [c[:-4] for c in n_calls if c.endswith(".set")]
    ok = len(waited_ev) >= 1 and waited_ev[0] in set_in_notify
    cfgn = make_cfg(repo, nt)
    on_all = ok and must_pass(cfgn, lambda n: any(call_name(c) == f"{waited_ev[0]}.set" for c in node_calls(n)))
    ctx.decide(ok and on_all, "R-DOM/notify", f"{pa.qual}.notify", pa.where(nt),
               f"notify sets {waited_ev[0] if waited_ev else '?'} on every path - the event wait() blocks on",
               f"wait() blocks on {waited_ev} but notify() sets {set_in_notify}: a caller whose answer has arrived is never woken",
               key="same_event")
    # each waiter has its own events: the events used by wait()/notify() are created inside __init__ (one construction per
    # instance) - an Event taken from a parameter default is evaluated once and shared by every PendingAnswer, so the answer
    # for one caller wakes all of them
    pini = ctx.need(pa.methods.get("__init__"), "PendingAnswer.__init__")
    from ..locks import EVENT_CTORS
    used_events = {c.split(".", 1)[1] for c in w_calls + n_calls if c.startswith("self.") and c.endswith((".wait", ".set", ".clear"))}
    used_events = {c.rsplit(".", 1)[0] for c in used_events}
    bad_ev = []
    for ev_ in sorted(used_events):
        defs = [x.value for x in walk_no_nested(pini) if isinstance(x, ast.Assign) and any(ast.unparse(t) == f"self.{ev_}" for t in x.targets)]
        fresh = len(defs) == 1 and isinstance(defs[0], ast.Call) and call_name(defs[0]) in EVENT_CTORS
        if not fresh:
            bad_ev.append((ev_, [ast.unparse(d)[:40] for d in defs]))
    dflt = [ast.unparse(d)[:40] for d in list(pini.args.defaults) + [d for d in pini.args.kw_defaults if d is not None]
            if isinstance(d, ast.Call)]
    ctx.decide(not bad_ev and bool(used_events), "R-WHO/event-per-waiter", f"{pa.qual}.__init__", pa.where(pini),
               f"the rendezvous events {sorted(used_events)} are constructed in __init__, once per waiter",
               f"the rendezvous events are not constructed per waiter inside __init__: {bad_ev} (call-valued parameter defaults: {dflt}; a "
               f"default is evaluated once, so all waiters share it): the answer of one request wakes every waiting caller, which then "
               f"returns without its answer", key="event_per_waiter")
    # rendezvous closed: whatever notify waits for is set by wait() after waking, on every path
    n_waits = [c[:-5] for c in n_calls if c.endswith(".wait")]
    w_sets = [c[:-4] for c in w_calls if c.endswith(".set")]
    cfgw = make_cfg(repo, wt)
    ok = all(e in w_sets for e in n_waits) and all(
        must_pass(cfgw, lambda n, e=e: any(call_name(c) == f"{e}.set" for c in node_calls(n))) for e in n_waits)
    ctx.decide(ok, "R-DOM/notify", f"{pa.qual}.wait", pa.where(wt),
               "every event notify() waits for is set by wait() on every path",
               f"notify() waits for {n_waits} but wait() sets {w_sets}: the dispatch thread blocks forever", key="rendezvous")
    # no lost wake-up: the awaited event is never cleared on a path that then waits for it - the answer may be dispatched (set())
    # before the caller reaches wait(); clearing first erases that and the caller blocks forever (and the dispatcher with it)
    bad_clear = None
    for e_ in waited_ev:
        for cn_ in [n for n in cfgw.nodes.values() if any(call_name(c) == f"{e_}.clear" for c in node_calls(n))]:
            reach = set()
            for t_, l_ in cfgw.succ.get(cn_.id, []):
                if l_ != "exc":
                    reach |= cfgw.reachable(t_) | {t_}
            if any(any(call_name(c) == f"{e_}.wait" for c in node_calls(cfgw.nodes[r_])) for r_ in reach):
                bad_clear = (e_, cn_)
    ctx.decide(bad_clear is None, "R-WAKE/clear-before-wait", f"{pa.qual}.wait", pa.where(bad_clear[1].ast if bad_clear else wt),
               "the awaited event is cleared only after the wait returned",
               f"wait() clears {bad_clear[0] if bad_clear else ''} and then blocks on it: when the answer was dispatched before the caller got "
               f"here, the set() is erased, the caller never wakes although its answer has arrived, and the dispatch thread blocks in "
               f"notify() waiting for the caller", key="clear_before_wait")
    order_ok = bool(waited_ev) and all(f"{e}.set" in w_calls for e in n_waits) and \
        w_calls.index(f"{waited_ev[0]}.wait") < min([w_calls.index(f"{e}.set") for e in n_waits] or [99])
    ctx.decide(order_ok, "R-DOM/notify", f"{pa.qual}.wait", pa.where(wt), "wait() releases the notifier only after waking",
               "wait() releases the notifier before it has been woken", key="rendezvous_order", nontrivial=False)
