"""C14 - a waiting sender gets its own answer, matched by Hop-by-Hop id, and always wakes."""
import ast

from ..astutil import make_cfg, call_name, fn_calls, must_pass, node_calls, walk_no_nested
from ..paths import enum_paths, eval_bool, decide_by_assignments

META = {
    "explanation": "Ordering rule on every path of Bromelia.send_message: when a request is published with recv_answer, the waiter is "
                   "registered in pending_answers before the message is handed to the worker (otherwise an answer dispatched in "
                   "between finds no waiter, is dropped, and the caller blocks forever); registry insert / lookup / removal use the "
                   "same header field; the dispatch side replaces the waiter's message before notifying and removes after "
                   "notifying; notify() sets the very event wait() blocks on and the two-event rendezvous is closed.",
    "decided": ["register-before-publish on all paths", "key agreement", "update-before-notify, remove-after-notify",
                "notify sets the awaited event"],
    "not_decided": ["all interleavings of callers and dispatch threads; double delivery under races"],
    "trusted_base": ["Python ast", "path enumeration"],
    "assumptions": [],
}


def check(ctx):
    repo = ctx.repo
    br = ctx.need(repo.cls("bromelia.bromelia.Bromelia"), "Bromelia")
    wk = ctx.need(repo.cls("bromelia.bromelia.Worker"), "Worker")
    pa = ctx.need(repo.cls("bromelia.bromelia.PendingAnswer"), "PendingAnswer")
    sm = ctx.need(br.methods.get("send_message"), "Bromelia.send_message")
    construct = f"{br.qual}.send_message"

    ctx.clause = "1-register-before-publish"
    n = 0
    waited = 0
    for p in enum_paths(sm.body, decide=decide_by_assignments, loops="skip"):
        calls = p.calls()
        names = [call_name(c) for c, _ in calls]
        pub = [i for i, nm in enumerate(names) if nm.endswith(".set_outgoing_message")]
        ins = [i for i, nm in enumerate(names) if nm.endswith(".insert_pending_answer")]
        pend_vars = {s_.targets[0].id for s_ in p.stmts() if isinstance(s_, ast.Assign) and isinstance(s_.targets[0], ast.Name)
                     and isinstance(s_.value, ast.Call) and call_name(s_.value) == "PendingAnswer"}
        wt = [i for i, nm in enumerate(names) if nm.endswith(".wait") and
              (nm[:-5] in pend_vars or nm.startswith("PendingAnswer("))]
        if not pub:
            continue
        n += 1
        if not wt:
            ctx.hold("R-MUSTPASS/order", construct, br.where(sm), "path publishes without waiting (answer or fire-and-forget)",
                     key=f"nowait:{len(ins)}", nontrivial=False)
            # a waiter registered but never awaited would leak; not part of the property
            continue
        waited += 1
        ok = bool(ins) and ins[0] < pub[0] < wt[0]
        ctx.decide(ok, "R-MUSTPASS/order", construct, br.where(calls[pub[0]][0]),
                   "waiter registered before the request is published, wait after",
                   "the request is handed to the worker (set_outgoing_message) before the waiter is inserted into "
                   "pending_answers: an answer dispatched in between finds no waiter, is dropped, and the caller blocks forever",
                   key="insert_before_publish")
        # the waiter waited on is the one inserted, built from the message published
        stm = {}
        for s in p.stmts():
            if isinstance(s, ast.Assign) and isinstance(s.targets[0], ast.Name):
                stm[s.targets[0].id] = ast.unparse(s.value)
        msgp = [a.arg for a in sm.args.args if a.arg != "self"][0]
        insarg = ast.unparse(calls[ins[0]][0].args[0]) if ins and calls[ins[0]][0].args else None
        ok2 = insarg is not None and stm.get(insarg) == f"PendingAnswer({msgp})" and names[wt[0]] == f"{insarg}.wait"
        ctx.decide(ok2, "R-ALIAS/waiter", construct, br.where(sm), "the waiter inserted is the one awaited, built from the request",
                   f"inserted waiter `{insarg}` = {stm.get(insarg)}, awaited `{names[wt[0]]}`", key="same_waiter")
        rets = ast.unparse(p.term_node.value) if p.term == "return" and p.term_node.value is not None else None
        ctx.decide(rets == f"{insarg}.msg", "R-FLOW/waiter-result", construct, br.where(sm), "returns the waiter's message",
                   f"a waiting caller returns `{rets}`", key="returns_msg", nontrivial=False)
    ctx.floor("publishing_paths", n, 2)
    ctx.floor("waiting_paths", waited, 1)
    # the wait is conditioned on request + recv_answer
    tests = [ast.unparse(x.test) for x in walk_no_nested(sm) if isinstance(x, ast.If)]
    ctx.decide(any("is_request()" in t and "recv_answer" in t for t in tests), "R-DOM/waits-for-requests", construct, br.where(sm),
               "waiting is conditioned on a request sent with recv_answer", f"guards: {tests}", key="guard", nontrivial=False)

    ctx.clause = "2-registry-keys"
    ins = ctx.need(wk.methods.get("insert_pending_answer"), "Worker.insert_pending_answer")
    isp = ctx.need(wk.methods.get("is_pending_answer"), "Worker.is_pending_answer")
    get = ctx.need(wk.methods.get("get_pending_answer"), "Worker.get_pending_answer")
    rem = ctx.need(wk.methods.get("remove_pending_answer"), "Worker.remove_pending_answer")
    pi = [a.arg for a in ins.args.args if a.arg != "self"][0]
    keys = []
    for d in [x for x in ast.walk(ins) if isinstance(x, ast.Dict)]:
        for k, v in zip(d.keys, d.values):
            keys.append((ast.unparse(k), ast.unparse(v)))
    for x in ast.walk(ins):
        if isinstance(x, ast.Assign) and isinstance(x.targets[0], ast.Subscript):
            keys.append((ast.unparse(x.targets[0].slice), ast.unparse(x.value)))
    ctx.decide(keys == [(f"{pi}.msg.header.hop_by_hop", pi)], "R-TABLE/pending-keys", f"{wk.qual}.insert_pending_answer", wk.where(ins),
               "waiters are keyed by the request's Hop-by-Hop", f"insert writes {keys}", key="insert")
    pm = [a.arg for a in isp.args.args if a.arg != "self"][0]
    tests = [ast.unparse(x.test) for x in ast.walk(isp) if isinstance(x, ast.If)] + \
            [ast.unparse(x.value) for x in ast.walk(isp) if isinstance(x, ast.Return) and x.value is not None and not isinstance(x.value, ast.Constant)]
    ok = any(t in (f"{pm}.header.hop_by_hop in self.pending_answers.keys()", f"{pm}.header.hop_by_hop in self.pending_answers") for t in tests)
    ctx.decide(ok, "R-TABLE/pending-keys", f"{wk.qual}.is_pending_answer", wk.where(isp),
               "membership is tested with the answer's Hop-by-Hop", f"membership test: {tests}", key="is_pending")
    pg = [a.arg for a in get.args.args if a.arg != "self"][0]
    rets = [ast.unparse(x.value) for x in ast.walk(get) if isinstance(x, ast.Return) and x.value is not None]
    ctx.decide(rets == [f"self.pending_answers[{pg}]"], "R-TABLE/pending-keys", f"{wk.qual}.get_pending_answer", wk.where(get),
               "lookup indexes the registry with its argument", f"lookup returns {rets}", key="get")
    hp = ctx.need(br.methods.get("handler_pending_answers"), "Bromelia.handler_pending_answers")
    hm = [a.arg for a in hp.args.args if a.arg != "self"][0]
    gcalls = [c for c in fn_calls(hp) if call_name(c).endswith(".get_pending_answer")]
    ok = len(gcalls) == 1 and [ast.unparse(a) for a in gcalls[0].args] == [f"{hm}.header.hop_by_hop"]
    ctx.decide(ok, "R-TABLE/pending-keys", f"{br.qual}.handler_pending_answers", br.where(hp),
               "the dispatch side looks the waiter up by the answer's Hop-by-Hop",
               f"dispatch looks up with {[ast.unparse(a) for c in gcalls for a in c.args]}", key="dispatch_lookup")
    pr = [a.arg for a in rem.args.args if a.arg != "self"][0]
    pops = [c for c in fn_calls(rem) if call_name(c) == "self.pending_answers.pop"]
    ok = len(pops) == 1 and ast.unparse(pops[0].args[0]) == f"{pr}.msg.header.hop_by_hop"
    ctx.decide(ok, "R-TABLE/pending-keys", f"{wk.qual}.remove_pending_answer", wk.where(rem),
               "removal uses the Hop-by-Hop of the waiter's message", f"removal pops {[ast.unparse(c) for c in pops]}", key="remove")

    # the registry belongs to one worker (one connection): Hop-by-Hop identifiers are unique per connection only
    wini = ctx.need(wk.methods.get("__init__"), "Worker.__init__")
    inst = [x for x in walk_no_nested(wini) if isinstance(x, ast.Assign) and any(ast.unparse(t) == "self.pending_answers" for t in x.targets)]
    cfgw = make_cfg(repo, wini)
    ok = len(inst) == 1 and ast.unparse(inst[0].value) in ("dict()", "{}") and \
        must_pass(cfgw, lambda n: n.ast is inst[0]) and "pending_answers" not in wk.attrs
    ctx.decide(ok, "R-WHO/registry-per-worker", f"{wk.qual}.pending_answers", wk.where(wini),
               "each Worker creates its own empty pending_answers registry",
               "pending_answers is not a fresh per-instance dict created in Worker.__init__ (class-level or shared registry): two "
               "workers (connections) whose requests carry the same Hop-by-Hop collide - one caller gets the other's answer and "
               "the other never wakes", key="per_worker")
    writers = sorted({fi.qual for fi in repo.funcs.values() for x in walk_no_nested(fi.node)
                      if isinstance(x, ast.Attribute) and x.attr == "pending_answers" and fi.cls is not wk})
    ctx.decide(not writers, "R-WHO/registry-per-worker", f"{wk.qual}.pending_answers", wk.where(),
               "only Worker methods touch the registry", f"pending_answers is accessed from {writers}", key="who_touches", nontrivial=False)

    ctx.clause = "2-update-notify-remove-order"
    # dispatch: guarded by is_pending_answer, update_msg(msg) before remove_pending_answer (which notifies then pops)
    found = False
    for p in enum_paths(hp.body, loops="skip"):
        names = [(call_name(c), c) for c, _ in p.calls()]
        nm = [x for x, _ in names]
        if any(x.endswith(".remove_pending_answer") for x in nm):
            found = True
            conds = {ast.unparse(t): tr for t, tr in p.conds()}
            guarded = any("is_pending_answer" in t and tr for t, tr in conds.items())
            iu = next((i for i, x in enumerate(nm) if x.endswith(".update_msg")), None)
            ir = next(i for i, x in enumerate(nm) if x.endswith(".remove_pending_answer"))
            upd_ok = iu is not None and iu < ir and [ast.unparse(a) for a in names[iu][1].args] == [hm]
            ctx.decide(guarded and upd_ok, "R-MUSTPASS/dispatch-order", f"{br.qual}.handler_pending_answers", br.where(hp),
                       "waiter's message replaced by the answer before it is notified",
                       "the waiter is notified/removed before (or without) its message being replaced by the received answer, "
                       "or without checking that a waiter exists", key="update_before_notify")
    ctx.decide(found, "R-MUSTPASS/dispatch-order", f"{br.qual}.handler_pending_answers", br.where(hp),
               "dispatch path that wakes the waiter exists", "no path of handler_pending_answers wakes a waiter", key="wakes",
               nontrivial=False)
    nm = [call_name(c) for c in fn_calls(rem)]
    inot = next((i for i, x in enumerate(nm) if x == f"{pr}.notify"), None)
    ipop = next((i for i, x in enumerate(nm) if x == "self.pending_answers.pop"), None)
    cfg = make_cfg(repo, rem)
    ok = inot is not None and ipop is not None and inot < ipop and \
        must_pass(cfg, lambda n: any(call_name(c) == f"{pr}.notify" for c in node_calls(n)))
    ctx.decide(ok, "R-MUSTPASS/dispatch-order", f"{wk.qual}.remove_pending_answer", wk.where(rem),
               "notify on every path, removal after notification",
               "remove_pending_answer does not notify the waiter on every path before removing it", key="notify_then_pop")

    ctx.clause = "3-notify-sets-awaited-event"
    wt = ctx.need(pa.methods.get("wait"), "PendingAnswer.wait")
    nt = ctx.need(pa.methods.get("notify"), "PendingAnswer.notify")
    w_calls = [call_name(c) for c in fn_calls(wt)]
    n_calls = [call_name(c) for c in fn_calls(nt)]
    waited_ev = [c[:-5] for c in w_calls if c.endswith(".wait")]
    set_in_notify = [c[:-4] for c in n_calls if c.endswith(".set")]
    ok = len(waited_ev) >= 1 and waited_ev[0] in set_in_notify
    cfgn = make_cfg(repo, nt)
    on_all = ok and must_pass(cfgn, lambda n: any(call_name(c) == f"{waited_ev[0]}.set" for c in node_calls(n)))
    ctx.decide(ok and on_all, "R-DOM/notify", f"{pa.qual}.notify", pa.where(nt),
               f"notify sets {waited_ev[0] if waited_ev else '?'} on every path - the event wait() blocks on",
               f"wait() blocks on {waited_ev} but notify() sets {set_in_notify}: a caller whose answer has arrived is never woken",
               key="same_event")
    # rendezvous closed: whatever notify waits for is set by wait() after waking, on every path
    n_waits = [c[:-5] for c in n_calls if c.endswith(".wait")]
    w_sets = [c[:-4] for c in w_calls if c.endswith(".set")]
    cfgw = make_cfg(repo, wt)
    ok = all(e in w_sets for e in n_waits) and all(
        must_pass(cfgw, lambda n, e=e: any(call_name(c) == f"{e}.set" for c in node_calls(n))) for e in n_waits)
    ctx.decide(ok, "R-DOM/notify", f"{pa.qual}.wait", pa.where(wt),
               "every event notify() waits for is set by wait() on every path",
               f"notify() waits for {n_waits} but wait() sets {w_sets}: the dispatch thread blocks forever", key="rendezvous")
    order_ok = bool(waited_ev) and all(f"{e}.set" in w_calls for e in n_waits) and \
        w_calls.index(f"{waited_ev[0]}.wait") < min([w_calls.index(f"{e}.set") for e in n_waits] or [99])
    ctx.decide(order_ok, "R-DOM/notify", f"{pa.qual}.wait", pa.where(wt), "wait() releases the notifier only after waking",
               "wait() releases the notifier before it has been woken", key="rendezvous_order", nontrivial=False)
