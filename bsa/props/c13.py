"""C13 - each request reaches its registered handler and always gets exactly one answer."""
import ast

from ..astutil import make_cfg, call_name, fn_calls, must_pass, node_calls, walk_no_nested, kwarg
from ..paths import enum_paths, eval_bool
from .c12 import analyse_decorate

META = {
    "explanation": "Route registry writer (Bromelia.route) and reader (get_request_callback) agree on nesting order and key "
                   "sources; path enumeration of callback_route: exactly one self.send_message on every normal path and on the "
                   "explicit raise exit, handler invoked once inside a try covering Exception, non-answer branch taken iff not "
                   "isinstance(answer, DiameterAnswer); no unguarded raising operation on handler-supplied objects between the "
                   "handler's return and the send (redundant-toggle guard and dynamic-attribute guard in decorate_answer); "
                   "per-field flow of create_error_answer; Worker.set_outgoing_message puts exactly once.",
    "decided": ["registry writer=reader", "exactly-one send per path", "handler wrapped", "no unguarded raise before the send",
                "error-answer field flows", "single put"],
    "not_decided": ["which handler object is in the table at run time", "behaviour when no route is registered",
                    "cross-process queue delivery"],
    "trusted_base": ["Python ast", "path enumeration"],
    "assumptions": ["standard exception = subclass of Exception (library errors derive from BaseException and are outside the "
                    "property's quantifier; reported as advisory)"],
}


def check(ctx):
    repo = ctx.repo
    m = ctx.need(repo.mods.get("bromelia.bromelia"), "module bromelia.bromelia")
    br = ctx.need(repo.cls("bromelia.bromelia.Bromelia"), "Bromelia")
    wk = ctx.need(repo.cls("bromelia.bromelia.Worker"), "Worker")

    # ---- 1 registry ------------------------------------------------------------------
    ctx.clause = "1-route-registry"
    rt = ctx.need(br.methods.get("route"), "Bromelia.route")
    params = [a.arg for a in rt.args.args if a.arg != "self"]
    writes = []
    for n in ast.walk(rt):
        if isinstance(n, ast.Dict):
            for k, v in zip(n.keys, n.values):
                if isinstance(v, ast.Dict):
                    for k2, v2 in zip(v.keys, v.values):
                        writes.append((ast.unparse(k), ast.unparse(k2), ast.unparse(v2)))
        if isinstance(n, ast.Call) and isinstance(n.func, ast.Attribute) and n.func.attr == "update" \
                and isinstance(n.func.value, ast.Subscript) and ast.unparse(n.func.value.value) == "self.routes":
            arg = n.args[0]
            d = arg
            if isinstance(arg, ast.Name):
                for a in ast.walk(rt):
                    if isinstance(a, ast.Assign) and isinstance(a.targets[0], ast.Name) and a.targets[0].id == arg.id:
                        d = a.value
            if isinstance(d, ast.Dict):
                for k2, v2 in zip(d.keys, d.values):
                    writes.append((ast.unparse(n.func.value.slice), ast.unparse(k2), ast.unparse(v2)))
        if isinstance(n, ast.Assign) and isinstance(n.targets[0], ast.Subscript) and isinstance(n.targets[0].value, ast.Subscript) \
                and ast.unparse(n.targets[0].value.value) == "self.routes":
            writes.append((ast.unparse(n.targets[0].value.slice), ast.unparse(n.targets[0].slice), ast.unparse(n.value)))
    fnparam = None
    for n in ast.walk(rt):
        if isinstance(n, ast.FunctionDef) and n.name != "route" and n.args.args and not n.args.vararg:
            fnparam = n.args.args[0].arg
    ok = len(writes) >= 2 and len(params) == 2 and all(w == (params[0], params[1], fnparam) for w in writes)
    ctx.decide(ok, "R-TABLE/routes", f"{br.qual}.route", br.where(rt),
               "registration writes routes[application_id][command_code] = handler",
               f"registration writes {writes}; expected routes[{params[0] if params else '?'}][{params[1] if len(params) > 1 else '?'}] = handler",
               key="writer")
    gc = ctx.need(br.methods.get("get_request_callback"), "Bromelia.get_request_callback")
    p = [a.arg for a in gc.args.args if a.arg != "self"][0]
    env = {}
    for s in gc.body:
        if isinstance(s, ast.Assign) and isinstance(s.targets[0], ast.Name):
            env[s.targets[0].id] = ast.unparse(s.value)
    rets = [n.value for n in walk_no_nested(gc) if isinstance(n, ast.Return) and n.value is not None]
    ok = False
    got = None
    if len(rets) == 1 and isinstance(rets[0], ast.Subscript) and isinstance(rets[0].value, ast.Subscript) \
            and ast.unparse(rets[0].value.value) == "self.routes":
        k1 = ast.unparse(rets[0].value.slice)
        k2 = ast.unparse(rets[0].slice)
        k1, k2 = env.get(k1, k1), env.get(k2, k2)
        got = (k1, k2)
        ok = got == (f"{p}.header.application_id", f"{p}.header.command_code")
    ctx.decide(ok, "R-TABLE/routes", f"{br.qual}.get_request_callback", br.where(gc),
               "lookup reads routes[request.header.application_id][request.header.command_code]",
               f"lookup reads routes[{got[0] if got else '?'}][{got[1] if got else '?'}]: not the (Application-ID, command code) "
               f"of the request in the order the registration uses", key="reader")

    # ---- 2/3 callback_route ------------------------------------------------------------------
    ctx.clause = "2-exactly-one-answer"
    cb = ctx.need(br.methods.get("callback_route"), "Bromelia.callback_route")
    construct = f"{br.qual}.callback_route"
    rp = [a.arg for a in cb.args.args if a.arg != "self"][0]
    npaths = 0
    for isans in (True, False):
        def atom(e, isans=isans):
            t = ast.unparse(e)
            if t == "isinstance(answer, DiameterAnswer)":
                return isans
            return None
        for pth in enum_paths(cb.body, decide=lambda t, ev: eval_bool(t, atom), loops="skip"):
            npaths += 1
            sends = [c for c, _ in pth.calls() if call_name(c) == "self.send_message"]
            handler_exc = any(e[0] == "try-exc" and any("callback_function" in ast.unparse(s) for s in e[1].body) for e in pth.events)
            barrier_exc = any(e[0] == "try-exc" and not any("callback_function" in ast.unparse(s) for s in e[1].body) for e in pth.events)
            if handler_exc and isans:
                continue      # handler raised => answer = None => not an answer
            case = f"answer_is_DiameterAnswer={isans},handler_raised={handler_exc},barrier_broken={barrier_exc},exit={pth.term}"
            ok = len(sends) == 1 and pth.term in ("fall", "return", "raise")
            if pth.term == "raise":
                e = pth.term_node.exc
                ok = ok and "BromeliaException" in ast.unparse(e)
            ctx.decide(ok, "R-MUSTPASS/one-send", construct, br.where(cb), f"{case}: one send",
                       f"{case}: self.send_message is called {len(sends)} time(s) on this path - the peer gets "
                       f"{'no answer' if not sends else 'more than one answer'}", key=case)
            # what is sent
            if len(sends) == 1:
                arg = ast.unparse(sends[0].args[0]) if sends[0].args else None
                stm = {}
                for s in pth.stmts():
                    if isinstance(s, ast.Assign) and isinstance(s.targets[0], ast.Name):
                        stm[s.targets[0].id] = ast.unparse(s.value)
                src = stm.get(arg)
                if isans:
                    ok2 = src == f"decorate_answer(answer, {rp})"
                    bad = f"an answer returned by the handler is sent as `{src}` instead of decorate_answer(answer, request)"
                else:
                    ok2 = src == f"self.create_error_answer({rp})"
                    bad = f"without a handler answer the peer is sent `{src}` instead of create_error_answer(request)"
                ctx.decide(ok2, "R-FLOW/what-is-sent", construct, br.where(sends[0]), f"{case}: sends {src}", f"{case}: {bad}",
                           key="sent:" + case)
    ctx.floor("callback_route_paths", npaths, 6)
    # handler invoked once, with the request, via the looked-up callback
    calls = [c for c in fn_calls(cb) if isinstance(c.func, ast.Name) and c.func.id == "callback_function"]
    src_cb = [ast.unparse(s.value) for s in walk_no_nested(cb) if isinstance(s, ast.Assign) and isinstance(s.targets[0], ast.Name)
              and s.targets[0].id == "callback_function"]
    ok = len(calls) == 1 and [ast.unparse(a) for a in calls[0].args] == [rp] and src_cb == [f"self.get_request_callback({rp})"]
    ctx.decide(ok, "R-TABLE/routes", construct, br.where(cb), "the looked-up handler is invoked once with the request",
               f"handler invocation: {[ast.unparse(c) for c in calls]} from {src_cb}", key="invoke_once")
    ctx.clause = "3-handler-wrapped"
    ok = False
    for n in walk_no_nested(cb):
        if isinstance(n, ast.Try) and calls and any(c is calls[0] for s in n.body for c in ast.walk(s)):
            for h in n.handlers:
                if h.type is None or ast.unparse(h.type) in ("Exception", "BaseException"):
                    sets_none = any(isinstance(s, ast.Assign) and ast.unparse(s) == "answer = None" for s in h.body)
                    reraises = any(isinstance(s, ast.Raise) for s in h.body)
                    ok = sets_none and not reraises
    ctx.decide(ok, "R-DOM/handler-wrapped", construct, br.where(cb),
               "handler call is inside try/except Exception that substitutes `answer = None`",
               "the handler call is not wrapped by an `except Exception` that falls through to the error answer", key="wrapped")
    tests = [ast.unparse(n.test) for n in walk_no_nested(cb) if isinstance(n, ast.If)]
    ctx.decide("not isinstance(answer, DiameterAnswer)" in tests, "R-DOM/handler-wrapped", construct, br.where(cb),
               "non-answer branch is `not isinstance(answer, DiameterAnswer)`",
               f"the fallback branch is selected by {tests}", key="nonanswer_test")
    ctx.advisory("library errors derive from BaseException and escape `except Exception` (outside the property's quantifier)")

    # ---- 2a/2b guards in decorate_answer ---------------------------------------------------------
    analyse_decorate(ctx, repo, {"eflag", "attrguard"})
    # relabel clauses for readability
    for o in ctx.obs:
        if o.clause == "3-error-flag":
            o.clause = "2a-redundant-toggle-guard"
        elif o.clause == "5-attribute-guard":
            o.clause = "2b-attribute-guard"

    # ---- 4 create_error_answer ---------------------------------------------------------------------
    ctx.clause = "4-error-answer"
    ce = ctx.need(br.methods.get("create_error_answer"), "Bromelia.create_error_answer")
    construct = f"{br.qual}.create_error_answer"
    rq = [a.arg for a in ce.args.args if a.arg != "self"][0]
    rets = [n.value for n in walk_no_nested(ce) if isinstance(n, ast.Return) and n.value is not None]
    okr = len(rets) == 1 and isinstance(rets[0], ast.Call) and call_name(rets[0]) == "DiameterAnswer" and \
        kwarg(rets[0], "header") is not None and ast.unparse(kwarg(rets[0], "header")) == f"{rq}.header"
    ctx.decide(okr, "R-FLOW/error-answer", construct, br.where(ce), "DiameterAnswer(header=request.header, ...)",
               "the error answer is not a DiameterAnswer built from the request's header (identifiers would be lost)", key="header")
    lists = [n for n in ast.walk(ce) if isinstance(n, ast.List)]
    elems = {}
    for l in lists:
        for e in l.elts:
            if isinstance(e, ast.Call) and isinstance(e.func, ast.Name) and e.args:
                elems[e.func.id] = e.args[0]
    want = {
        "SessionIdAVP": lambda a: ast.unparse(a) == f"{rq}.session_id_avp.data",
        "ResultCodeAVP": lambda a: repo.fold(m, a) == (5012).to_bytes(4, "big"),
        "OriginHostAVP": lambda a: ast.unparse(a) == "config['LOCAL_NODE_HOSTNAME']",
        "OriginRealmAVP": lambda a: ast.unparse(a) == "config['LOCAL_NODE_REALM']",
        "DestinationRealmAVP": lambda a: ast.unparse(a) == f"{rq}.origin_realm_avp.data",
        "DestinationHostAVP": lambda a: ast.unparse(a) == f"{rq}.origin_host_avp.data",
    }
    for k, pred in want.items():
        a = elems.get(k)
        ctx.decide(a is not None and pred(a), "R-FLOW/error-answer", construct, br.where(a if a is not None else ce),
                   f"{k} <- {ast.unparse(a) if a is not None else None}",
                   f"{k} of the error answer is built from `{ast.unparse(a) if a is not None else None}`", key=f"field:{k}")
    cfgsrc = [ast.unparse(s.value) for s in walk_no_nested(ce) if isinstance(s, ast.Assign) and isinstance(s.targets[0], ast.Name)
              and s.targets[0].id == "config"]
    ctx.decide(cfgsrc == ["self.associations[application_id].app.config"] or
               cfgsrc == [f"self.associations[{rq}.header.application_id].app.config"], "R-FLOW/error-answer", construct,
               br.where(ce), "local origin comes from the configuration of the request's application",
               f"config comes from {cfgsrc}", key="config", nontrivial=False)

    # ---- 5 single put --------------------------------------------------------------------------------
    ctx.clause = "5-single-put"
    so = ctx.need(wk.methods.get("set_outgoing_message"), "Worker.set_outgoing_message")
    puts = [c for c in fn_calls(so) if call_name(c) == "self.send_queue.put"]
    cfg = make_cfg(repo, so)
    ok = len(puts) == 1 and must_pass(cfg, lambda n: any(c is puts[0] for c in node_calls(n))) and \
        [ast.unparse(a) for a in puts[0].args] == [so.args.args[1].arg]
    ctx.decide(ok, "R-MUSTPASS/single-put", f"{wk.qual}.set_outgoing_message", wk.where(so),
               "the message is put on the send queue exactly once", "set_outgoing_message does not put the message exactly once",
               key="put")
    sm = ctx.need(br.methods.get("send_message"), "Bromelia.send_message")
    outs = [c for c in fn_calls(sm) if call_name(c).endswith(".set_outgoing_message")]
    ctx.decide(len(outs) == 1, "R-MUSTPASS/single-put", f"{br.qual}.send_message", br.where(sm),
               "send_message publishes through one set_outgoing_message call",
               f"send_message has {len(outs)} set_outgoing_message calls", key="publish_once", nontrivial=False)
