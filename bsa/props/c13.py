"""C13 - each request reaches its registered handler and always gets exactly one answer."""
import ast

from ..astutil import strip_doc, make_cfg, call_name, fn_calls, must_pass, node_calls, walk_no_nested, kwarg
from ..paths import enum_paths, eval_bool
from .c12 import analyse_decorate

META = {
    "explanation": "Route registry writer (Bromelia.route) and reader (get_request_callback) agree on nesting order and key "
                   "sources; path enumeration of callback_route: exactly one self.send_message on every normal path and on the "
                   "explicit raise exit, handler invoked once inside a try covering Exception, non-answer branch taken iff not "
                   "isinstance(answer, DiameterAnswer); no unguarded raising operation on handler-supplied objects between the "
                   "handler's return and the send (redundant-toggle guard and dynamic-attribute guard in decorate_answer); "
                   "per-field flow of create_error_answer; Worker.set_outgoing_message puts exactly once.",
    "decided": ["registry writer=reader", "exactly-one send per path", "handler wrapped", "no unguarded raise before the send",
                "error-answer field flows", "single put"],
    "not_decided": ["which handler object is in the table at run time", "behaviour when no route is registered",
                    "cross-process queue delivery"],
    "trusted_base": ["Python ast", "path enumeration"],
    "assumptions": ["standard exception = subclass of Exception (library errors derive from BaseException and are outside the "
                    "property's quantifier; reported as advisory)"],
}


def check(ctx):
    repo = ctx.repo
    m = ctx.need(repo.mods.get("bromelia.bromelia"), "module bromelia.bromelia")
    br = ctx.need(repo.cls("bromelia.bromelia.Bromelia"), "Bromelia")
    wk = ctx.need(repo.cls("bromelia.bromelia.Worker"), "Worker")

    # ---- 1 registry ------------------------------------------------------------------
    ctx.clause = "1-route-registry"
    rt = ctx.need(br.methods.get("route"), "Bromelia.route")
    params = [a.arg for a in rt.args.args if a.arg != "self"]
    from .. import sym
    fns = [n for n in ast.walk(rt) if isinstance(n, (ast.FunctionDef, ast.AsyncFunctionDef))]
    fnparam = None
    for n in fns:
        if n is not rt and len(n.args.args) == 1 and not n.args.vararg:
            fnparam = n.args.args[0].arg
    ROUTES = ("attr", ("name", "self"), "routes")
    rows, okw, n_w = [], len(params) == 2 and fnparam is not None, 0
    for fn_ in fns:
        if not any(isinstance(x, ast.Attribute) and x.attr == "routes" for x in walk_no_nested(fn_)):
            continue
        for p_ in sym.Interp().run(strip_doc(fn_.body)):
            entries, clobbers = sym.table_writes(p_, lambda t: t == ROUTES)
            if not entries and p_.term == "raise":
                continue
            n_w += len(entries)
            rows.append(([tuple(sym.show(x) for x in e) for e in entries], clobbers))
            okw = okw and len(entries) == 1 and clobbers == 0 and len(params) == 2 and \
                entries[0] == (("name", params[0]), ("name", params[1]), ("name", fnparam))
    ctx.decide(okw and n_w >= 1, "R-TABLE/routes", f"{br.qual}.route", br.where(rt),
               "registration writes routes[application_id][command_code] = handler",
               f"registration writes (entries, buckets replaced) = {rows}; expected routes[{params[0] if params else '?'}]"
               f"[{params[1] if len(params) > 1 else '?'}] = handler on every path without replacing an existing bucket", key="writer")
    # the table starts empty and no two applications can share one bucket object
    bini = ctx.need(br.methods.get("__init__"), "Bromelia.__init__")
    inits = [x for x in walk_no_nested(bini) if isinstance(x, ast.Assign) and any(ast.unparse(t) == "self.routes" for t in x.targets)]
    ok_init = len(inits) == 1 and ast.unparse(inits[0].value) in ("{}", "dict()")
    ctx.decide(ok_init, "R-ALIAS/route-buckets", f"{br.qual}.__init__", br.where(inits[0] if inits else bini),
               "the route table starts as an empty dict (buckets are created per application by route())",
               f"the route table is initialised with `{ast.unparse(inits[0].value)[:70] if inits else None}`: pre-built buckets (e.g. "
               f"dict.fromkeys(apps, {{}})) are one shared object, so a handler registered for one application is reachable through - and "
               f"overwritten by - every other application", key="routes_init")
    shared = [x for fi_ in repo.funcs.values() if fi_.mod.name == "bromelia.bromelia" for x in walk_no_nested(fi_.node)
              if isinstance(x, ast.Call) and call_name(x) == "dict.fromkeys" and len(x.args) == 2
              and isinstance(x.args[1], (ast.Dict, ast.List, ast.Set, ast.Call))]
    ctx.decide(not shared, "R-ALIAS/route-buckets", "bromelia.bromelia", "bromelia/bromelia.py",
               "no table is built with dict.fromkeys(keys, <mutable>)",
               f"`{ast.unparse(shared[0])[:70] if shared else ''}` gives every key the same mutable value", key="fromkeys", nontrivial=False)
    gc = ctx.need(br.methods.get("get_request_callback"), "Bromelia.get_request_callback")
    p = [a.arg for a in gc.args.args if a.arg != "self"][0]
    P = sym.S(p)
    got, ok = [], True
    for p_ in sym.Interp().run(strip_doc(gc.body), sym.PathState({p: P}, [], [])):
        if p_.term != "return":
            ok = False
            continue
        v = p_.value
        got.append(sym.show(v))
        ok = ok and v == ("sub", ("sub", ROUTES, ("attr", ("attr", P, "header"), "application_id")),
                          ("attr", ("attr", P, "header"), "command_code"))
    ctx.decide(ok and bool(got), "R-TABLE/routes", f"{br.qual}.get_request_callback", br.where(gc),
               "lookup reads routes[request.header.application_id][request.header.command_code]",
               f"lookup returns {got}: not routes[(Application-ID)][(command code)] of the request in the order the registration uses",
               key="reader")

    # ---- 2/3 callback_route ------------------------------------------------------------------
    ctx.clause = "2-exactly-one-answer"
    cb = ctx.need(br.methods.get("callback_route"), "Bromelia.callback_route")
    construct = f"{br.qual}.callback_route"
    rp = [a.arg for a in cb.args.args if a.arg != "self"][0]
    # decided on terms (bsa.sym): REQ = the request, H = the looked-up handler applied to it
    from .. import sym
    REQ, SELF = sym.S(rp), ("name", "self")
    LOOK = ("call", ("attr", SELF, "get_request_callback"), (REQ,), ())
    Hc = ("call", LOOK, (REQ,), ())
    it = sym.Interp(fold=lambda e: repo.fold(m, e), log_calls=True)
    paths = it.run(strip_doc(cb.body), sym.PathState({rp: REQ}, [], []))
    npaths, n_handler_exc, wrapped_ok, invoked_ok, seen_invoked = 0, 0, True, True, 0
    reraise_path, n_untested = False, 0
    for p_ in paths:
        excs = [c[1] for c, tv in p_.conds if isinstance(c, tuple) and c[0] == "exc"]
        barrier_exc = any("BrokenBarrier" in x for x in excs)
        handler_exc = any(x.split(".")[-1] in ("Exception", "BaseException") for x in excs)
        tested = [(c[2][0], tv) for c, tv in p_.conds if isinstance(c, tuple) and c[0] == "call" and c[1] == ("name", "isinstance")
                  and len(c[2]) == 2 and c[2][1] == ("name", "DiameterAnswer")]
        if not tested and handler_exc and p_.term == "raise":
            reraise_path = True       # the handler's exception leaves callback_route: no answer is sent
            continue
        if len(tested) != 1:
            n_untested += 1
            continue
        X, isans = tested[0]
        if handler_exc:
            n_handler_exc += 1
            wrapped_ok = wrapped_ok and X is None
            if isans:
                continue          # the handler raised => the value under test is None => not an answer
        else:
            invoked_ok = invoked_ok and X == Hc and len([e for e in p_.effects if e[0] == "ecall" and e[1] == Hc]) == 1
            seen_invoked += 1
        npaths += 1
        sends = [e[1] for e in p_.effects if e[0] == "ecall" and isinstance(e[1], tuple) and e[1][0] == "call"
                 and e[1][1] == ("attr", SELF, "send_message")]
        case = f"answer_is_DiameterAnswer={isans},handler_raised={handler_exc},barrier_broken={barrier_exc},exit={p_.term}"
        ok = len(sends) == 1 and p_.term in ("fall", "return", "raise")
        if p_.term == "raise":
            ok = ok and "BromeliaException" in sym.show(p_.value)
        ctx.decide(ok, "R-MUSTPASS/one-send", construct, br.where(cb), f"{case}: one send",
                   f"{case}: self.send_message is called {len(sends)} time(s) on this path - the peer gets "
                   f"{'no answer' if not sends else 'more than one answer'}", key=case)
        if len(sends) == 1:
            arg = sends[0][2][0] if sends[0][2] else (dict(sends[0][3]).get("msg"))
            if isans:
                ok2 = arg == ("call", ("name", "decorate_answer"), (X, REQ), ())
                bad = f"an answer returned by the handler is sent as `{sym.show(arg)}` instead of decorate_answer(answer, request)"
            else:
                ok2 = arg == ("call", ("attr", SELF, "create_error_answer"), (REQ,), ())
                bad = f"without a handler answer the peer is sent `{sym.show(arg)}` instead of create_error_answer(request)"
            ctx.decide(ok2, "R-FLOW/what-is-sent", construct, br.where(cb), f"{case}: sends {sym.show(arg)[:60]}", f"{case}: {bad}",
                       key="sent:" + case)
    if n_untested and npaths:
        ctx.undecided("R-MUSTPASS/one-send", construct, br.where(cb), f"{n_untested} path(s) without exactly one "
                      f"isinstance(<answer>, DiameterAnswer) decision", key="isinstance")
    ctx.decide(npaths > 0 or not n_untested, "R-DOM/handler-wrapped", construct, br.where(cb),
               "the fallback branch is selected by isinstance(<handler result>, DiameterAnswer)",
               "the fallback (error answer) branch is not selected by an isinstance(<handler result>, DiameterAnswer) test: a handler "
               "that returns something else than a DiameterAnswer is not answered with the error answer", key="nonanswer_test")
    ctx.decide(invoked_ok and seen_invoked > 0, "R-TABLE/routes", construct, br.where(cb),
               "the looked-up handler is invoked once with the request",
               "the value tested/sent is not the result of invoking self.get_request_callback(request)(request) exactly once",
               key="invoke_once")
    ctx.clause = "3-handler-wrapped"
    reraise = reraise_path
    for n in walk_no_nested(cb):
        if isinstance(n, ast.Try):
            for h in n.handlers:
                if (h.type is None or ast.unparse(h.type) in ("Exception", "BaseException")) and \
                        any(isinstance(x, ast.Raise) for x in ast.walk(h)):
                    reraise = True
    ctx.decide(n_handler_exc > 0 and wrapped_ok and not reraise, "R-DOM/handler-wrapped", construct, br.where(cb),
               "handler call is inside try/except Exception after which the answer under test is None",
               "the handler call is not wrapped by an `except Exception` that falls through to the error answer", key="wrapped")
    # the error path itself cannot fail: from the entry of the `except Exception` handler to the send of the error answer,
    # callback_route evaluates nothing that can raise on its own - in particular no indexing (`e.args[0]` of an exception raised
    # without arguments is an IndexError raised INSIDE the handler: it leaves callback_route before any answer is sent)
    risky = []
    for n in walk_no_nested(cb):
        if isinstance(n, ast.Try):
            for h in n.handlers:
                if h.type is None or ast.unparse(h.type) in ("Exception", "BaseException"):
                    for b in h.body:
                        for x in ast.walk(b):
                            if isinstance(x, ast.Subscript) and isinstance(x.ctx, ast.Load) and not isinstance(x.slice, ast.Slice):
                                risky.append(x)
                            elif isinstance(x, ast.Call) and isinstance(x.func, ast.Name) and x.func.id in ("next", "int", "float") :
                                risky.append(x)
                            elif isinstance(x, ast.BinOp) and isinstance(x.op, (ast.Div, ast.FloorDiv, ast.Mod)) and not isinstance(x.left, ast.Constant):
                                risky.append(x)
    ctx.decide(not risky, "R-ESC/error-path", construct, br.where(risky[0] if risky else cb),
               "the handler of a failing route function evaluates nothing that can itself raise",
               f"inside the `except Exception` handler of callback_route `{ast.unparse(risky[0])[:50] if risky else ''}` can raise on its own "
               f"(an exception raised without arguments has empty args; a failing assert, bare `raise KeyError`, StopIteration ...): "
               f"the new exception leaves callback_route before create_error_answer/send_message run, so the request gets no answer at all",
               key="error_path")
    if npaths and not reraise:
        ctx.floor("callback_route_paths", npaths, 6)
    else:
        ctx.count("callback_route_paths", npaths)
    ctx.advisory("library errors derive from BaseException and escape `except Exception` (outside the property's quantifier)")

    # ---- 2a/2b guards in decorate_answer ---------------------------------------------------------
    analyse_decorate(ctx, repo, {"eflag", "attrguard"})
    # relabel clauses for readability
    for o in ctx.obs:
        if o.clause == "3-error-flag":
            o.clause = "2a-redundant-toggle-guard"
        elif o.clause == "5-attribute-guard":
            o.clause = "2b-attribute-guard"

    # ---- 4 create_error_answer ---------------------------------------------------------------------
    ctx.clause = "4-error-answer"
    ce = ctx.need(br.methods.get("create_error_answer"), "Bromelia.create_error_answer")
    construct = f"{br.qual}.create_error_answer"
    rq = [a.arg for a in ce.args.args if a.arg != "self"][0]
    # on terms: the returned object is DiameterAnswer(header=REQ.header, avps=[...]) whose six AVPs are built from the request
    # and from the configuration of the application the request belongs to
    RQ = sym.S(rq)
    HDRQ = ("attr", RQ, "header")
    CONF = ("attr", ("attr", ("sub", ("attr", ("name", "self"), "associations"), ("attr", HDRQ, "application_id")), "app"), "config")
    eps = [p_ for p_ in sym.Interp(fold=lambda e: repo.fold(m, e)).run(strip_doc(ce.body), sym.PathState({rq: RQ}, [], [])) if p_.term == "return"]
    okr = bool(eps)
    elems = {}
    for p_ in eps:
        v = p_.value
        good = isinstance(v, tuple) and v[0] == "call" and v[1] == ("name", "DiameterAnswer") and dict(v[3]).get("header") == HDRQ
        okr = okr and good
        avl = dict(v[3]).get("avps") if good else None
        if avl is None and good and len(v[2]) >= 2:
            avl = v[2][1]
        if isinstance(avl, tuple) and avl and avl[0] == "list":
            for e in avl[1]:
                if isinstance(e, tuple) and e[0] == "call" and e[1][0] == "name" and len(e[2]) == 1:
                    elems.setdefault(e[1][1], set()).add(e[2][0])
    ctx.decide(okr, "R-FLOW/error-answer", construct, br.where(ce), "DiameterAnswer(header=request.header, ...)",
               "the error answer is not a DiameterAnswer built from the request's header (identifiers would be lost)", key="header")
    want = {
        "SessionIdAVP": ("attr", ("attr", RQ, "session_id_avp"), "data"),
        "ResultCodeAVP": (5012).to_bytes(4, "big"),
        "OriginHostAVP": ("sub", CONF, "LOCAL_NODE_HOSTNAME"),
        "OriginRealmAVP": ("sub", CONF, "LOCAL_NODE_REALM"),
        "DestinationRealmAVP": ("attr", ("attr", RQ, "origin_realm_avp"), "data"),
        "DestinationHostAVP": ("attr", ("attr", RQ, "origin_host_avp"), "data"),
    }
    for k, w in want.items():
        got = elems.get(k, set())
        ctx.decide(got == {w}, "R-FLOW/error-answer", construct, br.where(ce),
                   f"{k} <- {sym.show(w)[:60]}",
                   f"{k} of the error answer is built from {sorted(sym.show(x)[:70] for x in got)}, expected {sym.show(w)[:70]}", key=f"field:{k}")

    # ---- 5 single put --------------------------------------------------------------------------------
    ctx.clause = "5-single-put"
    so = ctx.need(wk.methods.get("set_outgoing_message"), "Worker.set_outgoing_message")
    puts = [c for c in fn_calls(so) if call_name(c) == "self.send_queue.put"]
    cfg = make_cfg(repo, so)
    ok = len(puts) == 1 and must_pass(cfg, lambda n: any(c is puts[0] for c in node_calls(n))) and \
        [ast.unparse(a) for a in puts[0].args] == [so.args.args[1].arg]
    ctx.decide(ok, "R-MUSTPASS/single-put", f"{wk.qual}.set_outgoing_message", wk.where(so),
               "the message is put on the send queue exactly once", "set_outgoing_message does not put the message exactly once",
               key="put")
    # hand-over lock: set_outgoing_message takes send_lock and keeps it; the connection worker releases it after the message
    # has been passed to the association (Worker.send_message / send_messages).  This is what keeps the send queue at one entry:
    # the batch branch of send_handler relies on get_outgoing_messages(), which returns nothing usable.
    def lock_calls(fn_, what):
        return [c for c in fn_calls(fn_) if call_name(c) == f"self.send_lock.{what}"]
    withs = [w_ for w_ in walk_no_nested(so) if isinstance(w_, ast.With) and any("send_lock" in ast.unparse(i.context_expr) for i in w_.items)]
    okh = len(lock_calls(so, "acquire")) == 1 and not lock_calls(so, "release") and not withs
    for nm in ("send_message", "send_messages"):
        f_ = ctx.need(wk.methods.get(nm), f"Worker.{nm}")
        names_ = [call_name(c) for c in fn_calls(f_)]
        rel = [i for i, x in enumerate(names_) if x == "self.send_lock.release"]
        snd = [i for i, x in enumerate(names_) if x in ("self.app.send_message", "self.app.send_messages")]
        okh = okh and len(rel) == 1 and len(snd) == 1 and snd[0] < rel[0]
    ctx.decide(okh, "R-PAIR/send-lock-handoff", f"{wk.qual}.set_outgoing_message", wk.where(so),
               "send_lock is taken at hand-over and released by the connection worker after the message was passed on",
               "the hand-over lock is no longer held from set_outgoing_message until the connection worker has passed the message on "
               "(released early, or not released by send_message/send_messages): two answers can sit in the send queue at once, "
               "send_handler then takes its batch branch whose get_outgoing_messages() yields nothing, the send thread dies and the "
               "requests get no answer", key="handoff_lock")
    sm = ctx.need(br.methods.get("send_message"), "Bromelia.send_message")
    # on every path that returns normally the message is published through exactly one set_outgoing_message call
    from ..astutil import strip_doc as _sd
    counts = set()
    try:
        for p_ in sym.Interp(log_calls=True).run(_sd(sm.body), sym.PathState({a_.arg: sym.S(a_.arg) for a_ in sm.args.args if a_.arg != "self"}, [], [])):
            if p_.term == "raise":
                continue
            seen_ = set()
            for e in p_.effects:
                if e[0] in ("ecall", "call") and isinstance(e[1], tuple) and e[1] and e[1][0] == "call" \
                        and sym.show(e[1][1]).endswith(".set_outgoing_message"):
                    seen_.add(id(e[2]))
            running = any(tv is True and sym.show(c).endswith(".is_running()") for c, tv in p_.conds)
            counts.add(len(seen_) if running else 1 - len(seen_) if len(seen_) == 0 else len(seen_) + 1)
    except sym.TooMany:
        counts = {-1}
    # (a path on which the worker is not running publishes nothing: counted as conforming; one that publishes anyway is not)
    ctx.decide(counts == {1}, "R-MUSTPASS/single-put", f"{br.qual}.send_message", br.where(sm),
               "send_message publishes through one set_outgoing_message call on every path",
               f"send_message publishes through {sorted(counts)} set_outgoing_message calls on its returning paths", key="publish_once", nontrivial=False)
