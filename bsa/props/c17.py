"""C17 - result-code class predicates agree with the numeric family for every code."""
import ast
import re

from ..loader import is_unknown
from ..astutil import strip_doc, call_name
from ..intervals import ISet, accepted_set, test_set, Undecidable
from ..paths import enum_paths

META = {
    "explanation": "Each integer predicate is_result_code_family_kxxx is normalised to a finite union of integer intervals over "
                   "[0, 2^32) by set algebra on its comparison atoms and compared with [1000k+1, 1000k+999] (multiples of 1000 "
                   "are unconstrained by the property); the five sets are checked pairwise disjoint. Each answer-object "
                   "predicate must be a delegation to the verified integer predicate of its own family applied to the "
                   "big-endian integer of result_code_avp.data, or an interval test on that integer; the byte-mask idiom is "
                   "recognised and refuted with a counter-example computed from the folded mask constant.",
    "decided": ["integer predicates as exact interval sets", "pairwise disjointness", "answer-object predicates by delegation/interval",
                "is_result_code_error depends on the header E bit only"],
    "not_decided": [],
    "trusted_base": ["Python ast", "constant folder", "interval-set algebra (bsa.intervals)"],
    "assumptions": ["Result-Code data is 4 octets (C10 clause 8)"],
}

U = ISet.full()
MULT = None


def spec(k):
    return ISet([(1000 * k + 1, 1000 * k + 999)])


def family_ok(acc, k):
    """accepted set agrees with family k on every non-multiple of 1000."""
    s = spec(k)
    missing = s.minus(acc)
    extra = acc.minus(s)
    # extra values may only be multiples of 1000
    bad_extra = None
    for a, b in extra.ivs:
        for x in (a, a + 1, b):
            if a <= x <= b and x % 1000 != 0:
                bad_extra = x
                break
        if b - a >= 1 and bad_extra is None:
            bad_extra = a if a % 1000 else a + 1
        if bad_extra is not None:
            break
    if not missing.empty():
        return False, f"rejects {missing.min()} (n // 1000 == {k})"
    if bad_extra is not None:
        return False, f"accepts {bad_extra} (n // 1000 == {bad_extra // 1000})"
    return True, ""


WITNESS_CODES = sorted({0, 1, 999, 6000, 6001, 6999, 7001, 9999, 10000, 10001, 11001, 12001, 13001, 14001, 15001, 15999, 16001, 20001, 21001,
                        31001, 41001, 51001, 65420, 65535, 70000, 101001, 1001001, 2 ** 31, 2 ** 32 - 1, 4294962001, 4294961001}
                       | {1000 * j + d for j in range(0, 7) for d in (0, 1, 2, 500, 998, 999)})


def witness_refute(repo, m, fn, param, k):
    """(code, answer) for a boundary code on which the predicate's source evaluates to the wrong truth value, else None"""
    from .. import sym
    from ..astutil import strip_doc
    for code in WITNESS_CODES:
        try:
            paths = sym.Interp(fold=lambda e: repo.fold(m, e)).run(strip_doc(fn.body), sym.PathState({param: code}, [], []))
        except sym.TooMany:
            return None
        if len(paths) != 1 or paths[0].term not in ("return", "fall"):
            continue
        v = paths[0].value if paths[0].term == "return" else None
        if not isinstance(v, (bool, int, type(None))):
            continue
        want = 1000 * k + 1 <= code <= 1000 * k + 999
        if bool(v) != want:
            return code, bool(v)
    return None


def check(ctx):
    repo = ctx.repo
    m = ctx.need(repo.mods.get("bromelia.utils"), "module bromelia.utils")
    accs = {}
    ctx.clause = "1-integer-predicates"
    for k in range(1, 6):
        name = f"is_result_code_family_{k}xxx"
        fn = ctx.need(m.funcs.get(name), f"bromelia.utils.{name}")
        construct = f"bromelia.utils.{name}"
        params = [a.arg for a in fn.args.args]
        if len(params) != 1:
            ctx.undecided("R-INTERVAL", construct, f"{m.rel}:{fn.lineno}", "predicate must take one integer", key="params")
            continue
        try:
            acc = accepted_set(repo, m, fn, params[0], U)
        except Undecidable as e:
            # not an interval form: a concrete counter-example still refutes it (evaluation of the predicate's own source
            # on boundary codes by the term interpreter); without one the rule stays undecided
            cex = witness_refute(repo, m, fn, params[0], k)
            if cex is not None:
                ctx.violate("R-INTERVAL", construct, f"{m.rel}:{fn.lineno}",
                            f"the predicate answers {cex[1]} for Result-Code {cex[0]} (n // 1000 == {cex[0] // 1000}, n % 1000 == {cex[0] % 1000}); "
                            f"family {k}xxx is exactly [{1000*k+1},{1000*k+999}]", key="family")
            else:
                ctx.undecided("R-INTERVAL", construct, f"{m.rel}:{fn.lineno}", f"cannot normalise: {e}", key="shape")
            continue
        accs[k] = acc
        ok, why = family_ok(acc, k)
        ctx.decide(ok, "R-INTERVAL", construct, f"{m.rel}:{fn.lineno}", f"accepted set {acc} == family {k}",
                   f"accepted set {acc} differs from [{1000*k+1},{1000*k+999}]: {why}", key="family")
    ks = sorted(accs)
    for i in ks:
        for j in ks:
            if i < j:
                inter = accs[i].intersect(accs[j])
                ctx.decide(inter.empty(), "R-INTERVAL/disjoint", f"bromelia.utils.is_result_code_family_{i}xxx+{j}xxx",
                           m.rel, "disjoint", f"both predicates accept {inter.min()}", key=f"disjoint:{i}:{j}")
    ctx.floor("integer_predicates", len(accs), 5)

    ctx.clause = "2-answer-predicates"
    n_ans = 0
    for name, fn in sorted(m.funcs.items()):
        mm = re.fullmatch(r"is_([1-5])xxx_\w+", name)
        if not mm:
            continue
        n_ans += 1
        k = int(mm.group(1))
        _answer_pred(ctx, repo, m, fn, k, accs)
    ctx.floor("answer_predicates", n_ans, 5)

    # the predicates read `result_code_avp`, the name append/load give to the AVP that the dictionary maps to Result-Code: only
    # (no vendor, 268) may be materialised as that class (registry look-up by exactly vendor and code; shared with C02/C10)
    ctx.clause = "2b-result-code-identity"
    from .c02 import _registry
    _registry(ctx, repo)
    ctx.clause = "3-error-bit"
    fn = ctx.need(m.funcs.get("is_result_code_error"), "bromelia.utils.is_result_code_error")
    construct = "bromelia.utils.is_result_code_error"
    p0 = fn.args.args[0].arg
    from .. import sym
    ANS = sym.S(p0)
    EBIT = ("call", ("attr", ("attr", ANS, "header"), "is_error"), (), ())
    ok = True
    seen_true = False
    for p in sym.Interp().run(strip_doc(fn.body), sym.PathState({p0: ANS}, [], [])):
        if p.term != "return" or p.value is None:
            continue
        e = [tv for c, tv in p.conds if c == EBIT]
        e = e[0] if len(e) == 1 else None
        if p.value is True:
            seen_true = True
            ok = ok and e is True
        elif p.value is False:
            ok = ok and (e is False)
        elif p.value == EBIT or p.value == ("call", ("name", "bool"), (EBIT,), ()):
            seen_true = True
        else:
            ok = False
    ctx.decide(ok and seen_true, "R-DOM/error-bit", construct, f"{m.rel}:{fn.lineno}",
               "result is the header's E bit", "is_result_code_error does not return exactly the header's E bit",
               key="ebit")
    hdr = ctx.need(repo.cls("bromelia.base.DiameterHeader"), "DiameterHeader")
    v = repo.fold_class_attr(hdr, "flag_error_bit")
    ctx.decide(v == b"\x20", "R-TABLE/error-bit", f"{hdr.qual}.flag_error_bit", hdr.where(),
               "E bit mask is 0x20", f"E bit mask folds to {v!r}, RFC 6733 says 0x20", key="mask")
    ise = hdr.methods.get("is_error")
    ctx.need(ise, "DiameterHeader.is_error")
    txt = ast.unparse(ise)
    ctx.decide("flag_error_bit" in txt and "get_flags()" in txt and "&" in txt, "R-TABLE/error-bit",
               f"{hdr.qual}.is_error", hdr.where(ise), "is_error tests flags & flag_error_bit",
               "DiameterHeader.is_error does not test the flags against flag_error_bit", key="is_error")


INT_OF_BYTES = ("convert_to_integer_from_bytes",)


def _expand(e, env, depth=0):
    if depth > 6:
        return e
    if isinstance(e, ast.Name) and e.id in env:
        return _expand(env[e.id], env, depth + 1)
    return e


def _is_int_of_rc_data(e, env, pname):
    e = _expand(e, env)
    if isinstance(e, ast.Call):
        n = call_name(e)
        arg = None
        if n in INT_OF_BYTES and len(e.args) == 1:
            arg = e.args[0]
        elif n == "int.from_bytes" and e.args:
            bo = e.args[1] if len(e.args) > 1 else next((k.value for k in e.keywords if k.arg == "byteorder"), None)
            if isinstance(bo, ast.Constant) and bo.value == "big":
                arg = e.args[0]
        if arg is not None:
            a = _expand(arg, env)
            return ast.unparse(a) == f"{pname}.result_code_avp.data"
    return False


def _answer_pred(ctx, repo, m, fn, k, accs):
    construct = f"bromelia.utils.{fn.name}"
    where = f"{m.rel}:{fn.lineno}"
    pname = fn.args.args[0].arg
    decided = False
    const_paths = []
    from ..paths import decide_by_assignments
    for p in enum_paths(fn.body, decide=decide_by_assignments):
        conds = {ast.unparse(t): tr for t, tr in p.conds()}
        guard = conds.get(f"{pname}.has_avp('result_code_avp')")
        if guard is False:
            continue
        if guard is None and (p.term != "return" or p.term_node.value is None or
                              (isinstance(p.term_node.value, ast.Constant) and p.term_node.value.value is None)):
            continue          # a path that neither consults the Result-Code nor classifies
        # (a path that classifies without having consulted the Result-Code also stands for the answers that carry one)
        env = {}
        for s in p.stmts():
            if isinstance(s, ast.Assign) and len(s.targets) == 1 and isinstance(s.targets[0], ast.Name):
                env[s.targets[0].id] = s.value
        if p.term != "return" or p.term_node.value is None:
            ctx.violate("R-INTERVAL/answer", construct, where,
                        "a path with a Result-Code present returns nothing (None): the code is classified as no family",
                        key="no_return")
            decided = True
            continue
        R = _expand(p.term_node.value, env)
        decided = True
        if isinstance(R, ast.Constant) and isinstance(R.value, bool):
            extra = [ast.unparse(t) for t, tr in p.conds() if ast.unparse(t) != f"{pname}.has_avp('result_code_avp')"]
            # (b') a constant returned under tests on the integer of the Result-Code: `if lo <= code <= hi: return True` is the
            #      interval test written as a statement; the accepted set is the union over the paths returning True
            ivars = [n_ for n_ in env if _is_int_of_rc_data(ast.Name(id=n_, ctx=ast.Load()), env, pname)]
            if extra and len(ivars) == 1:
                try:
                    cur = U
                    for t, tr in p.conds():
                        if ast.unparse(t) == f"{pname}.has_avp('result_code_avp')":
                            continue
                        s_t = test_set(repo, m, t, ivars[0], U)
                        cur = cur.intersect(s_t if tr else s_t.complement())
                    const_paths.append((cur, R.value))
                    continue
                except Undecidable:
                    pass
            ctx.violate("R-INTERVAL/answer", construct, where,
                        f"with a Result-Code present a path returns the constant {R.value} (under {extra}) without looking at the "
                        f"code: the predicate {'holds for codes outside' if R.value else 'fails for codes inside'} the {k}xxx family "
                        f"(and, with another family's predicate, more than one family can hold for one code)", key="constant_return")
            continue
        # (a) delegation
        if isinstance(R, ast.Call) and isinstance(R.func, ast.Name) and len(R.args) == 1:
            mm = re.fullmatch(r"is_result_code_family_([1-5])xxx", R.func.id)
            if mm:
                kk = int(mm.group(1))
                okf = kk == k and kk in accs
                okarg = _is_int_of_rc_data(R.args[0], env, pname)
                ctx.decide(okf and okarg, "R-INTERVAL/answer", construct, where,
                           f"delegates to the verified family-{k} integer predicate on the big-endian Result-Code",
                           f"delegates to is_result_code_family_{kk}xxx({ast.unparse(R.args[0])}) - "
                           f"{'wrong family' if kk != k else 'argument is not the big-endian integer of result_code_avp.data'}",
                           key="delegation")
                continue
        # (c) mask idiom
        mask = _mask_idiom(repo, m, R, env, pname)
        if mask is not None:
            M = int.from_bytes(mask, "big")
            cex = None
            for x in range(1000 * k + 1, 1000 * k + 1000):
                if x & M != M:
                    cex = x
                    break
            extra = None
            for x in list(range(1, 1000 * k)) + list(range(1000 * k + 1000, 8192)):
                if x % 1000 and x & M == M:
                    extra = x
                    break
            ctx.decide(cex is None and extra is None, "R-INTERVAL/answer", construct, where,
                       "mask test happens to equal the family",
                       f"byte-mask test `code & 0x{M:08x} == 0x{M:08x}` is not the family [{1000*k+1},{1000*k+999}]: "
                       f"rejects {cex}" + (f", accepts {extra}" if extra else ""), key="mask",
                       witness={"mask": hex(M), "rejected_member": cex, "accepted_non_member": extra})
            continue
        # (b) interval test on the integer
        ivar = None
        for name, val in env.items():
            if _is_int_of_rc_data(ast.Name(id=name, ctx=ast.Load()), env, pname):
                ivar = name
        if ivar is not None:
            try:
                R0 = p.term_node.value
                acc = test_set(repo, m, R0, ivar, U)
                ok, why = family_ok(acc, k)
                ctx.decide(ok, "R-INTERVAL/answer", construct, where, f"interval test {acc} == family {k}",
                           f"interval test accepts {acc}: {why}", key="interval")
                continue
            except Undecidable as e:
                pass
        ctx.undecided("R-INTERVAL/answer", construct, where,
                      f"return expression `{ast.unparse(p.term_node.value)}` is neither a delegation to the integer "
                      f"predicate, an interval test, nor the mask idiom", key="shape")
    if const_paths:
        acc = ISet([])
        for cur, val in const_paths:
            if val:
                acc = acc.union(cur)
        ok, why = family_ok(acc, k)
        ctx.decide(ok, "R-INTERVAL/answer", construct, where, f"interval test {acc} == family {k}",
                   f"interval test accepts {acc}: {why}", key="interval")
    if not decided:
        ctx.undecided("R-INTERVAL/answer", construct, where, "no path guarded by has_avp('result_code_avp') found",
                      key="guard")


def _mask_idiom(repo, m, R, env, pname):
    """bytes([a & b for a, b in zip(C, code)]) == C  ->  folded C"""
    if not (isinstance(R, ast.Compare) and len(R.ops) == 1 and isinstance(R.ops[0], ast.Eq)):
        return None
    l, r = R.left, R.comparators[0]
    for call, const in ((l, r), (r, l)):
        if isinstance(call, ast.Call) and call_name(call) == "bytes" and call.args and isinstance(call.args[0], ast.ListComp):
            lc = call.args[0]
            if isinstance(lc.elt, ast.BinOp) and isinstance(lc.elt.op, ast.BitAnd) and len(lc.generators) == 1:
                it = lc.generators[0].iter
                if isinstance(it, ast.Call) and call_name(it) == "zip" and len(it.args) == 2:
                    c = repo.fold(m, const)
                    zs = [repo.fold(m, a) for a in it.args]
                    if isinstance(c, bytes) and any(z == c for z in zs if isinstance(z, bytes)):
                        other = [a for a, z in zip(it.args, zs) if not isinstance(z, bytes)]
                        if other and ast.unparse(_expand(other[0], env)) == f"{pname}.result_code_avp.data":
                            return c
    return None
