"""C11 - a message's named AVP view, AVP list and length stay coherent under mutation."""
import ast

from ..astutil import strip_doc, make_cfg, call_name, fn_calls, must_pass, node_calls, walk_no_nested, header_exprs, witness_avoiding
from ..minieval import ev, UNK
from .c01 import run_paths, _rewrite_store

META = {
    "explanation": "Every method of DiameterMessage and (as sibling) GroupedType that writes the AVP list `_avps` or an element of it "
                   "is scanned: each list mutation (add / remove / replace / reset) must be followed on every CFG path to the "
                   "normal exit by the matching name-map update and a length (`header.length` resp. `_data`) update or a call that "
                   "re-derives them; the value put into the name map and into the list must be the same SSA value; no "
                   "equality-based list operation (remove / index / in) may be applied to `_avps` because DiameterAVP.__eq__ "
                   "compares encodings; what pop/cleanup subtract equals what append added; bulk data updates end with a refresh.",
    "decided": ["paired update on all paths", "same object in both views", "identity, not equality", "symmetric length arithmetic",
                "refresh after data writes"],
    "not_decided": ["freshness of the `__N` suffix chosen in append after pops (depends on counting over the history; a correct "
                    "design need not re-test the key, so no sound necessary shape exists)"],
    "trusted_base": ["Python ast", "CFG must-pass", "mini abstract evaluator"],
    "assumptions": [],
}

LIST = ("self._avps",)


def classify(repo, n):
    """CFG node -> list of (kind, value expr or None) for list / map / length effects."""
    out = []
    if n.kind != "stmt":
        return out
    s = n.ast
    if isinstance(s, ast.Expr) and isinstance(s.value, ast.Call):
        c = s.value
        nm = call_name(c)
        if nm == "self._avps.append" and c.args:
            out.append(("list-add", c.args[0]))
        elif nm == "self._avps.insert" and len(c.args) > 1:
            out.append(("list-add", c.args[1]))
        elif nm == "self._avps.remove" and c.args:
            out.append(("list-remove-eq", c.args[0]))
        elif nm in ("self._avps.pop",):
            out.append(("list-remove", None))
        elif nm in ("self._avps.clear",):
            out.append(("list-reset", None))
        elif nm == "self.__dict__.update" and c.args and isinstance(c.args[0], ast.Dict) and c.args[0].values:
            out.append(("map-add", c.args[0].values[0]))
        elif nm == "self.__dict__.pop":
            out.append(("map-remove", None))
        elif nm == "setattr" and len(c.args) == 3 and ast.unparse(c.args[0]) == "self":
            out.append(("map-add", c.args[2]))
        elif nm == "delattr" and c.args and ast.unparse(c.args[0]) == "self":
            out.append(("map-remove", None))
        elif nm == "self.refresh":
            out.append(("rederive-len", None))
        elif nm == "self.cleanup":
            out.append(("rederive", None))
        elif nm in ("self.append", "self.extend"):
            out.append(("rederive", None))
    if isinstance(s, ast.Assign):
        for t in s.targets:
            tt = ast.unparse(t)
            if isinstance(t, ast.Subscript) and ast.unparse(t.value) == "self._avps":
                out.append(("list-replace", s.value))
            elif tt == "self._avps":
                out.append(("list-reset", s.value))
            elif isinstance(t, ast.Subscript) and ast.unparse(t.value) == "self.__dict__":
                out.append(("map-add", s.value))
            elif tt in ("self.header.length", "self._data"):
                out.append(("length", s.value))
            elif isinstance(t, ast.Subscript) and ast.unparse(t.value) == "self":
                out.append(("self-setitem", s.value))
    if isinstance(s, ast.AugAssign) and ast.unparse(s.target) in ("self._data", "self.header.length"):
        out.append(("length", s.value))
    if isinstance(s, ast.Delete):
        for t in s.targets:
            if isinstance(t, ast.Subscript) and ast.unparse(t.value) == "self._avps":
                out.append(("list-remove", None))
            elif isinstance(t, ast.Subscript) and ast.unparse(t.value) == "self.__dict__":
                out.append(("map-remove", None))
    return out


def check(ctx):
    repo = ctx.repo
    msg = ctx.need(repo.cls("bromelia.base.DiameterMessage"), "DiameterMessage")
    grp = ctx.need(repo.cls("bromelia.types.GroupedType"), "GroupedType")
    avp = ctx.need(repo.cls("bromelia.base.DiameterAVP"), "DiameterAVP")
    eq_by_value = "__eq__" in avp.methods and "dump" in ast.unparse(avp.methods["__eq__"])

    n_mut = 0
    for ci in (msg, grp):
        funcs = dict(ci.methods)
        for name, d in ci.props.items():
            if "set" in d:
                funcs[f"{name}[setter]"] = d["set"]
        for fname, fn in sorted(funcs.items()):
            cfg = make_cfg(repo, fn)
            eff = {nid: classify(repo, n) for nid, n in cfg.nodes.items()}
            construct = f"{ci.qual}.{fname}"
            muts = [(nid, k, v) for nid, es in eff.items() for k, v in es if k.startswith("list-")]
            if not muts:
                continue
            for nid, kind, val in muts:
                n_mut += 1
                node = cfg.nodes[nid]
                where = ci.where(node.ast)
                # ---- clause 3: identity ----
                if kind == "list-remove-eq":
                    ctx.clause = "3-identity-not-equality"
                    ctx.decide(not eq_by_value, "R-EQ", construct, where, "list.remove on a class without value equality",
                               f"`{ast.unparse(node.ast)}` selects the element by ==, and DiameterAVP.__eq__ compares encodings: with "
                               f"two equal AVPs listed, removing the second one by name removes the first from the list (the name "
                               f"map and the list then disagree, and the relative order changes)", key="remove_by_eq")
                # ---- clause 1: paired update ----
                ctx.clause = "1-paired-update"
                if kind == "list-add":
                    need_map = "map-add"
                elif kind in ("list-remove", "list-remove-eq"):
                    need_map = "map-remove"
                elif kind == "list-replace":
                    need_map = "map-add"
                else:
                    need_map = "map-remove"

                def has(kinds):
                    def pred(n, kinds=kinds):
                        if any(k in kinds for k, _ in eff.get(n.id, [])):
                            return True
                        if n.kind == "test" and ast.unparse(n.ast) in ("not self._loaded", "not self.loaded") and "length" in kinds:
                            return True
                        return False
                    return pred
                start_succ = [t for t, l in cfg.succ[nid] if l not in ("exc", "excp")]
                ok_map = all(must_pass(cfg, has({need_map, "rederive"}), start=t) for t in start_succ) if start_succ else True
                # effects in the same node or earlier on every path also count for removal (map popped before list)
                if not ok_map:
                    before = must_pass(cfg, has({need_map, "rederive"}), targets={nid})
                    ok_map = before
                ok_len = all(must_pass(cfg, has({"length", "rederive", "rederive-len"}), start=t) for t in start_succ) if start_succ else True
                if not ok_len:
                    ok_len = must_pass(cfg, has({"length", "rederive", "rederive-len"}), targets={nid})
                if kind == "list-reset":
                    # a reset is paired with a sweep: a loop (over the collected '*_avp' keys) whose body removes the
                    # name and, for messages, subtracts the size; zero iterations = nothing to remove
                    for lp in [x for x in walk_no_nested(fn) if isinstance(x, ast.For)]:
                        txt = "\n".join(ast.unparse(b) for b in lp.body)
                        if "self.__dict__.pop(" in txt or "delattr(self" in txt:
                            ok_map = True
                            if "self.header.length =" in txt or "self._data" in txt:
                                ok_len = True
                if kind == "list-replace" and not ok_map and isinstance(val, ast.Name):
                    # sweep idiom: every name bound to the replaced element (identity test) is rebound to the new value
                    for lp in [x for x in walk_no_nested(fn) if isinstance(x, ast.For) and "self.__dict__" in ast.unparse(x.iter)]:
                        for iff in [x for x in ast.walk(lp) if isinstance(x, ast.If)]:
                            t = ast.unparse(iff.test)
                            body = "\n".join(ast.unparse(b) for b in iff.body)
                            if " is " in t and f"= {val.id}" in body and "self.__dict__[" in body and lp.lineno > node.lineno:
                                ok_map = True
                what = {"list-add": "adds an element to", "list-remove": "removes an element from", "list-remove-eq": "removes an element from",
                        "list-replace": "replaces an element of", "list-reset": "resets"}[kind]
                ctx.decide(ok_map, "R-MUSTPASS/paired-update", construct, where,
                           f"`{ast.unparse(node.ast)}` is paired with a name-map update on every path",
                           f"{fname} {what} `_avps` (`{ast.unparse(node.ast)}`) but the name map (`__dict__` '*_avp' entries) is not "
                           f"updated on every path to the return: the named view and the list refer to different AVPs", key=f"map:{kind}")
                ctx.decide(ok_len, "R-MUSTPASS/paired-update", construct, where,
                           f"`{ast.unparse(node.ast)}` is paired with a length update on every path",
                           f"{fname} {what} `_avps` (`{ast.unparse(node.ast)}`) but "
                           f"{'the Message Length' if ci is msg else 'the Grouped data buffer'} is not updated on every path: the length "
                           f"no longer equals the serialised size", key=f"len:{kind}")
                # ---- clause 2: same object ----
                if kind in ("list-add", "list-replace") and val is not None:
                    ctx.clause = "2-same-object"
                    maps = [(n2, v2) for n2, es in eff.items() for k2, v2 in es if k2 == "map-add"]
                    for n2, v2 in maps:
                        same = isinstance(val, ast.Name) and isinstance(v2, ast.Name) and val.id == v2.id
                        if kind == "list-replace" and not isinstance(v2, ast.Name):
                            continue
                        ctx.decide(same, "R-ALIAS/two-views", construct, where,
                                   f"list and name map receive the same value `{ast.unparse(val)}`",
                                   f"the list receives `{ast.unparse(val)}` but the name map receives `{ast.unparse(v2)}`: the two views "
                                   f"hold different objects for one logical AVP", key="alias")
            # delegated replacement: self[i] = V together with setattr(self, k, W)
        # equality-based membership / index on the list anywhere in the class
        ctx.clause = "3-identity-not-equality"
        for fname, fn in sorted(funcs.items()):
            for x in walk_no_nested(fn):
                bad = None
                if isinstance(x, ast.Call) and call_name(x) in ("self._avps.index", "self.avps.index"):
                    bad = x
                if isinstance(x, ast.Compare) and any(isinstance(o, (ast.In, ast.NotIn)) for o in x.ops) and \
                        ast.unparse(x.comparators[0]) in ("self._avps", "self.avps"):
                    bad = x
                if isinstance(x, ast.Compare) and len(x.ops) == 1 and isinstance(x.ops[0], (ast.Eq, ast.NotEq)):
                    # == between two AVP objects (a parameter / an element taken from the list or the name map)
                    def avp_obj(e, fn=fn):
                        if isinstance(e, ast.Subscript) and ast.unparse(e.value) in ("self._avps", "self.avps", "self.__dict__"):
                            return True
                        if isinstance(e, ast.Name):
                            defs = [n_.value for n_ in walk_no_nested(fn) if isinstance(n_, ast.Assign) and len(n_.targets) == 1
                                    and isinstance(n_.targets[0], ast.Name) and n_.targets[0].id == e.id]
                            if any(isinstance(d, ast.Subscript) and ast.unparse(d.value) in ("self._avps", "self.avps", "self.__dict__") for d in defs):
                                return True
                            if any(isinstance(d, ast.Call) and call_name(d) == "getattr" for d in defs):
                                return True
                            ps = [a_.arg for a_ in fn.args.args]
                            return e.id in ps and e.id in ("value", "avp", "item", "new_avp", "old_avp", "new", "old")
                        return False
                    if avp_obj(x.left) and avp_obj(x.comparators[0]):
                        bad = x
                if bad is not None and eq_by_value:
                    ctx.violate("R-EQ", f"{ci.qual}.{fname}", ci.where(bad),
                                f"`{ast.unparse(bad)}` uses == on AVPs (encodings), not identity", key="eq:" + ast.unparse(bad)[:40])
    ctx.floor("list_mutation_sites", n_mut, 8)
    ctx.clause = "3-identity-not-equality"
    ctx.decide(eq_by_value, "R-EQ", f"{avp.qual}.__eq__", avp.where(), "DiameterAVP.__eq__ compares encodings (rule is armed)",
               "DiameterAVP no longer defines value equality (rule R-EQ is moot)", key="armed", nontrivial=False)

    # ---- clause 2 for update_avp (two views through setattr + self[index]) -----------------------
    ctx.clause = "2-same-object"
    ua = ctx.need(msg.methods.get("update_avp"), "DiameterMessage.update_avp")
    # on terms: the object bound to the name (setattr) and the object stored in the list (self[i] = / self._avps[i] =) are the
    # result of ONE constructor evaluation on every path
    from .. import sym as _sm
    ps_ = [a_.arg for a_ in ua.args.args if a_.arg != "self"]
    env_ = {a_: _sm.S(a_) for a_ in ps_}
    n_paths = 0
    for p_ in _sm.Interp(log_calls=True).run(strip_doc(ua.body), _sm.PathState(env_, [], [])):
        if p_.term == "raise":
            continue
        named = [e[1][2][2] for e in p_.effects if e[0] == "ecall" and isinstance(e[1], tuple) and e[1][0] == "call"
                 and e[1][1] == ("name", "setattr") and len(e[1][2]) == 3] + \
                [e[3] for e in p_.effects if e[0] == "setitem" and _sm.show(e[1]) == "self.__dict__"]
        listed = [e[3] for e in p_.effects if e[0] == "setitem" and _sm.show(e[1]) in ("self", "self._avps", "self.avps")]
        if not named and not listed:
            continue
        n_paths += 1
        same = len(named) == 1 and len(listed) == 1 and named[0] == listed[0]
        if same and isinstance(named[0], tuple) and named[0][0] == "call":
            same = len([e for e in p_.effects if e[0] == "ecall" and e[1] == named[0]]) == 1
        ctx.decide(same, "R-ALIAS/two-views", f"{msg.qual}.update_avp", msg.where(ua),
                   "attribute view and list receive one object",
                   f"update_avp binds {[_sm.show(x)[:50] for x in named]} to the name and stores {[_sm.show(x)[:50] for x in listed]} in the "
                   f"list: not one object for one logical AVP (a later change through one view is invisible through the other)",
                   key="update_avp")
    if n_paths == 0:
        ctx.undecided("R-ALIAS/two-views", f"{msg.qual}.update_avp", msg.where(ua), "no path that replaces an AVP was recognised", key="update_avp")
    # the index used for the replacement comes from an identity lookup
    li = ctx.need(msg.methods.get("_lookup_avp_index"), "DiameterMessage._lookup_avp_index")
    src = ast.unparse(li)
    ctx.decide(" is " in src or "id(" in src, "R-EQ", f"{msg.qual}._lookup_avp_index", msg.where(li),
               "index lookup compares identities", "_lookup_avp_index compares by equality", key="lookup_identity")

    # ---- clause 1a: append binds a FRESH name ----------------------------------------------------------------------
    # the name under which append stores the AVP is not yet in the name map, on every path (decided on terms: the stored key
    # carries a recorded `key in self.__dict__ == False`, from an if or from the exit of a while loop).  A name computed by
    # counting existing names is not fresh after a middle duplicate was popped: it overwrites the binding of a listed AVP.
    ctx.clause = "1a-append-fresh-name"
    from .. import sym as _sf
    for ci in (msg, grp):
        ap_ = ctx.need(ci.methods.get("append"), f"{ci.name}.append")
        pn_ = [a_.arg for a_ in ap_.args.args if a_.arg != "self"][0]
        DICT_ = ("attr", ("name", "self"), "__dict__")
        n_st, stale = 0, []
        for p_ in _sf.Interp(fold=lambda e: repo.fold(ci.mod, e)).run(strip_doc(ap_.body), _sf.PathState({pn_: _sf.S(pn_)}, [], [])):
            if p_.term == "raise":
                continue
            for e in p_.effects:
                if e[0] == "setitem" and e[1] == DICT_:
                    n_st += 1
                    fresh = any(c == ("cmp", "In", e[2], DICT_) and tv is False for c, tv in p_.conds)
                    if not fresh:
                        stale.append(_sf.show(e[2])[:60])
        if n_st == 0:
            ctx.undecided("R-TABLE/fresh-name", f"{ci.qual}.append", ci.where(ap_), "no store into the name map found", key="fresh")
            continue
        ctx.decide(not stale, "R-TABLE/fresh-name", f"{ci.qual}.append", ci.where(ap_),
                   "the name chosen for the appended AVP is checked to be unused on every path",
                   f"append stores the AVP under {sorted(set(stale))} without having checked that this name is unused: after a duplicate in "
                   f"the middle was popped the counted suffix collides with an existing name, whose AVP stays listed but loses its name "
                   f"(named view and list disagree)", key="fresh")

    cleanup_names(ctx, repo, msg, grp)
    derived_state(ctx, repo, (msg, grp))
    # the Message Length is the sum of the members' AVP Lengths: the `length` an AVP reports must be computed from the data it
    # holds NOW on every path (the Grouped container rewrites `_data` in place; a stored length that is handed back goes stale and
    # the Message Length no longer matches the bytes dump() emits)
    ctx.clause = "7-avp-length-is-derived"
    lg_ = avp.props.get("length", {}).get("get")
    if lg_ is None:
        ctx.undecided("R-FLOW/avp-length-derived", f"{avp.qual}.length", avp.where(), "length getter not found", key="getter")
    else:
        from .. import sym as _sy7
        from ..astutil import strip_doc as _sd7
        def _mentions_len_of_data(t):
            if isinstance(t, tuple):
                if t[:1] == ("call",) and t[1] == ("name", "len") and len(t[2]) == 1 and isinstance(t[2][0], tuple) \
                        and t[2][0][:1] == ("attr",) and t[2][0][2] in ("data", "_data"):
                    return True
                return any(_mentions_len_of_data(x) for x in t)
            return False
        def _stored_attrs(t):
            """attributes of self other than the data / vendor id that the returned length is read from"""
            out_ = set()
            if isinstance(t, tuple):
                if t[:1] == ("attr",) and t[1] == _sy7.S("self") and t[2] not in ("data", "_data", "vendor_id", "_vendor_id"):
                    out_.add(t[2])
                if t[:1] == ("call",) and t[1] == ("name", "getattr") and len(t[2]) >= 2 and t[2][0] == _sy7.S("self") \
                        and t[2][1] not in ("data", "_data", "vendor_id", "_vendor_id"):
                    out_.add(str(t[2][1]))
                for x in t:
                    out_ |= _stored_attrs(x)
            return out_
        bad_ = []
        try:
            ps7 = _sy7.Interp(fold=lambda e: repo.fold(avp.mod, e), limit=20000).run(_sd7(lg_.body), _sy7.PathState({"self": _sy7.S("self")}, [], []))
        except _sy7.TooMany:
            ps7 = []
        n7 = 0
        for p7 in ps7:
            if p7.term != "return":
                continue
            n7 += 1
            if _stored_attrs(p7.value):
                bad_.append(_sy7.show(p7.value)[:80])
        ctx.decide(n7 > 0 and not bad_, "R-FLOW/avp-length-derived", f"{avp.qual}.length", avp.where(lg_),
                   "every path of the AVP length getter computes the length from the current data",
                   f"a path of DiameterAVP.length returns {bad_} - a stored value, not one computed from len(data): a Grouped AVP whose "
                   f"members were changed in place (append / pop / item assignment write `_data` directly) keeps reporting the old "
                   f"length, and the Message Length summed from it no longer matches dump()", key="length_from_data")

    # ---- clause 4: symmetric arithmetic ---------------------------------------------------------
    ctx.clause = "4-symmetric-length"
    for fname, var_hint in (("pop", None), ("cleanup", None)):
        fn = ctx.need(msg.methods.get(fname), f"DiameterMessage.{fname}")
        stores = [s for s in walk_no_nested(fn) if isinstance(s, ast.Assign) and ast.unparse(s.targets[0]) == "self.header.length"]
        if not stores:
            calls = [call_name(c) for c in fn_calls(fn)]
            ctx.decide("self.refresh" in calls, "R-SIB/length-arith", f"{msg.qual}.{fname}", msg.where(fn),
                       "length re-derived by refresh()", f"{fname} neither subtracts the AVP's size nor refreshes the length", key="arith")
            continue
        # on terms: with OLD = self.header.get_length(), L / PAD = the removed AVP's get_length() / get_padding_length(), the value
        # stored into the Message Length is OLD - L - PAD when the AVP has padding and OLD - L when it has none
        from .. import sym as _sl
        OLD, Lx = _sl.S("int:OLD"), _sl.S("int:L")
        HDRLEN = ("call", ("attr", ("attr", ("name", "self"), "header"), "get_length"), (), ())

        def hk(t):
            if t == HDRLEN:
                return OLD
            if isinstance(t, tuple) and len(t) == 4 and t[0] == "call" and t[3] == ():
                if isinstance(t[1], tuple) and t[1][0] == "attr" and t[1][2] == "get_length" and t[2] == ():
                    return Lx
                if t[1] == ("name", "len") and len(t[2]) == 1:
                    return Lx
            return None
        is_pad = lambda t: isinstance(t, tuple) and len(t) == 4 and t[0] == "call" and isinstance(t[1], tuple) and t[1][0] == "attr" \
            and t[1][2] == "get_padding_length"
        loops_ = [lp for lp in walk_no_nested(fn) if isinstance(lp, ast.For) and any(x is stores[0] for x in ast.walk(lp))]
        itp = _sl.Interp(fold=lambda e: repo.fold(msg.mod, e), hook=hk)
        try:
            paths_ = itp.loop_body(loops_[-1], {}) if loops_ else itp.run(strip_doc(fn.body), _sl.PathState({}, [], []))
        except _sl.TooMany:
            paths_ = []
        n_st = 0
        for p_ in paths_:
            st_ = [e for e in p_.effects if e[0] == "store" and e[1] == "self.header.length"]
            if not st_:
                continue
            n_st += 1
            v = st_[-1][2]
            arg = v[2][0] if isinstance(v, tuple) and v and v[0] == "call" and len(v[2]) == 1 else v
            has_pad, padt = None, None
            for c, tv in p_.conds:
                if is_pad(c):
                    has_pad, padt = tv, c
                elif isinstance(c, tuple) and c[0] == "cmp" and c[1] == "Is" and is_pad(c[2]) and c[3] is None:
                    has_pad, padt = (not tv), c[2]
                elif isinstance(c, tuple) and c[0] == "cmp" and c[1] == "Gt" and is_pad(c[2]) and c[3] == 0:
                    has_pad, padt = tv, c[2]
            delta = _sl.add(arg, OLD, -1)
            want = _sl.scale(_sl.add(Lx, padt), -1) if has_pad else _sl.scale(Lx, -1)
            if has_pad is None:
                # unconditional form: OLD - L - (PAD or 0) and the like
                pads = set()

                def find(t):
                    if is_pad(t):
                        pads.add(t)
                    elif isinstance(t, tuple):
                        for x in t:
                            if isinstance(x, tuple):
                                find(x)
                find(arg)
                ok_ = bool(pads) and _sl.lin_coef(delta, Lx) == -1
            else:
                ok_ = delta == want
            ctx.decide(ok_, "R-SIB/length-arith", f"{msg.qual}.{fname}", msg.where(stores[0]),
                       f"removing an AVP {'with' if has_pad else 'without'} padding subtracts its length{' + padding' if has_pad else ''}",
                       f"removing an AVP {'with' if has_pad else 'without'} padding changes the Message Length by `{_sl.show(delta)}` instead of "
                       f"-(length{' + padding' if has_pad else ''}) (append added exactly that)", key=f"arith:{'pad' if has_pad else 'nopad' if has_pad is False else 'any'}")
        if n_st == 0:
            ctx.undecided("R-SIB/length-arith", f"{msg.qual}.{fname}", msg.where(fn), "no path stores a new Message Length", key="arith")
    length_arith_all(ctx, repo, msg)
    # grouped: after removal the data buffer is rebuilt from the remaining members
    gp = ctx.need(grp.methods.get("pop"), "GroupedType.pop")
    from ..astutil import rebuilds_from_members
    ctx.decide(rebuilds_from_members(gp),
               "R-SIB/length-arith", f"{grp.qual}.pop", grp.where(gp), "Grouped data rebuilt from the remaining members",
               "GroupedType.pop does not rebuild `_data` from the remaining members", key="grouped_rebuild")

    # ---- clause 6: renaming, list replacement and membership queries ---------------------------------------
    ctx.clause = "6-rename-replace-membership"
    for ci in (msg, grp):
        uk = ctx.need(ci.methods.get("update_key"), f"{ci.name}.update_key")
        params = [a.arg for a in uk.args.args if a.arg != "self"]
        old_k, new_k = params[0], params[1]
        moves = [x for x in walk_no_nested(uk) if isinstance(x, ast.Assign) and ast.unparse(x) == f"self.__dict__[{new_k}] = self.__dict__.pop({old_k})"]
        cfg = make_cfg(repo, uk)
        okm = len(moves) == 1 and must_pass(cfg, lambda n: n.ast is moves[0])
        src_uk = ast.unparse(uk)
        has_pop = f".pop({old_k}" in src_uk or f"del self.__dict__[{old_k}]" in src_uk or f"delattr(self, {old_k}" in src_uk
        has_set = f"self.__dict__[{new_k}]" in src_uk or f"setattr(self, {new_k}" in src_uk or f"{{{new_k}:" in src_uk
        if not okm and has_pop and has_set:
            ctx.undecided("R-ALIAS/rename", f"{ci.qual}.update_key", ci.where(uk),
                          "old name removed and new name stored, but not in the recognised one-step form", key="move")
        else:
          ctx.decide(okm, "R-ALIAS/rename", f"{ci.qual}.update_key", ci.where(uk),
                   "renaming moves the same object from the old name to the new one",
                   "update_key does not move the object from the old name to the new one in one step (`self.__dict__[new] = "
                   "self.__dict__.pop(old)`): a name is left for an unlisted AVP or two names refer to one listed AVP", key="move")
        from ..astutil import guards as _guards
        g_ = _guards(uk)
        has = lambda conds, k, tv: any(ast.unparse(t) == f"self.has_avp({k})" and v is tv for t, v in conds)
        writes_ = moves or [x for x in walk_no_nested(uk) if isinstance(x, (ast.Assign, ast.Expr)) and new_k in ast.unparse(x)
                            and ("__dict__" in ast.unparse(x) or "setattr" in ast.unparse(x))]
        raises_ = [x for x in walk_no_nested(uk) if isinstance(x, ast.Raise)]
        okg = bool(writes_) and all(has(g_.get(id(x), []), old_k, True) and has(g_.get(id(x), []), new_k, False) for x in writes_) and \
            any(has(g_.get(id(x), []), old_k, False) for x in raises_) and any(has(g_.get(id(x), []), new_k, True) for x in raises_)
        ctx.decide(okg, "R-DOM/rename", f"{ci.qual}.update_key", ci.where(uk),
                   "renaming requires the old name to exist and the new one to be free",
                   "update_key no longer rejects a missing old name / an already used new name: renaming onto an existing name drops "
                   "the AVP that owned it from the named view while it stays listed", key="guards")
        st = ci.props.get("avps", {}).get("set")
        if st is not None:
            calls = [call_name(c) for c in fn_calls(st)]
            okc = "self.cleanup" in calls and ("self.append" in calls or "self.extend" in calls) and \
                calls.index("self.cleanup") < min([calls.index(x) for x in ("self.append", "self.extend") if x in calls])
            ctx.decide(okc, "R-MUSTPASS/replace-list", f"{ci.qual}.avps[setter]", ci.where(st),
                       "replacing the list = cleanup, then append/extend of every new element",
                       "the avps setter does not rebuild the container through cleanup() followed by append()/extend(): names and "
                       "length of the previous content survive or the new elements are not named", key="setter")
            src = ast.unparse(st)
            ctx.decide("self.extend(value)" in src and "self.append(value[0])" in src, "R-MUSTPASS/replace-list", f"{ci.qual}.avps[setter]",
                       ci.where(st), "all elements of the new list are appended in order", "the avps setter drops elements of the new list",
                       key="setter_all", nontrivial=False)
        ex = ci.methods.get("extend")
        if ex is not None:
            loops = [x for x in walk_no_nested(ex) if isinstance(x, ast.For)]
            oke = len(loops) == 1 and ast.unparse(loops[0].iter) == [a.arg for a in ex.args.args if a.arg != "self"][0] and \
                [ast.unparse(b) for b in loops[0].body] == [f"self.append({ast.unparse(loops[0].target)})"]
            ctx.decide(oke, "R-MUSTPASS/replace-list", f"{ci.qual}.extend", ci.where(ex), "extend appends each element in order",
                       "extend does not append each given element exactly once in order", key="extend")
        ha = ctx.need(ci.methods.get("has_avp"), f"{ci.name}.has_avp")
        from .. import sym as _sym
        okh, n_true = True, 0
        for p_ in _sym.Interp().run(strip_doc(ha.body)):
            if p_.term != "return":
                continue
            in_map = any(isinstance(c, tuple) and c[0] == "cmp" and c[1] == "In" and _sym.show(c[3]) == "self.__dict__" and tv
                         for c, tv in p_.conds)
            nonempty = [tv for c, tv in p_.conds if _sym.show(c) in ("self.avps", "self._avps")]
            if p_.value is True:
                n_true += 1
                okh = okh and in_map and nonempty == [True]
            elif p_.value is False:
                pass
            elif isinstance(p_.value, tuple) and p_.value[0] == "cmp" and p_.value[1] == "In" and _sym.show(p_.value[3]) == "self.__dict__":
                n_true += 1          # returns the membership test itself
                okh = okh and nonempty == [True]
            else:
                okh = False
            if nonempty == [False] and p_.value is not False:
                okh = False
        ctx.decide(okh and n_true > 0, "R-TABLE/membership", f"{ci.qual}.has_avp", ci.where(ha),
                   "membership consults the name map and an empty list means no member",
                   "has_avp no longer answers from the name map (and False for an empty list)", key="has_avp", nontrivial=False)
    gi = ctx.need(msg.methods.get("__getitem__"), "DiameterMessage.__getitem__")
    ctx.decide("return self._avps[idx]" in ast.unparse(gi), "R-TABLE/membership", f"{msg.qual}.__getitem__", msg.where(gi),
               "indexing reads the AVP list", "indexing does not read the AVP list", key="getitem", nontrivial=False)

    # ---- clause 5: refresh after data writes -----------------------------------------------------
    ctx.clause = "5-refresh-after-data-write"
    up = ctx.need(msg.methods.get("update_avps"), "DiameterMessage.update_avps")
    cfg = make_cfg(repo, up)
    writes = [n for n in cfg.nodes.values() if n.kind == "stmt" and isinstance(n.ast, ast.Assign)
              and ast.unparse(n.ast.targets[0]).endswith(".data")] + \
             [n for n in cfg.nodes.values() if any(call_name(c) == "self.update_avp" for c in node_calls(n))]
    raw = [n for n in cfg.nodes.values() if n.kind == "stmt" and isinstance(n.ast, ast.Assign) and isinstance(n.ast.targets[0], ast.Subscript)
           and ast.unparse(n.ast.targets[0].value) in ("self._avps", "self.avps", "self")]
    ctx.floor("data_write_sites", len(writes) + len(raw), 2)
    # each key is applied coherently on its own: within one iteration of the per-key loop a replacement is followed by the
    # length update before the next key is looked at (the constructor of the next key's AVP may raise - what was replaced so
    # far must already be counted)
    from .. import sym as _sy2
    for lp in [n for n in walk_no_nested(up) if isinstance(n, ast.For)]:
        for p_ in _sy2.Interp(log_calls=True).loop_body(lp, {}):
            if p_.term == "raise":
                continue
            seq = []
            for e in p_.effects:
                if e[0] == "setitem" and _sy2.show(e[1]) in ("self._avps", "self.avps"):
                    seq.append("raw-write")
                elif e[0] == "setitem" and _sy2.show(e[1]) == "self":
                    seq.append("item-write")       # __setitem__ refreshes itself (checked above)
                elif e[0] == "ecall" and isinstance(e[1], tuple) and e[1][0] == "call" and e[1][1] == ("attr", ("name", "self"), "update_avp"):
                    seq.append("item-write")
                elif e[0] == "ecall" and isinstance(e[1], tuple) and e[1][0] == "call" and e[1][1] == ("attr", ("name", "self"), "refresh"):
                    seq.append("refresh")
            if "raw-write" in seq:
                ok_ = "refresh" in seq[seq.index("raw-write"):]
                ctx.decide(ok_, "R-MUSTPASS/refresh-per-key", f"{msg.qual}.update_avps", msg.where(lp),
                           "a replacement is followed by the length update within the same iteration",
                           "update_avps replaces an AVP in the list without updating the Message Length in the same iteration (the refresh "
                           "is deferred to the end of the loop): when a later key is rejected by its AVP class the method leaves with the "
                           "earlier replacements uncounted - the Message Length no longer equals the serialised size", key="per_key")
    for w in writes:
        ok = all(must_pass(cfg, lambda n: n.kind == "stmt" and ast.unparse(n.ast) == "self.refresh()", start=t)
                 for t, l in cfg.succ[w.id] if l not in ("exc", "excp"))
        ctx.decide(ok, "R-MUSTPASS/refresh", f"{msg.qual}.update_avps", msg.where(w.ast),
                   f"`{ast.unparse(w.ast)[:50]}` is followed by refresh() on every path",
                   f"after `{ast.unparse(w.ast)[:60]}` the Message Length is not refreshed on every path to the return", key=w.ast)


def _enclosing_block(fn, stmt):
    for n in ast.walk(fn):
        for f in ("body", "orelse", "finalbody"):
            b = getattr(n, f, None)
            if isinstance(b, list) and stmt in b:
                return b
    return fn.body


def length_arith_all(ctx, repo, msg):
    # every other method that adjusts the Message Length incrementally: the adjustment for each AVP involved must be
    # +/-(length + padding) - probed with the abstract evaluator (length only, padding only)
    for fname, fn in sorted(msg.methods.items()):
        if fname in ("refresh", "_load", "pop", "cleanup"):
            continue
        for st_ in [x for x in walk_no_nested(fn) if isinstance(x, ast.Assign) and ast.unparse(x.targets[0]) == "self.header.length"]:
            body = _enclosing_block(fn, st_)
            i1 = body.index(st_)
            i0 = next((i for i, x in enumerate(body[:i1 + 1]) if "self.header.get_length()" in ast.unparse(x)), None)
            if i0 is None:
                continue
            seg = [_rewrite_store(x, "self.header.length", "__len") for x in body[i0:i1 + 1]]
            avs = set()
            for x in ast.walk(ast.Module(body=body[i0:i1 + 1], type_ignores=[])):
                if isinstance(x, ast.Call):
                    if isinstance(x.func, ast.Attribute) and x.func.attr in ("get_length", "get_padding_length") and isinstance(x.func.value, ast.Name):
                        avs.add(x.func.value.id)
                    if call_name(x) == "len" and x.args and isinstance(x.args[0], ast.Name):
                        avs.add(x.args[0].id)
            if not avs:
                continue

            def probe(Ls, Ps):
                def special(e):
                    t = ast.unparse(e)
                    if t == "self.header.get_length()":
                        return 100000
                    for v in avs:
                        if t in (f"{v}.get_length()", f"len({v})"):
                            return Ls.get(v, 0)
                        if t == f"{v}.get_padding_length()":
                            return Ps.get(v)
                    return NotImplemented
                outs = set()
                for env2, term, val in run_paths(seg, {}, special, None):
                    outs.add(env2.get("__len", UNK) if env2.get("__len", UNK) is not UNK else "UNK")
                return outs
            base = probe({}, {})
            verdict, why = True, ""
            if base != {100000}:
                if "UNK" in base:
                    ctx.undecided("R-SIB/length-arith", f"{msg.qual}.{fname}", msg.where(st_), "length expression not evaluable", key=f"arith:{fname}")
                    continue
                verdict, why = False, f"with zero-size AVPs the length changes to {sorted(base)} - 100000"
            for v in sorted(avs):
                dl = probe({v: 1000}, {})
                dp = probe({}, {v: 3})
                if len(dl) != 1 or len(dp) != 1 or "UNK" in dl or "UNK" in dp:
                    verdict, why = False, f"adjustment for `{v}` not single-valued ({dl}, {dp})"
                    continue
                dl, dp = dl.pop() - 100000, dp.pop() - 100000
                if dl not in (1000, -1000) or dp != (3 if dl > 0 else -3):
                    verdict = False
                    why = (f"for `{v}` the Message Length changes by {dl:+d} per 1000 octets of AVP length but by {dp:+d} for 3 "
                           f"octets of padding: length and padding of an AVP must enter with the same sign")
            ctx.decide(verdict, "R-SIB/length-arith", f"{msg.qual}.{fname}", msg.where(st_),
                       f"incremental adjustment uses length + padding of {sorted(avs)}",
                       f"{fname} adjusts the Message Length incrementally but {why}: the length field no longer equals the "
                       f"serialised size when the AVPs involved need padding", key=f"arith:{fname}")


def cleanup_names(ctx, repo, msg, grp):
    # ---- clause 1b: cleanup forgets every name append can have created -------------------------------------------
    # append names an AVP `<name>_avp` and repeats `<name>_avp__<n>` for an unbounded n; the key filter of cleanup is
    # evaluated (term interpreter, key = a concrete witness) on names of that shape: each must be selected, `_avps` must not
    ctx.clause = "1b-cleanup-covers-append-names"
    from .. import sym as _sy
    base_witnesses = ["x_avp", "origin_host_avp", "x_avp__1", "x_avp__9", "x_avp__10", "route_record_avp__123", "x_avp__4567"]

    def derived_witnesses(ci):
        """names of the shapes THIS append creates: every f-string assigned to the variable that append stores into the name map,
        instantiated with sample values (the variable itself by the witnesses found so far)"""
        ap = ci.methods.get("append")
        if ap is None:
            return [], None
        keyvars = set()
        for n_ in ast.walk(ap):
            if isinstance(n_, ast.Assign) and len(n_.targets) == 1 and isinstance(n_.targets[0], ast.Subscript) \
                    and ast.unparse(n_.targets[0].value).endswith("__dict__") and isinstance(n_.targets[0].slice, ast.Name):
                keyvars.add(n_.targets[0].slice.id)
            if isinstance(n_, ast.Call) and isinstance(n_.func, ast.Attribute) and n_.func.attr == "update" \
                    and ast.unparse(n_.func.value).endswith("__dict__") and n_.args and isinstance(n_.args[0], ast.Dict):
                keyvars |= {k_.id for k_ in n_.args[0].keys if isinstance(k_, ast.Name)}
        if len(keyvars) != 1:
            return [], "the variable stored into the name map was not found"
        kv = next(iter(keyvars))
        def pieces(e):
            if isinstance(e, ast.JoinedStr):
                out_ = []
                for v_ in e.values:
                    out_ += pieces(v_.value) if isinstance(v_, ast.FormattedValue) else pieces(v_)
                return out_
            if isinstance(e, ast.BinOp) and isinstance(e.op, ast.Add):
                return pieces(e.left) + pieces(e.right)
            if isinstance(e, ast.Constant) and isinstance(e.value, str):
                return [("const", e.value)]
            if isinstance(e, ast.Name) and e.id in carriers:
                return [("self",)]
            return [("var",)]
        shapes, opaque = [], []
        # temporaries that are copied into the key variable carry the name as well (`tmp = f".."; key = tmp`)
        carriers = {kv}
        for _ in range(3):
            for n_ in ast.walk(ap):
                if isinstance(n_, ast.Assign) and len(n_.targets) == 1 and isinstance(n_.targets[0], ast.Name) and n_.targets[0].id in carriers \
                        and isinstance(n_.value, ast.Name) and n_.value.id != kv:
                    carriers.add(n_.value.id)
        for n_ in ast.walk(ap):
            if isinstance(n_, ast.Assign) and len(n_.targets) == 1 and isinstance(n_.targets[0], ast.Name) and n_.targets[0].id in carriers:
                if isinstance(n_.value, ast.Name) and n_.value.id in carriers:
                    continue
                ps_ = pieces(n_.value)
                if any(k_[0] == "const" for k_ in ps_):
                    shapes.append(ps_)
                else:
                    opaque.append(ast.unparse(n_.value)[:60])
        if opaque:
            return [], f"the name is computed by {opaque}"
        out = []
        for round_ in range(2):
            for ps_ in shapes:
                for sample in ("x", "7"):
                    for prev in ([None] if ("self",) not in ps_ else list(out)):
                        out.append("".join(k_[1] if k_[0] == "const" else (prev if k_[0] == "self" else sample) for k_ in ps_))
        seen_, uniq = set(), []
        for w_ in out:
            if w_ not in seen_:
                seen_.add(w_)
                uniq.append(w_)
        return uniq[:40], None
    for ci in (msg, grp):
        cl = ctx.need(ci.methods.get("cleanup"), f"{ci.name}.cleanup")
        dw_, why_ = derived_witnesses(ci)
        if why_:
            ctx.undecided("R-TABLE/cleanup-names", f"{ci.qual}.cleanup", ci.where(cl), f"names created by append are not derivable: {why_}", key="shapes")
            continue
        witnesses = base_witnesses + [w_ for w_ in dw_ if w_ not in base_witnesses]
        selected = {}
        sources = []
        def key_name(target, it):
            # `for k in d` / `for k in d.keys()` / `for k, v in d.items()`: the name that holds the key
            if isinstance(target, ast.Name):
                return target.id
            if isinstance(target, ast.Tuple) and len(target.elts) == 2 and isinstance(target.elts[0], ast.Name) \
                    and ast.unparse(it).endswith(".items()"):
                return target.elts[0].id
            return None
        for n in walk_no_nested(cl):
            if isinstance(n, ast.For) and key_name(n.target, n.iter) and "__dict__" in ast.unparse(n.iter):
                sources.append(("loop", n))
            elif isinstance(n, (ast.ListComp, ast.GeneratorExp, ast.SetComp)) and len(n.generators) == 1 \
                    and key_name(n.generators[0].target, n.generators[0].iter) and "__dict__" in ast.unparse(n.generators[0].iter):
                sources.append(("comp", n))
        if not sources:
            ctx.undecided("R-TABLE/cleanup-names", f"{ci.qual}.cleanup", ci.where(cl), "no scan of the attribute map found", key="scan")
            continue
        kind, node = sources[0]
        for w in witnesses + ["_avps", "_loaded", "header"]:
            it_ = _sy.Interp(fold=lambda e: repo.fold(ci.mod, e), log_calls=True)
            if kind == "loop":
                sel = False
                for p_ in it_.loop_body(node, {key_name(node.target, node.iter): w}):
                    # (the name is either collected for a later removal pass or removed from the name map right away)
                    if any(e[0] == "ecall" and isinstance(e[1], tuple) and e[1][0] == "call" and isinstance(e[1][1], tuple) and e[1][1][0] == "attr"
                           and e[1][1][2] == "pop" and _sy.show(e[1][1][1]).endswith("__dict__") and e[1][2][:1] == (w,) for e in p_.effects) or \
                            any(e[0] == "del" and isinstance(e[1], tuple) and e[1][0] == "sub" and _sy.show(e[1][1]).endswith("__dict__") and e[1][2] == w
                                for e in p_.effects):
                        sel = True
                    if any(e[0] == "ecall" and isinstance(e[1], tuple) and e[1][0] == "call" and isinstance(e[1][1], tuple) and e[1][1][0] == "attr"
                           and e[1][1][2] in ("append", "add") and len(e[1][2]) == 1 and (
                               e[1][2][0] == w or (isinstance(e[1][2][0], tuple) and e[1][2][0] and e[1][2][0][0] == "tuple"
                                                   and e[1][2][0][1] and e[1][2][0][1][0] == w)) for e in p_.effects):
                        sel = True
                selected[w] = sel
            else:
                st_ = _sy.PathState({key_name(node.generators[0].target, node.generators[0].iter): w}, [], [])
                vals = [it_.truth(it_.ev(c, st_)) for c in node.generators[0].ifs]
                selected[w] = None if any(v is None for v in vals) else all(vals)
        missed = [w for w in witnesses if selected.get(w) is False]
        unknown = [w for w in selected if selected[w] is None]
        if unknown:
            ctx.undecided("R-TABLE/cleanup-names", f"{ci.qual}.cleanup", ci.where(node), f"key filter not evaluable for {unknown}", key="filter")
            continue
        ctx.decide(not missed, "R-TABLE/cleanup-names", f"{ci.qual}.cleanup", ci.where(node),
                   "the key filter selects every name append can create (any repeat index)",
                   f"cleanup's key filter does not select {missed}, names that append creates for repeated AVPs: after cleanup() / "
                   f"replacing the list those names still refer to AVPs that are no longer listed, and has_avp() answers True for them",
                   key="covers")
        ctx.decide(not selected.get("_avps") and not selected.get("_loaded") and not selected.get("header"), "R-TABLE/cleanup-names",
                   f"{ci.qual}.cleanup", ci.where(node), "the list attribute itself is not treated as a name",
                   "cleanup's key filter also selects the container's own attributes", key="not_own", nontrivial=False)



_DATA_METHODS = {"append", "extend", "insert", "pop", "remove", "clear", "update", "add", "discard", "setdefault", "popitem", "sort", "reverse"}


def derived_state(ctx, repo, classes):
    """R-PAIR/derived-state: an instance attribute the confirmed tree does not have (a parallel list of names, an index, a cached
    length, a reverse map) that container methods fill with data and consult is DERIVED from the name map / AVP list.  It is
    coherent only if every method that changes the name map (resp. the list) also updates it; a mutator that does not is the
    classic missed update: the derived value goes stale and the next method that trusts it writes the wrong name or position."""
    ctx.clause = "6-derived-state"
    from ..normalize import load_inventory
    inv = load_inventory()
    n_new = 0
    for ci in classes:
        known = set(inv.get("instance_attrs", {}).get(ci.qual, [])) | set(inv.get("class_names", {}).get(ci.qual, []))
        funcs = dict(ci.methods)
        for name, d in ci.props.items():
            for k_, f_ in d.items():
                funcs[f"{name}[{k_}]"] = f_
        writes, reads = {}, {}          # attr -> {method}
        map_mut, list_mut = set(), set()
        for mname, fn in funcs.items():
            for n_ in ast.walk(fn):
                if isinstance(n_, ast.Attribute) and isinstance(n_.value, ast.Name) and n_.value.id == "self":
                    a_ = n_.attr
                    if a_ in known or a_.startswith("__") or a_ in ci.methods or a_ in ci.props:
                        continue
                    if isinstance(n_.ctx, (ast.Store, ast.Del)):
                        writes.setdefault(a_, set()).add(mname)
                    else:
                        reads.setdefault(a_, set()).add(mname)
            par = {}
            for p_ in ast.walk(fn):
                for ch in ast.iter_child_nodes(p_):
                    par[id(ch)] = p_
            for n_ in ast.walk(fn):
                if isinstance(n_, ast.Attribute) and isinstance(n_.value, ast.Name) and n_.value.id == "self":
                    up = par.get(id(n_))
                    up2 = par.get(id(up)) if up is not None else None
                    data_write = (isinstance(up, ast.Attribute) and up.attr in _DATA_METHODS and isinstance(up2, ast.Call) and up2.func is up) or \
                        (isinstance(up, ast.Subscript) and up.value is n_ and isinstance(up.ctx, (ast.Store, ast.Del))) or \
                        (isinstance(up, ast.AugAssign) and up.target is n_)
                    if not data_write:
                        continue
                    if n_.attr == "__dict__":
                        map_mut.add(mname)
                    elif n_.attr == "_avps":
                        list_mut.add(mname)
                    elif n_.attr not in known and n_.attr not in ci.methods:
                        writes.setdefault(n_.attr, set()).add(mname)
                if isinstance(n_, ast.Assign) and any(ast.unparse(t_) == "self._avps" for t_ in n_.targets):
                    list_mut.add(mname)
                if isinstance(n_, ast.Call) and isinstance(n_.func, ast.Name) and n_.func.id in ("setattr", "delattr") and n_.args \
                        and isinstance(n_.args[0], ast.Name) and n_.args[0].id == "self" and len(n_.args) > 1 and not isinstance(n_.args[1], ast.Constant):
                    map_mut.add(mname)
        map_mut.discard("__init__")
        list_mut.discard("__init__")
        for a_ in sorted(set(writes) | set(reads)):
            w_ = writes.get(a_, set()) - {"__init__"}
            r_ = reads.get(a_, set())
            if not w_:
                continue         # set once in the constructor: configuration, not derived state
            n_new += 1
            tied_map = bool(w_ & map_mut)
            tied_list = bool(w_ & list_mut)
            missing = sorted(((map_mut if tied_map else set()) | (list_mut if tied_list else set())) - w_ - r_)
            ctx.decide(not missing or not (tied_map or tied_list), "R-PAIR/derived-state", f"{ci.qual}.{a_}", ci.where(),
                       f"new attribute `{a_}` is updated by every method that changes the state it mirrors",
                       f"`self.{a_}` is state the confirmed tree does not have; it is maintained by {sorted(w_)} - methods that change the "
                       f"{'name map' if tied_map else ''}{' / ' if tied_map and tied_list else ''}{'AVP list' if tied_list else ''} - and consulted by "
                       f"{sorted(r_ - w_)}, but {missing} change the same state without touching it: after one of them runs the "
                       f"attribute is stale and the methods that trust it name or place AVPs wrongly (named view and list drift apart)",
                       key=f"derived:{a_}")
    ctx.count("new_container_attributes", n_new)
