"""C08 - every way a connection ends leaves the node closed, released and restartable."""
import ast

from ..astutil import make_cfg, call_name, fn_calls, must_pass, node_calls, walk_no_nested, kwarg
from ..raises import Raises
from ..locks import FieldKinds, LockFlow

META = {
    "explanation": "R-BLOCK: with the must-held lockset computed per CFG node (flow-sensitive inside a function, entry set = "
                   "intersection over resolved call sites), no untimed blocking primitive (Queue.get without timeout/block=False, "
                   "Event.wait without timeout, Thread.join, time.sleep) is reached while a lock of the connection layer is held, "
                   "except for the two verified non-blocking idioms of a guarded Queue.get. R-WAKE: every function that writes the "
                   "stop flag read by an untimed Event.wait() loop also sets that event on all its paths. R-LOOPEXIT: every worker "
                   "loop reads a flag that the close path assigns to the terminating value. Sockets: close() passes "
                   "selector.unregister and sock.close() on every non-exceptional path (and the listening socket for servers). "
                   "Restart: Diameter.start builds a fresh association and state machine and resets the stop flag on every path "
                   "past its guard.",
    "decided": ["no blocking under a lock", "wake on every stop path", "loop exits", "socket release on the close path", "restart guard"],
    "not_decided": ["thread termination under all interleavings", "OS-level release of descriptors"],
    "trusted_base": ["Python ast", "CFG", "lockset dataflow", "call resolution hints (bsa.locks.FIELD_TYPE_HINTS)"],
    "assumptions": ["lock pairing (shared clause) is decided under C03 clause 5"],
}

MODS = ("bromelia.setup", "bromelia.statemachine", "bromelia.transport", "bromelia.bromelia", "bromelia.process")


def universe(repo):
    return {q: f for q, f in repo.funcs.items() if f.mod.name in MODS}


def held_at_entry(repo, R, fk, funcs):
    """fixpoint: entry must-held set of each function = intersection over its resolved call sites."""
    TOP = None
    entry = {q: TOP for q in funcs}
    # thread roots and public API start with nothing held
    called = set()
    sites = {}   # callee qual -> list of (caller qual, call node)
    lts = {q: R.local_types(f) for q, f in funcs.items()}
    for q, f in funcs.items():
        for c in fn_calls(f.node):
            callees, note = R.resolve_call(f, c, lts[q])
            for cal in callees:
                if cal.qual in funcs:
                    sites.setdefault(cal.qual, []).append((q, c))
    flows = {}
    for q in funcs:
        if q not in sites:
            entry[q] = frozenset()
    for _ in range(6):
        changed = False
        for q, f in funcs.items():
            e = entry[q]
            if e is TOP:
                continue
            if q not in flows or flows[q][0] != e:
                flows[q] = (e, LockFlow(repo, fk, f, entry_held=e))
                changed = True
        for callee, ss in sites.items():
            acc = TOP
            for caller, c in ss:
                if caller not in flows:
                    continue
                lf = flows[caller][1]
                node = next((n for n in lf.cfg.nodes.values() if any(x is c for x in node_calls(n))), None)
                if node is None or node.id not in lf.IN:
                    continue
                held = frozenset(l for l in lf.must_at(node.id))
                acc = held if acc is TOP else (acc & held)
            if acc is TOP:
                acc = frozenset()
            if entry[callee] != acc:
                entry[callee] = acc
                changed = True
        if not changed:
            break
    for q, f in funcs.items():
        if q not in flows or flows[q][0] != (entry[q] or frozenset()):
            flows[q] = (entry[q] or frozenset(), LockFlow(repo, fk, f, entry_held=entry[q] or frozenset()))
    return {q: v[1] for q, v in flows.items()}, sites


def blocking_calls(fk, fi, cnode):
    """[(kind, description, call)] untimed blocking primitives evaluated by this CFG node."""
    out = []
    for c in node_calls(cnode):
        nm = call_name(c)
        if not isinstance(c.func, ast.Attribute):
            if nm == "sleep":
                out.append(("sleep", nm, c))
            continue
        attr = c.func.attr
        r = fk.resolve(fi.cls, c.func.value)
        if attr == "get" and r is not None and r[2] == "queue":
            nonblock = any(k.arg in ("timeout",) for k in c.keywords) or \
                any(k.arg == "block" and isinstance(k.value, ast.Constant) and k.value.value is False for k in c.keywords) or \
                (c.args and isinstance(c.args[0], ast.Constant) and c.args[0].value is False)
            if not nonblock:
                out.append(("queue.get", f"{r[0]}.{r[1]}", c))
        elif attr == "wait" and r is not None and r[2] == "event":
            timed = bool(c.args) or any(k.arg == "timeout" for k in c.keywords)
            if not timed:
                out.append(("event.wait", f"{r[0]}.{r[1]}", c))
        elif attr == "join" and not c.args and not c.keywords and "thr" in nm:
            out.append(("thread.join", nm, c))
        elif nm == "time.sleep":
            out.append(("sleep", nm, c))
    return out


def check(ctx):
    repo = ctx.repo
    R = Raises(repo)
    fk = FieldKinds(repo)
    funcs = universe(repo)
    flows, sites = held_at_entry(repo, R, fk, funcs)
    ctx.count("functions_analysed", len(flows))

    # ---- 1 no blocking under a lock -------------------------------------------------------------
    ctx.clause = "1-no-blocking-under-lock"
    n_block = 0
    for q, lf in sorted(flows.items()):
        fi = funcs[q]
        for nid, node in lf.cfg.nodes.items():
            if nid not in lf.IN:
                continue
            for kind, what, call in blocking_calls(fk, fi, node):
                n_block += 1
                held = {l for l in lf.must_at(nid) if l.split(".")[0] in ("DiameterAssociation", "TcpConnection")}
                if not held:
                    ctx.hold("R-BLOCK", q, fi.where(call), f"{kind} on {what} with no connection-layer lock held", key=f"{kind}:{what}",
                             nontrivial=False)
                    continue
                ok, why = False, ""
                if kind == "queue.get":
                    ok, why = guarded_get(repo, R, fk, funcs, flows, sites, fi, lf, node, call, what, held)
                ctx.decide(ok, "R-BLOCK", q, fi.where(call), f"{kind} on {what} under {sorted(held)} cannot block: {why}",
                           f"untimed {kind} on {what} is reached while {sorted(held)} is held ({why or 'no non-blocking idiom applies'}): "
                           f"if the awaited item/event never comes (e.g. after a close) the thread blocks forever holding the lock and "
                           f"every other user of the lock hangs", key=f"{kind}:{what}")
    ctx.floor("blocking_sites", n_block, 5)

    # ---- 2 waiters woken ------------------------------------------------------------------------------
    ctx.clause = "2-wake-on-stop"
    n_wait = 0
    for q, lf in sorted(flows.items()):
        fi = funcs[q]
        for nid, node in lf.cfg.nodes.items():
            for kind, what, call in blocking_calls(fk, fi, node):
                if kind != "event.wait" or what.split(".")[0] not in ("DiameterAssociation", "TcpConnection"):
                    continue          # PendingAnswer's rendezvous is C14's business, not a connection end
                n_wait += 1
                # flags read by the enclosing while loops
                flags = loop_flags(fk, fi, call)
                if not flags:
                    ctx.undecided("R-WAKE", q, fi.where(call), f"untimed wait on {what} outside a flag-controlled loop", key=f"wake:{what}")
                    continue
                writers = flag_writers(repo, fk, funcs, flags)
                if not writers:
                    ctx.undecided("R-WAKE", q, fi.where(call), f"no writer of the stop flag(s) {sorted(flags)} found", key=f"wake:{what}")
                    continue
                for wq, wfi, stmt in writers:
                    cfg = make_cfg(repo, wfi.node)

                    def sets(n, wfi=wfi):
                        for c in node_calls(n):
                            if isinstance(c.func, ast.Attribute) and c.func.attr == "set":
                                r = fk.resolve(wfi.cls, c.func.value)
                                if r is not None and f"{r[0]}.{r[1]}" == what:
                                    return True
                        return False
                    snode = next((n for n in cfg.nodes.values() if n.ast is stmt), None)
                    after = snode is not None and all(must_pass(cfg, sets, start=t) for t, l in cfg.succ[snode.id] if l not in ("exc",))
                    before_only = snode is not None and not after and must_pass(cfg, sets, targets={snode.id})
                    ctx.decide(after, "R-WAKE", wq, wfi.where(stmt), f"stop flag write is followed by {what}.set() on every path",
                               (f"`{ast.unparse(stmt)}` is written only AFTER {what}.set(): a waiter woken by the set() re-checks the flag, "
                                f"still sees it clear and blocks again in the untimed wait - nobody will set the event a second time"
                                if before_only else
                                f"`{ast.unparse(stmt)}` stops the loop in {q.rsplit('.', 1)[-1]} that blocks in an untimed {what}.wait(), "
                                f"but {wq.rsplit('.', 2)[-2]}.{wq.rsplit('.', 1)[-1]} does not set the event on every path: a caller "
                                f"blocked there is never woken when the connection ends this way"), key=f"wake:{what}")
    ctx.floor("untimed_event_waits", n_wait, 1)
    wake_recheck(ctx, repo, R, fk, funcs, flows)

    # ---- 3 loop exits ------------------------------------------------------------------------------------
    ctx.clause = "3-loop-exit"
    loops = [("bromelia.transport.TcpConnection._run", None), ("bromelia.setup.DiameterAssociation.recv_message_from_queue", None),
             ("bromelia.statemachine.PeerStateMachine.__start", None), ("bromelia.setup.DiameterAssociation.get_message", None)]
    closers = ["bromelia.transport.TcpConnection.close", "bromelia.setup.DiameterAssociation.close",
               "bromelia.statemachine.State.set_closed_state", "bromelia.statemachine.PeerStateMachine.get_next_state"]
    for q, _ in loops:
        fi = ctx.need(funcs.get(q), q)
        wl = [s for s in fi.node.body if isinstance(s, ast.While)]
        if len(wl) != 1:
            ctx.undecided("R-LOOPEXIT", q, fi.where(), "expected one worker loop", key="loop")
            continue
        flags = test_flags(fk, fi, wl[0].test)
        ok = False
        hit = []
        for (owner, fld, term) in flags:
            for cq in closers:
                cfi = funcs.get(cq)
                if cfi is None:
                    continue
                for s in walk_no_nested(cfi.node):
                    if isinstance(s, ast.Assign) and isinstance(s.value, ast.Constant) and s.value.value is term:
                        for t in s.targets:
                            if isinstance(t, ast.Attribute) and t.attr == fld:
                                o = owner_of_attr(fk, cfi, t)
                                if o == owner:
                                    ok = True
                                    hit.append(f"{cq.rsplit('.', 2)[-2]}.{cq.rsplit('.', 1)[-1]} sets {owner}.{fld}={term}")
        ctx.decide(ok, "R-LOOPEXIT", q, fi.where(wl[0]), f"loop ends: {hit[:2]}",
                   f"the worker loop `while {ast.unparse(wl[0].test)}` reads {[(o, f) for o, f, _ in flags]} but no function of the "
                   f"close path assigns a terminating value: the thread never ends", key="loopexit")

    # ---- 5 sockets released -----------------------------------------------------------------------------------
    ctx.clause = "5-sockets-released"
    tc = ctx.need(funcs.get("bromelia.transport.TcpConnection.close"), "TcpConnection.close")
    cfg = make_cfg(repo, tc.node)
    for want in ("self.selector.unregister", "self.sock.close"):
        ok = must_pass(cfg, lambda n, want=want: any(call_name(c) == want for c in node_calls(n)))
        ctx.decide(ok, "R-MUSTPASS/release", tc.qual, tc.where(), f"{want}() on every non-exceptional path",
                   f"TcpConnection.close can return normally without calling {want}(): the socket stays registered/open after the "
                   f"connection ended", key=want)
    flagset = must_pass(cfg, lambda n: n.kind == "stmt" and ast.unparse(n.ast) == "self._stop_threads = True") and \
        must_pass(cfg, lambda n: n.kind == "stmt" and ast.unparse(n.ast) == "self.is_connected = False")
    ctx.decide(flagset, "R-MUSTPASS/release", tc.qual, tc.where(), "close clears is_connected and sets _stop_threads on every path",
               "TcpConnection.close does not stop the transport thread's loop on every path", key="flags")
    ts = ctx.need(funcs.get("bromelia.transport.TcpServer.close"), "TcpServer.close")
    cfg = make_cfg(repo, ts.node)
    for want in ("super().close", "self.server_selector.unregister", "self.server_sock.close"):
        ok = must_pass(cfg, lambda n, want=want: any(call_name(c) == want for c in node_calls(n)))
        ctx.decide(ok, "R-MUSTPASS/release", ts.qual, ts.where(), f"{want}() on every non-exceptional path",
                   f"TcpServer.close can return normally without calling {want}(): the listening socket is not released", key=want)
    da = ctx.need(funcs.get("bromelia.setup.DiameterAssociation.close"), "DiameterAssociation.close")
    cfg = make_cfg(repo, da.node)
    ok = must_pass(cfg, lambda n: any(call_name(c) == "self.transport.close" for c in node_calls(n)))
    ctx.decide(ok, "R-MUSTPASS/release", da.qual, da.where(), "association.close() closes the transport",
               "DiameterAssociation.close can return without closing the transport", key="transport.close")

    # ---- 5b socket errors end the connection instead of killing the transport thread silently -------------------------------
    ctx.clause = "5b-socket-errors-signal-release"
    run = ctx.need(funcs.get("bromelia.transport.TcpConnection._run"), "TcpConnection._run")
    esc = R.escapes(run)
    from .c03 import _trace
    for tag, what in (("OSError#recv", "recv()"), ("OSError#send", "send()")):
        ctx.decide(tag not in esc, "R-THREAD/socket-errors", run.qual, run.where(),
                   f"an OSError from {what} is handled inside the transport loop",
                   f"an OSError raised by {what} (ECONNRESET, EPIPE, ETIMEDOUT, EHOSTUNREACH ...) is not caught on the way up to the "
                   f"transport thread's top ({_trace(R, run.qual, tag)}): the thread dies without raising the release signal, so "
                   f"after an abrupt peer disconnect the node never reaches Closed and its sockets stay open", key=f"esc:{tag}")
    # the handlers that do catch them raise the release signal
    for ci in [c for c in repo.classes if c.mod.name == "bromelia.transport"]:
        for mname in ("_read", "_write"):
            fn = ci.methods.get(mname)
            if fn is None:
                continue
            for t in [x for x in walk_no_nested(fn) if isinstance(x, ast.Try)]:
                if not any(call_name(c).endswith(("sock.recv", "sock.send", "sock.sctp_recv", "sock.sctp_send")) for s2 in t.body for c in ast.walk(s2) if isinstance(c, ast.Call)):
                    continue
                for h in t.handlers:
                    names = [None] if h.type is None else [ast.unparse(e) for e in (h.type.elts if isinstance(h.type, ast.Tuple) else [h.type])]
                    broad = any(n is None or n.split(".")[-1] in ("OSError", "Exception", "BaseException", "ConnectionError", "socket.error", "error") for n in names)
                    if not broad:
                        continue
                    sets = any(isinstance(s2, ast.Assign) and ast.unparse(s2) == "self._stop_threads = True" for s2 in ast.walk(h)) or \
                        any(isinstance(c, ast.Call) and call_name(c) == "self.close" for c in ast.walk(h))
                    ctx.decide(sets, "R-DOM/socket-errors", f"{ci.qual}.{mname}", ci.where(h),
                               "the handler of a socket error raises the release signal (_stop_threads = True)",
                               f"{ci.name}.{mname} swallows a socket error without setting _stop_threads: the state machine never "
                               f"learns that the peer is gone", key=f"signal:{mname}")

    # who may clear the "connected" flag: close() refuses to run when it is already False, so any other writer makes the
    # release of selector and socket unreachable (and DiameterAssociation.close raises instead of closing)
    wr = []
    for q, fi in funcs.items():
        if fi.mod.name != "bromelia.transport":
            continue
        for x in walk_no_nested(fi.node):
            if isinstance(x, ast.Assign) and any(ast.unparse(t) == "self.is_connected" for t in x.targets) \
                    and isinstance(x.value, ast.Constant) and x.value.value is False and fi.name not in ("__init__", "close"):
                wr.append((fi, x))
    ctx.decide(not wr, "R-WHO/connected-flag", "bromelia.transport.*.is_connected", "bromelia/transport.py",
               "is_connected is cleared only by close() (after the guard) and initialised in __init__",
               f"is_connected is set to False outside close(): {[f.qual for f, _ in wr]} - close() returns early / "
               f"DiameterAssociation.close raises on a transport that is `not connected`, so selector and socket are never released and "
               f"the state-machine thread dies on the way to Closed", key="connected_writers")

    # ---- 6 restart guard ------------------------------------------------------------------------------------------
    ctx.clause = "6-restart"
    st = ctx.need(funcs.get("bromelia.setup.Diameter.start"), "Diameter.start")
    cfg = make_cfg(repo, st.node)
    wants = ["self._association = DiameterAssociation(self._connection, self._base)",
             "self._peer_state_machine = PeerStateMachine(self._association)",
             "self._peer_state_machine.start()", "self._association.start()"]
    for w in wants:
        ok = must_pass(cfg, lambda n, w=w: n.kind == "stmt" and ast.unparse(n.ast) == w)
        ctx.decide(ok, "R-MUSTPASS/restart", st.qual, st.where(), f"`{w}` on every path past the guard",
                   f"Diameter.start does not execute `{w}` on every path past its guard: a restarted node reuses a closed "
                   f"association / state machine", key=w)
    # on terms: the association is (re)built only on paths where get_current_state() == CLOSED, every other path raises
    from .. import sym as _s8
    from ..astutil import strip_doc as _sd
    CLOSED_ = repo.fold(st.mod, ast.Name(id="CLOSED", ctx=ast.Load()))
    STATE_ = ("call", ("attr", ("name", "self"), "get_current_state"), (), ())
    is_closed = lambda c: isinstance(c, tuple) and c[0] == "cmp" and c[1] == "Eq" and {c[2], c[3]} == {STATE_, CLOSED_}
    guard, n_build, n_refuse = True, 0, 0
    for p_ in _s8.Interp(fold=lambda e: repo.fold(st.mod, e)).run(_sd(st.node.body)):
        closed_tv = [tv for c, tv in p_.conds if is_closed(c)]
        builds_ = any(e[0] == "store" and e[1] == "self._association" for e in p_.effects)
        if builds_:
            n_build += 1
            guard = guard and closed_tv == [True]
        elif closed_tv == [False]:
            n_refuse += 1
            guard = guard and p_.term == "raise"
    guard = guard and n_build > 0 and n_refuse > 0
    ctx.decide(bool(guard), "R-DOM/restart", st.qual, st.where(), "start is refused unless the state is Closed",
               "Diameter.start no longer refuses to start a running node", key="guard", nontrivial=False)
    asr = ctx.need(funcs.get("bromelia.setup.DiameterAssociation.start"), "DiameterAssociation.start")
    cfg = make_cfg(repo, asr.node)
    ok = must_pass(cfg, lambda n: n.kind == "stmt" and ast.unparse(n.ast) == "self._stop_threads = False")
    ctx.decide(ok, "R-MUSTPASS/restart", asr.qual, asr.where(), "the stop flag is reset on start",
               "DiameterAssociation.start does not reset _stop_threads: the workers of a restarted node exit at once", key="reset_flag")
    gcs = ctx.need(funcs.get("bromelia.setup.Diameter.get_current_state"), "Diameter.get_current_state")
    src = ast.unparse(gcs.node)
    ctx.decide("return CLOSED" in src and "self._peer_state_machine.get_current_state()" in src, "R-DOM/restart", gcs.qual, gcs.where(),
               "state comes from the state machine, Closed when there is none", "get_current_state does not report the state machine's state",
               key="state_src", nontrivial=False)


def guarded_get(repo, R, fk, funcs, flows, sites, fi, lf, node, call, what, held):
    """idioms (a) and (b) of the rule catalogue."""
    qtxt = ast.unparse(call.func.value)
    dom = lf.cfg.dominators()
    # (a) dominated by `not Q.empty()` under the same lock, and every put of Q happens under that lock
    for d in dom[node.id]:
        dn = lf.cfg.nodes[d]
        if dn.kind == "test" and f"{qtxt}.empty()" in ast.unparse(dn.ast) and "not" in ast.unparse(dn.ast):
            same_lock = held & lf.must_at(d)
            if same_lock:
                puts_ok, nput = True, 0
                for q2, lf2 in flows.items():
                    for nid2, n2 in lf2.cfg.nodes.items():
                        for c2 in node_calls(n2):
                            if isinstance(c2.func, ast.Attribute) and c2.func.attr == "put":
                                r2 = fk.resolve(funcs[q2].cls, c2.func.value)
                                if r2 is not None and f"{r2[0]}.{r2[1]}" == what:
                                    nput += 1
                                    # consumers under the lock cannot race with each other; producers only add items
                gets = []
                for q2, lf2 in flows.items():
                    for nid2, n2 in lf2.cfg.nodes.items():
                        for c2 in node_calls(n2):
                            if isinstance(c2.func, ast.Attribute) and c2.func.attr == "get":
                                r2 = fk.resolve(funcs[q2].cls, c2.func.value)
                                if r2 is not None and f"{r2[0]}.{r2[1]}" == what:
                                    gets.append((q2, nid2, lf2))
                all_gets_locked = all(same_lock & lf2.must_at(nid2) for _, nid2, lf2 in gets)
                if all_gets_locked:
                    return True, f"idiom (a): dominated by `{ast.unparse(dn.ast)[:50]}` under {sorted(same_lock)}, which every consumer of {what} holds"
    # (b) every caller guards the call with a non-empty test and the queue has a single consumer function
    callers = sites.get(fi.qual, [])
    if callers:
        ok = True
        for cq, c in callers:
            cf = funcs[cq]
            guarded = False
            for iff in [x for x in walk_no_nested(cf.node) if isinstance(x, ast.If)]:
                if any(y is c for s in iff.body for y in ast.walk(s)):
                    t = iff.test
                    if isinstance(t, ast.Call) and isinstance(t.func, ast.Attribute):
                        for m in R.resolve_call(cf, t, R.local_types(cf))[0]:
                            rets = [ast.unparse(r.value) for r in walk_no_nested(m.node) if isinstance(r, ast.Return) and r.value is not None]
                            if rets and all(r.startswith("not ") and r.endswith(".empty()") for r in rets):
                                rr = fk.resolve(m.cls, ast.parse(rets[0][4:-8], mode="eval").body)
                                if rr is not None and f"{rr[0]}.{rr[1]}" == what:
                                    guarded = True
            ok = ok and guarded
        consumers = set()
        for q2, lf2 in flows.items():
            for n2 in lf2.cfg.nodes.values():
                for c2 in node_calls(n2):
                    if isinstance(c2.func, ast.Attribute) and c2.func.attr in ("get", "get_nowait"):
                        r2 = fk.resolve(funcs[q2].cls, c2.func.value)
                        if r2 is not None and f"{r2[0]}.{r2[1]}" == what:
                            consumers.add(q2)
        if ok and consumers == {fi.qual}:
            return True, f"idiom (b): all {len(callers)} callers test non-emptiness first and {fi.qual.rsplit('.', 1)[-1]} is the only consumer"
    return False, "the queue can be empty here"


def wake_recheck(ctx, repo, R, fk, funcs, flows, rule="R-WAKE/recheck"):
    """No lost wake-up at an untimed Event.wait(): on every path of the waiting function from a clear() of that event (its own,
    or one made by a function it calls) to the wait(), the test of the flag-controlled loop around the wait is evaluated again.
    `check; clear; wait` erases a set() made between the check and the clear, and the wait then never ends; `clear; check; wait`
    (the clear belongs to the previous round) cannot lose one."""
    def event_of(fi_, c, attr):
        if isinstance(c.func, ast.Attribute) and c.func.attr == attr:
            r = fk.resolve(fi_.cls, c.func.value)
            if r is not None:
                return f"{r[0]}.{r[1]}"
        return None
    # functions that (transitively) clear an event
    clears = {}
    for q, fi_ in funcs.items():
        for c in fn_calls(fi_.node):
            ev = event_of(fi_, c, "clear")
            if ev:
                clears.setdefault(q, set()).add(ev)
    for _ in range(4):
        changed = False
        for q, fi_ in funcs.items():
            lt = R.local_types(fi_)
            for c in fn_calls(fi_.node):
                for cal in R.resolve_call(fi_, c, lt)[0]:
                    for ev in clears.get(cal.qual, ()):
                        if ev not in clears.setdefault(q, set()):
                            clears[q].add(ev)
                            changed = True
        if not changed:
            break
    n = 0
    for q, lf in sorted(flows.items()):
        fi = funcs[q]
        lt = R.local_types(fi)
        for nid, node in lf.cfg.nodes.items():
            for kind, what, call in blocking_calls(fk, fi, node):
                if kind != "event.wait" or what.split(".")[0] not in ("DiameterAssociation", "TcpConnection"):
                    continue
                loops_ = [w for w in walk_no_nested(fi.node) if isinstance(w, ast.While) and any(y is call for y in ast.walk(w))
                          and test_flags(fk, fi, w.test)]
                if not loops_:
                    continue
                tests = {t.id for t in lf.cfg.nodes.values() if t.kind == "test" and any(t.extra is w or t.ast is w.test for w in loops_)}

                def clears_it(nd):
                    for c in node_calls(nd):
                        if event_of(fi, c, "clear") == what:
                            return True
                        if any(what in clears.get(cal.qual, ()) for cal in R.resolve_call(fi, c, lt)[0]):
                            return True
                    return False
                cl_nodes = [nd for nd in lf.cfg.nodes.values() if clears_it(nd)]
                n += 1
                bad = None
                for cn in cl_nodes:
                    for t, l in lf.cfg.succ.get(cn.id, []):
                        if l in ("exc",):
                            continue
                        if t == nid or not must_pass(lf.cfg, lambda x: x.id in tests, start=t, targets={nid}):
                            bad = cn
                ctx.decide(bad is None, rule, q, fi.where(call), f"every clear() of {what} is followed by a re-check of the loop condition before the wait",
                           f"{what}.clear() ({fi.where(bad.ast) if bad is not None and isinstance(bad.ast, ast.AST) else ''}) can be followed by the "
                           f"untimed {what}.wait() without the loop condition (stop flag / queue state) being evaluated in between: a set() that "
                           f"lands between the last check and the clear() is erased and the waiter blocks forever (lost wake-up) - the last "
                           f"message of a burst is never delivered and a close() does not release the caller", key=f"recheck:{what}")
    return n


def loop_flags(fk, fi, call):
    flags = set()
    for w in [x for x in walk_no_nested(fi.node) if isinstance(x, ast.While)]:
        if any(y is call for y in ast.walk(w)):
            for (o, f, term) in test_flags(fk, fi, w.test):
                flags.add((o, f, term))
    return flags


def test_flags(fk, fi, test):
    """attribute flags read by a loop test with the value that terminates the loop: (owner class, field, terminating value)"""
    out = []

    def go(t, neg):
        if isinstance(t, ast.UnaryOp) and isinstance(t.op, ast.Not):
            go(t.operand, not neg)
        elif isinstance(t, ast.BoolOp):
            for v in t.values:
                go(v, neg)
        elif isinstance(t, ast.Attribute):
            o = owner_of_attr(fk, fi, t)
            if o:
                out.append((o, t.attr, True if neg else False))
    go(test, False)
    return out


def owner_of_attr(fk, fi, t):
    """class that owns attribute expression `X.f` (X = self / self.a / self.a.b through the hint table)"""
    from ..locks import FIELD_TYPE_HINTS
    v = t.value
    if isinstance(v, ast.Name) and v.id == "self" and fi.cls is not None:
        # the most general class of the MRO that is not `object`-like
        names = [k.name for k in fi.cls.mro()]
        for base in ("TcpConnection", "DiameterAssociation", "PeerStateMachine", "State"):
            if base in names:
                return base
        return fi.cls.name
    if isinstance(v, ast.Attribute) and isinstance(v.value, ast.Name) and v.value.id == "self" and fi.cls is not None:
        for k in fi.cls.mro():
            tname = FIELD_TYPE_HINTS.get((k.name, v.attr))
            if tname:
                return tname
    if isinstance(v, ast.Attribute) and isinstance(v.value, ast.Attribute) and isinstance(v.value.value, ast.Name) and fi.cls is not None:
        for k in fi.cls.mro():
            t1 = FIELD_TYPE_HINTS.get((k.name, v.value.attr))
            if t1:
                t2 = FIELD_TYPE_HINTS.get((t1, v.attr))
                if t2:
                    return t2
    return None


def flag_writers(repo, fk, funcs, flags):
    out = []
    for q, fi in funcs.items():
        for s in walk_no_nested(fi.node):
            if isinstance(s, ast.Assign) and isinstance(s.value, ast.Constant):
                for t in s.targets:
                    if isinstance(t, ast.Attribute):
                        o = owner_of_attr(fk, fi, t)
                        for (fo, ff, term) in flags:
                            if o == fo and t.attr == ff and s.value.value is term and fi.name != "__init__":
                                out.append((q, fi, s))
    return out
