"""C16 - generated Session-Ids are unique for the life of the process and well-formed."""
import ast

from ..astutil import make_cfg, call_name, fn_calls, must_pass, node_calls, walk_no_nested, witness_avoiding
from ..paths import enum_paths

META = {
    "explanation": "Monotone-counter rule over every function reachable from SessionHandler.get_session_id: the pair "
                   "(SessionHandler.init, SessionHandler.id) changes only by `id += k` with k > 0 or by a reset that is dominated "
                   "by a test proving that `init` strictly increases; an unguarded reset reachable at run time refutes "
                   "uniqueness (the pair repeats within one clock second). Every path to the return increments the counter; "
                   "the returned f-string is identity;high;low[;optional] with the identity first; the AVP constructors call the "
                   "generator only for str and pass bytes through; update_avps regenerates only when origin_host is given "
                   "without session_id.",
    "decided": ["monotone counter / no unguarded reset", "increment on every path", "format", "bytes pass-through", "regeneration guard"],
    "not_decided": ["clock behaviour (wall clock stepping backwards across a process restart)"],
    "trusted_base": ["Python ast", "CFG must-pass", "intra-class call graph of SessionHandler"],
    "assumptions": ["SessionHandler.reset() at import time is the only reset executed before any Session-Id is generated"],
}


def _first_arg(fn, call):
    """text of the first argument of `call`; a local that is bound exactly once in fn stands for the expression it was bound to
    (nothing in update_avps changes `avps` between the binding and the call: the dict is only read)"""
    if not call.args:
        return None
    a = call.args[0]
    if isinstance(a, ast.Name):
        defs = [s_.value for s_ in ast.walk(fn) if isinstance(s_, ast.Assign) and len(s_.targets) == 1
                and isinstance(s_.targets[0], ast.Name) and s_.targets[0].id == a.id]
        if len(defs) == 1:
            return ast.unparse(defs[0])
    return ast.unparse(a)


def check(ctx):
    repo = ctx.repo
    m = ctx.need(repo.mods.get("bromelia._internal_utils"), "module bromelia._internal_utils")
    sh = ctx.need(repo.cls("bromelia._internal_utils.SessionHandler"), "SessionHandler")
    gs = ctx.need(sh.methods.get("get_session_id"), "SessionHandler.get_session_id")

    # reachable methods of the class from get_session_id
    reach, todo = {}, ["get_session_id"]
    edges = {}
    while todo:
        n = todo.pop()
        if n in reach or n not in sh.methods:
            continue
        reach[n] = sh.methods[n]
        for c in fn_calls(sh.methods[n]):
            nm = call_name(c)
            if nm.startswith("SessionHandler.") or nm.startswith("self.") or nm.startswith("cls."):
                callee = nm.split(".", 1)[1]
                if callee in sh.methods:
                    edges.setdefault(n, []).append((callee, c))
                    todo.append(callee)
    ctx.count("reachable_methods", len(reach))

    ctx.clause = "1-monotone-counter"
    n_writes = 0
    for name, fn in reach.items():
        construct = f"{sh.qual}.{name}"
        if name == "reset":
            continue        # the legitimacy of a reachable reset is decided at its call site (R-DOM/reset)
        for s in walk_no_nested(fn):
            tgt = None
            if isinstance(s, ast.Assign):
                for t in s.targets:
                    if ast.unparse(t) in ("SessionHandler.id", "SessionHandler.init", "cls.id", "cls.init"):
                        tgt = (t, s)
            elif isinstance(s, ast.AugAssign) and ast.unparse(s.target) in ("SessionHandler.id", "cls.id", "SessionHandler.init", "cls.init"):
                tgt = (s.target, s)
            if tgt is None:
                continue
            n_writes += 1
            t, st = tgt
            field = ast.unparse(t).split(".")[-1]
            if field == "id" and isinstance(st, ast.AugAssign) and isinstance(st.op, ast.Add):
                k = repo.fold(m, st.value)
                ctx.decide(isinstance(k, int) and k > 0, "R-WHO/counter", construct, sh.where(st), f"id += {k}",
                           f"counter changes by `{ast.unparse(st)}` (not a positive increment)", key=st)
            else:
                # a reset-like write reachable from the generator
                ctx.violate("R-WHO/counter", construct, sh.where(st),
                            f"`{ast.unparse(st)}` is reachable from get_session_id: the (init, id) pair is rewritten other than by "
                            f"a positive increment of id", key=st)
    # calls to reset() reachable from get_session_id (reset itself is not in `reach` unless called)
    for name, fn in reach.items():
        for callee, c in edges.get(name, []):
            if callee == "reset":
                # accepted only if dominated by a test that the freshly computed time exceeds SessionHandler.init
                cfg = make_cfg(repo, fn)
                dom = cfg.dominators()
                cn = next((n for n in cfg.nodes.values() if any(x is c for x in node_calls(n))), None)
                guarded = False
                if cn is not None:
                    for d in dom[cn.id]:
                        dn = cfg.nodes[d]
                        if dn.kind == "test" and "SessionHandler.init" in ast.unparse(dn.ast) and \
                                any(isinstance(o, (ast.Gt, ast.Lt)) for x in ast.walk(dn.ast) if isinstance(x, ast.Compare) for o in x.ops):
                            guarded = True
                ctx.decide(guarded, "R-DOM/reset", f"{sh.qual}.{name}", sh.where(c),
                           "reset is guarded by a strict increase of the time component",
                           "SessionHandler.reset() is reachable from get_session_id without a guard proving that `init` strictly "
                           "increases: the counter restarts at 0 within the same clock second and an earlier "
                           "(identity;high;low) is generated again", key="reset_call")
    if "reset" in reach:
        pass
    ctx.floor("counter_writes", n_writes, 1)

    ctx.clause = "2-increment-on-every-path"

    # the constructor resets the pair too (SessionHandler.__init__ -> reset): an instance created anywhere but once at import
    # time restarts the counter in a running process, so ids generated in the same second repeat
    ini_ = sh.methods.get("__init__")
    ctor_resets = ini_ is not None and any(call_name(c).endswith(".reset") or call_name(c) == "reset" for c in fn_calls(ini_))
    if ctor_resets:
        inst = []
        for fi_ in repo.funcs.values():
            for c in fn_calls(fi_.node):
                if call_name(c) in ("SessionHandler", "_internal_utils.SessionHandler") and fi_.cls is not sh:
                    inst.append((fi_, c))
        ctx.decide(not inst, "R-DOM/reset", f"{sh.qual}.__init__", sh.where(ini_),
                   "no function instantiates SessionHandler (its constructor resets the process-wide counter)",
                   f"SessionHandler is instantiated in {[f.qual for f, _ in inst]}: its constructor calls reset(), which puts the counter "
                   f"back to 0 and re-reads the clock - two generations in the same second then yield the same <init>;<id> pair, and every "
                   f"id generated afterwards repeats an earlier one", key="ctor_reset")

    def must_increment(fname, depth=0):
        fn = sh.methods[fname]
        cfg = make_cfg(repo, fn)

        def pred(n):
            if n.kind == "stmt" and isinstance(n.ast, ast.AugAssign) and ast.unparse(n.ast.target) in ("SessionHandler.id", "cls.id") \
                    and isinstance(n.ast.op, ast.Add):
                return True
            if depth < 3:
                for c in node_calls(n):
                    nm = call_name(c)
                    if "." in nm and nm.split(".", 1)[1] in sh.methods and nm.split(".")[0] in ("SessionHandler", "self", "cls"):
                        callee = nm.split(".", 1)[1]
                        if callee == "reset":
                            return True     # a reset also changes the pair; whether it may is R-DOM/reset
                        if callee != fname and must_increment(callee, depth + 1)[0]:
                            return True
            return False
        ok = must_pass(cfg, pred)
        wit = None if ok else cfg.describe_path(witness_avoiding(cfg, pred))
        return ok, wit
    ok, wit = must_increment("get_session_id")
    # blame the innermost function that fails
    blame = "get_session_id"
    for callee, _ in edges.get("get_session_id", []):
        if callee != "reset":
            ok2, wit2 = must_increment(callee)
            if not ok2:
                blame, wit = callee, wit2
    ctx.decide(ok, "R-MUSTPASS/increment", f"{sh.qual}.{blame}", sh.where(sh.methods[blame]),
               "the counter is incremented on every path before the id is formatted",
               f"a path reaches the return without incrementing the counter (path {wit}): two consecutive calls return the same "
               f"Session-Id", key="increment", witness=wit)
    # the increment precedes the reads of init/id
    calls = fn_calls(gs)
    first_call = next((c for c in calls if "." in call_name(c) and call_name(c).split(".", 1)[1] in sh.methods), None)
    reads = [n for n in walk_no_nested(gs) if isinstance(n, ast.Attribute) and ast.unparse(n) in ("SessionHandler.id", "SessionHandler.init")]
    ok = first_call is not None and all((first_call.lineno, first_call.col_offset) < (r.lineno, r.col_offset) for r in reads)
    ctx.decide(ok, "R-MUSTPASS/increment", f"{sh.qual}.get_session_id", sh.where(gs), "counter is read after it was advanced",
               "the counter is read before it is advanced", key="read_after", nontrivial=False)

    ctx.clause = "3-format"
    rets = [n.value for n in walk_no_nested(gs) if isinstance(n, ast.Return) and n.value is not None]
    p0 = gs.args.args[0].arg if gs.args.args else None
    env = {}
    for s in walk_no_nested(gs):
        if isinstance(s, ast.Assign) and isinstance(s.targets[0], ast.Name):
            env[s.targets[0].id] = ast.unparse(s.value)
    ok = False
    shape = None
    if len(rets) == 1 and isinstance(rets[0], ast.JoinedStr):
        parts = []
        for v in rets[0].values:
            if isinstance(v, ast.Constant):
                parts.append(("lit", v.value))
            else:
                t = ast.unparse(v.value)
                parts.append(("val", env.get(t, t)))
        shape = parts
        vals = [p[1] for p in parts if p[0] == "val"]
        lits = [p[1] for p in parts if p[0] == "lit"]
        ok = len(vals) in (3, 4) and vals[0] == p0 and vals[1] == "SessionHandler.init" and vals[2] == "SessionHandler.id" \
            and all(l == ";" for l in lits) and len(lits) == len(vals) - 1 and parts[0][0] == "val"
    ctx.decide(ok, "R-TABLE/format", f"{sh.qual}.get_session_id", sh.where(gs), "identity;high;low[;optional], identity first",
               f"the generated id has the shape {shape}: expected <identity>;<init>;<id>[;<optional>] starting with the given identity",
               key="format")

    ctx.clause = "4-callers"
    for q in ("bromelia.avps.ietf.rfc6733.SessionIdAVP", "bromelia.avps.ietf.rfc6733.AcctMultiSessionIdAVP"):
        ci = ctx.need(repo.cls(q), q)
        ini = ctx.need(ci.methods.get("__init__"), f"{q}.__init__")
        p = [a.arg for a in ini.args.args if a.arg != "self"][0]
        okc = True
        seen = False
        for pth in enum_paths(ini.body, loops="skip"):
            facts = {ast.unparse(t): tr for t, tr in pth.conds()}
            gen = [c for c, _ in pth.calls() if call_name(c).endswith("get_session_id")]
            is_str = facts.get(f"isinstance({p}, str)")
            if gen:
                seen = True
                okc = okc and is_str is True and [ast.unparse(a) for a in gen[0].args] == [p]
            if facts.get(f"isinstance({p}, bytes)") is True and is_str is not True:
                okc = okc and not gen
        ctx.decide(okc and seen, "R-DOM/generate-for-str", f"{q}.__init__", ci.where(ini),
                   "a Session-Id is generated only from a str identity; bytes are carried as given",
                   "the constructor generates a Session-Id for a non-str value (or never generates one): a Session-Id supplied as "
                   "bytes is not carried unchanged", key="generate")
    msg = ctx.need(repo.cls("bromelia.base.DiameterMessage"), "DiameterMessage")
    ua = ctx.need(msg.methods.get("update_avps"), "DiameterMessage.update_avps")
    gens = [c for c in fn_calls(ua) if call_name(c).endswith("get_session_id")]
    ok = False
    for pth in enum_paths(ua.body, loops="skip"):
        g = [c for c, _ in pth.calls() if call_name(c).endswith("get_session_id")]
        if not g:
            continue
        # facts forced by the path conditions, on the positive form of every atom (`x not in d` True == `x in d` False)
        from ..paths import implied_atoms
        facts = {}
        for t_, tr_ in pth.conds():
            facts.update(implied_atoms(t_, tr_))
        has_sid = facts.get("'session_id' in avps.keys()", facts.get("'session_id' in avps"))
        has_oh = facts.get("'origin_host' in avps.keys()", facts.get("'origin_host' in avps"))
        ok = facts.get("self.has_avp('session_id_avp')") is True and has_sid is False and has_oh is True and \
            _first_arg(ua, g[0]) == "avps['origin_host']"
        if not ok:
            break
    # ... and exactly then: with the three conditions true no path may skip the regeneration
    from ..paths import eval_bool
    fixed = {"self.has_avp('session_id_avp')": True, "'session_id' not in avps.keys()": True, "'origin_host' in avps.keys()": True,
             "'session_id' in avps.keys()": False, "'origin_host' not in avps.keys()": False, "not silent_errors": False}
    skipped = None
    for pth in enum_paths(ua.body, decide=lambda t, ev_: eval_bool(t, lambda e: fixed.get(ast.unparse(e))), loops="skip"):
        if pth.term == "raise":
            continue
        g = [c for c, _ in pth.calls() if call_name(c).endswith("get_session_id")]
        st_ = [x for x in pth.stmts() if isinstance(x, ast.Assign) and ast.unparse(x.targets[0]) == "self.session_id_avp.data"]
        if not g or not st_:
            extra = [ast.unparse(t) for t, tr in pth.conds() if ast.unparse(t) not in fixed]
            skipped = extra
    ctx.decide(skipped is None, "R-DOM/regenerate", f"{msg.qual}.update_avps", msg.where(ua),
               "whenever origin_host is given without session_id the Session-Id is regenerated and stored",
               f"with origin_host given and session_id not, a path skips the regeneration (extra condition(s) {skipped}): the message "
               f"keeps a Session-Id built for another identity - it does not start with the new origin and is not fresh",
               key="regenerate_always")
    ctx.decide(ok and len(gens) == 1, "R-DOM/regenerate", f"{msg.qual}.update_avps", msg.where(ua),
               "regeneration only when origin_host is given without session_id, from the new origin host",
               "update_avps regenerates the Session-Id outside the documented condition (origin_host given, session_id not)",
               key="regenerate")
    stores = [ast.unparse(s) for s in walk_no_nested(ua) if isinstance(s, ast.Assign) and ast.unparse(s.targets[0]) == "self.session_id_avp.data"]
    cfg = make_cfg(repo, ua)
    refreshed = must_pass(cfg, lambda n: n.kind == "stmt" and ast.unparse(n.ast) == "self.refresh()")
    ctx.decide(len(stores) == 1 and refreshed, "R-MUSTPASS/regenerate-refresh", f"{msg.qual}.update_avps", msg.where(ua),
               "the regenerated id is stored and the length refreshed on every path",
               "update_avps does not refresh the Message Length on every path", key="refresh", nontrivial=False)

    # a Session-Id supplied as bytes is carried unchanged: the constructors of the data types a Session-Id AVP is built from keep a
    # bytes argument as it is on every path (shared with C02 R-ALIAS/bytes-identity: normalising, re-encoding or stripping the
    # octets changes the id a peer sent, and the answer echoes an id the peer never used)
    ctx.clause = "5-bytes-unchanged"
    from .c02 import summary_stores_id
    memo_ = {}
    for tq in ("bromelia.types.OctetStringType", "bromelia.types.UTF8StringType"):
        tc = repo.cls(tq)
        ini_ = tc.methods.get("__init__") if tc is not None else None
        if ini_ is None:
            continue
        ctx.decide(summary_stores_id(repo, tc, ini_, memo_), "R-ALIAS/bytes-identity", f"{tc.qual}.__init__", tc.where(ini_),
                   "bytes input is stored unchanged",
                   "on the isinstance(data, bytes) path the data field does not end up holding the given bytes: a Session-Id supplied "
                   "as bytes (decoded from the wire, or passed by the application) is altered", key=f"bytes_identity:{tc.name}")

