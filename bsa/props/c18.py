"""C18 - TBCD digit encoding round-trips for every digit string."""
import ast

from ..astutil import strip_doc, make_cfg, call_name, fn_calls, kwarg, walk_no_nested
from .. import avpdict

META = {
    "explanation": "R-RET: no path of encode_to_tbcd / decode_from_tbcd reaches the end of the function or a bare return "
                   "(implicit None) - decided on the CFG. R-CODEC: encoder and decoder loops step by the pair width, apply the "
                   "same involution ([::-1]) to a full pair, use one filler constant that the encoder puts at position 0 and the "
                   "decoder skips (takes position 1), and the decoder's filler test is on the pair. R-SIB: MsisdnAVP.encode and "
                   "StnSrAVP.encode are structurally identical and feed bytes.fromhex(encode_to_tbcd(.)) to the type initialiser.",
    "decided": ["total return (no implicit None)", "codec symmetry (step, involution, filler, positions)", "AVP siblings agree"],
    "not_decided": ["the round trip as an equation over all strings", "loss of leading zeros through int(data) for str input"],
    "trusted_base": ["Python ast", "statement CFG"],
    "assumptions": [],
}


def _falls_off(repo, fn):
    """Is the normal exit reachable other than through `return <expr>`?"""
    cfg = make_cfg(repo, fn)
    bad = []
    for p, l in cfg.pred.get(cfg.exit, []):
        n = cfg.nodes[p]
        if l == "ret" and isinstance(n.ast, ast.Return) and n.ast.value is not None \
                and not (isinstance(n.ast.value, ast.Constant) and n.ast.value.value is None):
            continue
        if p in cfg.reachable():
            bad.append(n)
    wit = None
    if bad:
        path = cfg.shortest_path(cfg.entry, bad[0].id)
        wit = cfg.describe_path(path) + f"->L{bad[0].lineno}->end"
    return bad, wit


def _pair_width(repo, m, fn):
    """Width of the slice that extracts one pair: via helper get_two_bits(input, offset) or inline slice."""
    for c in fn_calls(fn):
        if isinstance(c.func, ast.Name) and c.func.id in m.funcs and len(c.args) == 2:
            h = m.funcs[c.func.id]
            rets = [s for s in ast.walk(h) if isinstance(s, ast.Return)]
            if len(rets) == 1 and isinstance(rets[0].value, ast.Subscript) and isinstance(rets[0].value.slice, ast.Slice):
                w = _slice_width(rets[0].value.slice)
                if w is not None:
                    return w, c
    for n in walk_no_nested(fn):
        if isinstance(n, ast.Subscript) and isinstance(n.slice, ast.Slice) and n.slice.step is None:
            w = _slice_width(n.slice)
            if w is not None:
                return w, n
    return None, None


def _slice_width(sl):
    if sl.lower is None or sl.upper is None or sl.step is not None:
        return None
    lo = ast.unparse(sl.lower)
    if isinstance(sl.upper, ast.BinOp) and isinstance(sl.upper.op, ast.Add):
        a, b = sl.upper.left, sl.upper.right
        if ast.unparse(a) == lo and isinstance(b, ast.Constant) and isinstance(b.value, int):
            return b.value
        if ast.unparse(b) == lo and isinstance(a, ast.Constant) and isinstance(a.value, int):
            return a.value
    return None


def _loop(fn):
    ws = [s for s in fn.body if isinstance(s, ast.While)]
    return ws[0] if len(ws) == 1 else None


def _has_reversal(stmts, var):
    for s in stmts:
        for n in ast.walk(s):
            if isinstance(n, ast.Subscript) and isinstance(n.slice, ast.Slice) and n.slice.lower is None \
                    and n.slice.upper is None and isinstance(n.slice.step, ast.UnaryOp) \
                    and isinstance(n.slice.step.op, ast.USub) and isinstance(n.slice.step.operand, ast.Constant) \
                    and n.slice.step.operand.value == 1 and isinstance(n.value, ast.Name) and n.value.id == var:
                return True
    return False


def _steps(stmts, var):
    out = []
    for s in stmts:
        for n in ast.walk(s):
            if isinstance(n, ast.AugAssign) and isinstance(n.target, ast.Name) and n.target.id == var \
                    and isinstance(n.op, ast.Add) and isinstance(n.value, ast.Constant):
                out.append(n.value.value)
    return out


def check(ctx):
    repo = ctx.repo
    m = ctx.need(repo.mods.get("bromelia.utils"), "module bromelia.utils")
    enc = ctx.need(m.funcs.get("encode_to_tbcd"), "bromelia.utils.encode_to_tbcd")
    dec = ctx.need(m.funcs.get("decode_from_tbcd"), "bromelia.utils.decode_from_tbcd")

    ctx.clause = "1-total-return"
    for fn in (enc, dec):
        bad, wit = _falls_off(repo, fn)
        ctx.decide(not bad, "R-RET", f"bromelia.utils.{fn.name}", f"{m.rel}:{fn.lineno}",
                   "every path returns a value",
                   f"a path reaches the end of the function / a bare return and yields None instead of a string "
                   f"(path {wit}); e.g. every even-length input leaves the loop without returning", key="falloff",
                   witness=wit)

    ctx.clause = "1b-digit-string-unchanged"
    MUTATORS = ("strip", "lstrip", "rstrip", "replace", "zfill", "lower", "upper", "removeprefix", "removesuffix", "translate", "split", "join", "format")
    for fn in (enc, dec):
        p0 = fn.args.args[0].arg
        construct = f"bromelia.utils.{fn.name}"
        where = f"{m.rel}:{fn.lineno}"
        for st_ in [x for x in walk_no_nested(fn) if isinstance(x, ast.Assign) and any(isinstance(t, ast.Name) and t.id == p0 for t in x.targets)]:
            v = st_.value
            txt = ast.unparse(v)
            ok_forms = (f"str({p0}) if isinstance({p0}, int) else {p0}", f"str({p0})", p0, f"{p0} if isinstance({p0}, str) else str({p0})")
            bad = [n for n in ast.walk(v) if isinstance(n, ast.Call) and isinstance(n.func, ast.Attribute) and n.func.attr in MUTATORS] or \
                [n for n in ast.walk(v) if isinstance(n, ast.Subscript)] or \
                [n for n in ast.walk(v) if isinstance(n, ast.Call) and call_name(n) in ("float", "int", "abs", "round")]
            if txt in ok_forms:
                ctx.hold("R-ALIAS/digits-unchanged", construct, f"{m.rel}:{st_.lineno}", f"`{txt}` keeps every digit", key="normalise")
            elif bad:
                ctx.violate("R-ALIAS/digits-unchanged", construct, f"{m.rel}:{st_.lineno}",
                            f"`{ast.unparse(st_)[:90]}` rewrites the digit string before it is encoded/decoded (strip/replace/slice/numeric "
                            f"conversion): digits such as leading zeros are dropped, so decode(encode(s)) != s for those strings",
                            key="normalise")
            else:
                ctx.undecided("R-ALIAS/digits-unchanged", construct, f"{m.rel}:{st_.lineno}", f"input normalisation `{txt}` not recognised",
                              key="normalise")

    # every digit string reaches the pair loop: the part of each codec before its loop is evaluated (term interpreter, concrete
    # witness inputs incl. the boundary value zero in both of its forms) and must not return early for a non-empty number
    ctx.clause = "1c-no-early-exit"
    from .. import sym as _sw
    for fn in (enc, dec):
        p0 = fn.args.args[0].arg
        construct = f"bromelia.utils.{fn.name}"
        witnesses = [0, 7, 10, "0", "00", "7", "12"] if fn is enc else ["0f", "1f", "21", "00"]
        lps = [n for n in walk_no_nested(fn) if isinstance(n, (ast.While, ast.For))]
        if len(lps) != 1:
            continue
        bad = []
        for w in witnesses:
            try:
                paths = _sw.Interp(fold=lambda e: repo.fold(m, e)).run(strip_doc(fn.body), _sw.PathState({p0: w}, [], []))
            except _sw.TooMany:
                continue
            for p_ in paths:
                reached = any(e[0] == "loop" and e[2] is lps[0] for e in p_.effects)
                if not reached and p_.term in ("return", "fall"):
                    bad.append((w, _sw.show(p_.value) if p_.term == "return" else None))
        ctx.decide(not bad, "R-RET/early-exit", construct, f"{m.rel}:{fn.lineno}",
                   f"inputs {witnesses} all reach the pair loop",
                   f"for input(s) {sorted(set(map(str, bad)))[:4]} (input, returned value) the function returns before its pair loop: a number "
                   f"is mapped to a constant instead of its digits (e.g. the integer 0 is falsy but its digit string is '0'), so "
                   f"decode(encode(n)) != n for it", key="early_exit")

    ctx.clause = "2-codec-symmetry"
    # One iteration of each codec loop on terms (bsa.sym): P = the pair taken at the current offset (the helper that takes it
    # is inlined by the interpreter), REV(P) = P[::-1].  What is compared is what each branch appends and how far it advances.
    from .. import sym
    info = {}

    def contains(t, pred):
        if pred(t):
            return True
        return isinstance(t, tuple) and any(contains(x, pred) for x in t if isinstance(x, tuple))

    def helper_inline(f, args, kws, node, st, it):
        # get_two_bits(input, offset)-style one-expression helpers of bromelia.utils are evaluated in place
        if isinstance(f, tuple) and f[0] == "name" and f[1] in m.funcs and f[1] not in ("encode_to_tbcd", "decode_from_tbcd"):
            h = m.funcs[f[1]]
            body = [s_ for s_ in h.body if not (isinstance(s_, ast.Expr) and isinstance(s_.value, ast.Constant))]
            ps = [a.arg for a in h.args.args]
            if len(body) == 1 and isinstance(body[0], ast.Return) and body[0].value is not None and len(ps) == len(args) and not kws \
                    and isinstance(body[0].value, ast.Subscript):
                return it.ev(body[0].value, sym.PathState(dict(zip(ps, args)), [], []))
        return None
    for role, fn in (("enc", enc), ("dec", dec)):
        construct = f"bromelia.utils.{fn.name}"
        where = f"{m.rel}:{fn.lineno}"
        loops = [n for n in walk_no_nested(fn) if isinstance(n, (ast.While, ast.For))]
        if len(loops) != 1:
            ctx.undecided("R-CODEC", construct, where, "expected exactly one loop over the input", key="loop")
            continue
        lp = loops[0]
        p0 = fn.args.args[0].arg
        INP, O = sym.S(p0), sym.S("int:o")
        range_step = None
        if isinstance(lp, ast.While):
            idx = _offset_var(lp)
            if idx is None:
                idx = next((n.id for n in ast.walk(lp.test) if isinstance(n, ast.Name) and n.id != p0), None)
        else:
            idx = lp.target.id if isinstance(lp.target, ast.Name) else None
            if isinstance(lp.iter, ast.Call) and call_name(lp.iter) == "range" and len(lp.iter.args) == 3:
                range_step = repo.fold(m, lp.iter.args[2])
            elif isinstance(lp.iter, ast.Call) and call_name(lp.iter) == "range":
                range_step = 1
        if idx is None:
            ctx.undecided("R-CODEC", construct, where, "loop index not recognised", key="shape")
            continue
        it = sym.Interp(fold=lambda e: repo.fold(m, e), inline=helper_inline, log_calls=True)
        # names bound before the loop (pair counts, the normalised input) keep their meaning inside it
        pre = []
        for st_ in strip_doc(fn.body):
            if st_ is lp or any(x is lp for x in ast.walk(st_)):
                break
            pre.append(st_)
        try:
            pre_paths = [q for q in it.run(pre, sym.PathState({p0: INP}, [], [])) if q.term == "fall"]
        except sym.TooMany:
            pre_paths = []
        env0 = {k: v for k, v in (pre_paths[0].env.items() if len(pre_paths) == 1 else []) if k != p0 and not isinstance(v, (str, bytes))}
        paths = it.loop_body(lp, dict(env0, **{idx: O, p0: INP}))

        def is_slice_of_input(t):
            # input[a : a + w] for a constant width w: a pair of digits at some offset
            if not (isinstance(t, tuple) and len(t) == 4 and t[0] == "slice" and (t[1] == INP or (isinstance(t[1], tuple) and t[1][0] == "name"))):
                return False
            try:
                return t[2] is not None and t[3] is not None and sym.is_int(sym.add(t[3], t[2], -1)) and sym.add(t[3], t[2], -1) > 0
            except Exception:
                return False
        # the pair: input[k*o : k*o + w]
        pair = None
        for p_ in paths:
            for v in list(p_.env.values()) + [c for c, _ in p_.conds]:
                def is_pair(t):
                    try:
                        return is_slice_of_input(t) and sym.is_int(sym.lin_coef(t[2], O)) and sym.lin_coef(t[2], O) >= 1 \
                            and sym.is_int(sym.add(t[2], sym.scale(O, sym.lin_coef(t[2], O)), -1))
                    except Exception:
                        return False
                if contains(v, is_pair):
                    def grab(t):
                        nonlocal pair
                        if is_pair(t):
                            pair = t
                        elif isinstance(t, tuple):
                            for x in t:
                                if isinstance(x, tuple):
                                    grab(x)
                    grab(v)
        if pair is None:
            ctx.undecided("R-CODEC", construct, where, "pair extraction not recognised", key="shape")
            continue
        wterm = sym.add(pair[3], pair[2], -1) if pair[3] is not None else None
        w = wterm if sym.is_int(wterm) else None
        coef = sym.lin_coef(pair[2], O)
        REV = lambda t: isinstance(t, tuple) and len(t) == 5 and t[0] == "slice3" and (t[1] == pair or is_slice_of_input(t[1])) \
            and t[2:] == (None, None, -1)

        def filler_form(a_):
            # "f" + X  /  X + "f"  /  f"f{X}" with X built from the input: (filler, position of the filler) or None
            from_input = lambda t: contains(t, lambda u: u == pair or is_slice_of_input(u) or u == INP)
            if isinstance(a_, tuple) and len(a_) == 4 and a_[0] == "op" and a_[1] == "Add":
                if isinstance(a_[2], str) and from_input(a_[3]):
                    return a_[2], 0
                if isinstance(a_[3], str) and from_input(a_[2]):
                    return a_[3], 1
            if isinstance(a_, tuple) and a_ and a_[0] == "fstr":
                lits = [x for x in a_[1] if isinstance(x, str)]
                if len(lits) == 1 and len(a_[1]) == 2:
                    return lits[0], 0 if isinstance(a_[1][0], str) else 1
            return None

        def appended(p_):
            """terms appended to the output accumulator on this path"""
            out = []
            if p_.term == "return" and isinstance(p_.value, tuple) and len(p_.value) == 4 and p_.value[:2] == ("op", "Add") \
                    and isinstance(p_.value[2], tuple) and p_.value[2][0] == "name":
                out.append(p_.value[3])       # `return acc + X`
            base = lambda t, k: t == ("name", k) or (isinstance(t, tuple) and len(t) == 3 and t[0] == "loopvar" and t[1] == k)
            for k, v in p_.env.items():
                if isinstance(v, tuple) and len(v) == 4 and v[0] == "op" and v[1] == "Add" and base(v[2], k):
                    out.append(v[3])
                elif isinstance(v, tuple) and len(v) == 4 and v[0] == "op" and v[1] == "Add" and isinstance(v[2], tuple) and len(v[2]) == 4 \
                        and v[2][:2] == ("op", "Add") and base(v[2][2], k):
                    out.extend([v[2][3], v[3]])
            return out

        def is_full(p_):
            for c, tv in p_.conds:
                if role == "enc" and isinstance(c, tuple) and c[0] == "cmp" and c[2] == ("call", ("name", "len"), (pair,), ()):
                    if c[1] == "Eq" and c[3] in (2, w):
                        return tv
                    if (c[1] == "Eq" and c[3] == 1) or (c[1] == "Lt" and c[3] == 2):
                        return not tv
                if role == "dec" and isinstance(c, tuple) and c[0] == "cmp" and c[1] == "In" and c[3] == pair and isinstance(c[2], str):
                    return not tv
            return None
        def kind_of(p_):
            # by the branch condition where the loop tests the pair; otherwise by what the path emits
            k_ = is_full(p_)
            if k_ is not None:
                return k_
            A_ = appended(p_)
            if any(contains(a_, REV) for a_ in A_):
                return True
            if any(filler_form(a_) for a_ in A_) or any(isinstance(a_, tuple) and a_ and a_[0] == "sub" and a_[1] == pair for a_ in A_):
                return False
            return None
        full = [p_ for p_ in paths if kind_of(p_) is True]
        tail = [p_ for p_ in paths if kind_of(p_) is False]
        # the odd trailing digit may be handled after the loop: paths of the whole function that append a filler form to the
        # accumulator the loop left behind
        if not tail:
            try:
                for q_ in it.run(strip_doc(fn.body), sym.PathState({p0: INP}, [], [])):
                    if q_.term != "raise" and any(e[0] == "loop" and e[2] is lp for e in q_.effects) and any(filler_form(a_) for a_ in appended(q_)):
                        tail.append(q_)
            except sym.TooMany:
                pass
            n_loop_tail = 0
        else:
            n_loop_tail = len(tail)
        if not full or not tail or len(full) + n_loop_tail != len(paths):
            ctx.undecided("R-CODEC", construct, where, f"full-pair / tail branches not recognised ({len(full)} full, {len(tail)} tail, "
                          f"{len(paths)} paths)", key="branch")
            continue
        # distance between the pairs of two consecutive iterations: (advance of the index) x (index coefficient of the pair's offset)
        steps = sorted({sym.scale(sym.add(p_.get(idx), O, -1), coef) if isinstance(lp, ast.While) else
                        (range_step * coef if sym.is_int(range_step) else range_step) for p_ in full}, key=str)
        fill_d = next((c[2] for p_ in paths for c, tv in p_.conds if role == "dec" and isinstance(c, tuple) and c[0] == "cmp"
                       and c[1] == "In" and c[3] == pair), None)
        info[role] = dict(w=w, full=full, tail=tail, fn=fn, steps=steps, pair=pair, fill_d=fill_d, idx=idx, appended=appended, lp=lp,
                          filler_form=filler_form)
        ctx.decide(steps == [w] and w == 2, "R-CODEC/step", construct, where, f"loop steps by the pair width {w}",
                   f"pair width is {w} but the loop index advances by {[sym.show(s_) for s_ in steps]} in the full-pair branch: digits are "
                   f"skipped or re-read", key="step")
        ctx.decide(all(any(contains(a_, REV) for a_ in appended(p_)) for p_ in full), "R-CODEC/involution", construct, where,
                   "full pair is swapped ([::-1])",
                   "the full-pair branch does not swap the two digits ([::-1]): encoder and decoder are no longer inverse", key="swap")
        ctx.decide(not any(contains(a_, REV) for p_ in tail for a_ in appended(p_)), "R-CODEC/involution", construct, where,
                   "tail is not swapped", "the odd-length tail is swapped as if it were a full pair", key="tail_swap", nontrivial=False)
    if "enc" in info and "dec" in info:
        e, d = info["enc"], info["dec"]
        fill_e = pos_e = None
        for p_ in e["tail"]:
            for a_ in e["appended"](p_):
                ff = e["filler_form"](a_)
                if ff is not None:
                    fill_e, pos_e = ff
        fill_d = d["fill_d"]
        idx_d = None
        for p_ in d["tail"]:
            for a_ in d["appended"](p_):
                if isinstance(a_, tuple) and a_[0] == "sub" and a_[1] == d["pair"] and sym.is_int(a_[2]):
                    idx_d = a_[2]
        where = f"{m.rel}:{enc.lineno}"
        if fill_e is None or fill_d is None or idx_d is None:
            ctx.undecided("R-CODEC/filler", "bromelia.utils.encode_to_tbcd+decode_from_tbcd", where,
                          f"filler handling not recognised (enc filler {fill_e!r}, dec filler {fill_d!r}, dec index {idx_d!r})",
                          key="filler")
        else:
            ctx.decide(fill_e == fill_d == "f", "R-CODEC/filler", "bromelia.utils.encode_to_tbcd+decode_from_tbcd", where,
                       "encoder and decoder use the filler 'f'",
                       f"encoder pads with {fill_e!r} but decoder tests for {fill_d!r} (3GPP TBCD filler is 'f')", key="filler")
            ctx.decide(pos_e == 0 and idx_d == 1, "R-CODEC/filler-position", "bromelia.utils.encode_to_tbcd+decode_from_tbcd",
                       where, "filler at position 0, digit taken from position 1",
                       f"encoder puts the filler at position {pos_e} while the decoder takes the digit at position {idx_d}: "
                       f"the last digit of an odd-length number is lost or replaced by the filler", key="filler_pos")
        for role, x in (("enc", e), ("dec", d)):
            ok_t = all(p_.term in ("return", "break") or (isinstance(x["lp"], ast.While) and sym.is_int(sym.add(p_.get(x["idx"]), sym.S("int:o"), -1))
                                                            and sym.add(p_.get(x["idx"]), sym.S("int:o"), -1) > 0)
                       or isinstance(x["lp"], ast.For) for p_ in x["tail"])
            ctx.decide(ok_t, "R-CODEC/tail-terminates", f"bromelia.utils.{x['fn'].name}",
                       f"{m.rel}:{x['fn'].lineno}", "tail branch returns or advances",
                       "the odd-length tail branch neither returns nor advances the index: the loop never ends", key="tail_term")
    ctx.floor("codec_functions", len(info), 2)

    ctx.clause = "3-avp-siblings"
    sibs = []
    for q in ("bromelia.avps.etsi_3gpp.ts_129_329.MsisdnAVP", "bromelia.avps.etsi_3gpp.ts_129_272.StnSrAVP"):
        ci = ctx.need(repo.cls(q), q)
        f = ctx.need(ci.methods.get("encode"), f"{q}.encode")
        sibs.append((ci, f))
        # on terms: int / str -> bytes.fromhex(encode_to_tbcd(n)) with n = the number itself (or int()/str() of it, which keep
        # every digit of a canonical number), bytes -> the given object
        p = f.args.args[1].arg if len(f.args.args) > 1 else "data"
        D = sym.S(p)
        okr, shown = True, []
        n_num = 0
        for p_ in sym.Interp().run(strip_doc(f.body), sym.PathState({p: D}, [], [])):
            if p_.term != "return" or p_.value is None:
                continue
            v = p_.value
            shown.append(sym.show(v))
            if v == D:
                continue
            inner_ok = [D, ("call", ("name", "int"), (D,), ()), ("call", ("name", "str"), (D,), ()),
                        ("call", ("name", "str"), (("call", ("name", "int"), (D,), ()),), ())]
            good = isinstance(v, tuple) and v[0] == "call" and v[1] == ("attr", ("name", "bytes"), "fromhex") and len(v[2]) == 1 \
                and isinstance(v[2][0], tuple) and v[2][0][0] == "call" and v[2][0][1] == ("name", "encode_to_tbcd") and len(v[2][0][2]) == 1 \
                and v[2][0][2][0] in inner_ok
            n_num += good
            okr = okr and good
        ok = okr and n_num >= 1 and sym.show(D) in shown
        texts = sorted(set(shown))
        ctx.decide(ok, "R-SIB/encode", f"{q}.encode", ci.where(f),
                   "number -> bytes.fromhex(encode_to_tbcd(.)), bytes pass through",
                   f"encode() returns {texts}: a number is not carried as bytes.fromhex(encode_to_tbcd(number))", key="encode")
        # resolves to utils.encode_to_tbcd
        rsym = repo.resolve(ci.mod, "encode_to_tbcd")
        ctx.decide(rsym is not None and rsym.kind == "func" and rsym.node is enc, "R-SIB/encode", f"{q}.encode", ci.where(f),
                   "encode_to_tbcd resolves to bromelia.utils.encode_to_tbcd",
                   "encode_to_tbcd used by the AVP is not bromelia.utils.encode_to_tbcd", key="resolve", nontrivial=False)
        ini = ci.methods.get("__init__")
        ok2 = False
        if ini is not None:
            for c in fn_calls(ini):
                if call_name(c).endswith("Type.__init__"):
                    d = kwarg(c, "data")
                    if d is not None and ast.unparse(d) in ("self.encode(data)", f"{ci.name}.encode(self, data)"):
                        ok2 = True
        ctx.decide(ok2, "R-SIB/encode", f"{q}.__init__", ci.where(ini or ci.node),
                   "type initialiser receives self.encode(data)",
                   "the type initialiser does not receive self.encode(data): the number is not TBCD-encoded", key="ctor")
    a, b = sibs
    def table(fn_):
        """value returned per type of the argument (int / str / bytes / anything else), decided on terms"""
        pn = fn_.args.args[1].arg if len(fn_.args.args) > 1 else "data"
        DT = sym.S("DATA")
        rows = {}
        for kind in ("int", "str", "bytes", "other"):
            def hook(t, kind=kind):
                if isinstance(t, tuple) and t and t[0] == "call" and t[1] == ("name", "isinstance") and t[2][:1] == (DT,):
                    names = sym.show(t[2][1]).replace("[", "").replace("]", "").replace(" ", "").split(",")
                    return kind in names
                return None
            vals = set()
            for p_ in sym.Interp(hook=hook).run(strip_doc(fn_.body), sym.PathState({pn: DT}, [], [])):
                vals.add((p_.term, sym.show(p_.value) if p_.value is not None else None))
            rows[kind] = sorted(vals, key=str)
        return rows
    same = table(a[1]) == table(b[1])
    ctx.decide(same, "R-SIB/encode", "MsisdnAVP.encode~StnSrAVP.encode", a[0].where(a[1]),
               "the two encode() implementations are structurally identical",
               "MsisdnAVP.encode and StnSrAVP.encode differ structurally: the two AVPs no longer carry the same encoding",
               key="siblings")


def _offset_var(lp):
    t = lp.test
    if isinstance(t, ast.Compare) and isinstance(t.left, ast.Name):
        return t.left.id
    return None
