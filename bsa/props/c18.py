"""C18 - TBCD digit encoding round-trips for every digit string."""
import ast

from ..astutil import make_cfg, call_name, fn_calls, kwarg, walk_no_nested
from .. import avpdict

META = {
    "explanation": "R-RET: no path of encode_to_tbcd / decode_from_tbcd reaches the end of the function or a bare return "
                   "(implicit None) - decided on the CFG. R-CODEC: encoder and decoder loops step by the pair width, apply the "
                   "same involution ([::-1]) to a full pair, use one filler constant that the encoder puts at position 0 and the "
                   "decoder skips (takes position 1), and the decoder's filler test is on the pair. R-SIB: MsisdnAVP.encode and "
                   "StnSrAVP.encode are structurally identical and feed bytes.fromhex(encode_to_tbcd(.)) to the type initialiser.",
    "decided": ["total return (no implicit None)", "codec symmetry (step, involution, filler, positions)", "AVP siblings agree"],
    "not_decided": ["the round trip as an equation over all strings", "loss of leading zeros through int(data) for str input"],
    "trusted_base": ["Python ast", "statement CFG"],
    "assumptions": [],
}


def _falls_off(repo, fn):
    """Is the normal exit reachable other than through `return <expr>`?"""
    cfg = make_cfg(repo, fn)
    bad = []
    for p, l in cfg.pred.get(cfg.exit, []):
        n = cfg.nodes[p]
        if l == "ret" and isinstance(n.ast, ast.Return) and n.ast.value is not None \
                and not (isinstance(n.ast.value, ast.Constant) and n.ast.value.value is None):
            continue
        if p in cfg.reachable():
            bad.append(n)
    wit = None
    if bad:
        path = cfg.shortest_path(cfg.entry, bad[0].id)
        wit = cfg.describe_path(path) + f"->L{bad[0].lineno}->end"
    return bad, wit


def _pair_width(repo, m, fn):
    """Width of the slice that extracts one pair: via helper get_two_bits(input, offset) or inline slice."""
    for c in fn_calls(fn):
        if isinstance(c.func, ast.Name) and c.func.id in m.funcs and len(c.args) == 2:
            h = m.funcs[c.func.id]
            rets = [s for s in ast.walk(h) if isinstance(s, ast.Return)]
            if len(rets) == 1 and isinstance(rets[0].value, ast.Subscript) and isinstance(rets[0].value.slice, ast.Slice):
                w = _slice_width(rets[0].value.slice)
                if w is not None:
                    return w, c
    for n in walk_no_nested(fn):
        if isinstance(n, ast.Subscript) and isinstance(n.slice, ast.Slice) and n.slice.step is None:
            w = _slice_width(n.slice)
            if w is not None:
                return w, n
    return None, None


def _slice_width(sl):
    if sl.lower is None or sl.upper is None or sl.step is not None:
        return None
    lo = ast.unparse(sl.lower)
    if isinstance(sl.upper, ast.BinOp) and isinstance(sl.upper.op, ast.Add):
        a, b = sl.upper.left, sl.upper.right
        if ast.unparse(a) == lo and isinstance(b, ast.Constant) and isinstance(b.value, int):
            return b.value
        if ast.unparse(b) == lo and isinstance(a, ast.Constant) and isinstance(a.value, int):
            return a.value
    return None


def _loop(fn):
    ws = [s for s in fn.body if isinstance(s, ast.While)]
    return ws[0] if len(ws) == 1 else None


def _has_reversal(stmts, var):
    for s in stmts:
        for n in ast.walk(s):
            if isinstance(n, ast.Subscript) and isinstance(n.slice, ast.Slice) and n.slice.lower is None \
                    and n.slice.upper is None and isinstance(n.slice.step, ast.UnaryOp) \
                    and isinstance(n.slice.step.op, ast.USub) and isinstance(n.slice.step.operand, ast.Constant) \
                    and n.slice.step.operand.value == 1 and isinstance(n.value, ast.Name) and n.value.id == var:
                return True
    return False


def _steps(stmts, var):
    out = []
    for s in stmts:
        for n in ast.walk(s):
            if isinstance(n, ast.AugAssign) and isinstance(n.target, ast.Name) and n.target.id == var \
                    and isinstance(n.op, ast.Add) and isinstance(n.value, ast.Constant):
                out.append(n.value.value)
    return out


def check(ctx):
    repo = ctx.repo
    m = ctx.need(repo.mods.get("bromelia.utils"), "module bromelia.utils")
    enc = ctx.need(m.funcs.get("encode_to_tbcd"), "bromelia.utils.encode_to_tbcd")
    dec = ctx.need(m.funcs.get("decode_from_tbcd"), "bromelia.utils.decode_from_tbcd")

    ctx.clause = "1-total-return"
    for fn in (enc, dec):
        bad, wit = _falls_off(repo, fn)
        ctx.decide(not bad, "R-RET", f"bromelia.utils.{fn.name}", f"{m.rel}:{fn.lineno}",
                   "every path returns a value",
                   f"a path reaches the end of the function / a bare return and yields None instead of a string "
                   f"(path {wit}); e.g. every even-length input leaves the loop without returning", key="falloff",
                   witness=wit)

    ctx.clause = "1b-digit-string-unchanged"
    MUTATORS = ("strip", "lstrip", "rstrip", "replace", "zfill", "lower", "upper", "removeprefix", "removesuffix", "translate", "split", "join", "format")
    for fn in (enc, dec):
        p0 = fn.args.args[0].arg
        construct = f"bromelia.utils.{fn.name}"
        where = f"{m.rel}:{fn.lineno}"
        for st_ in [x for x in walk_no_nested(fn) if isinstance(x, ast.Assign) and any(isinstance(t, ast.Name) and t.id == p0 for t in x.targets)]:
            v = st_.value
            txt = ast.unparse(v)
            ok_forms = (f"str({p0}) if isinstance({p0}, int) else {p0}", f"str({p0})", p0, f"{p0} if isinstance({p0}, str) else str({p0})")
            bad = [n for n in ast.walk(v) if isinstance(n, ast.Call) and isinstance(n.func, ast.Attribute) and n.func.attr in MUTATORS] or \
                [n for n in ast.walk(v) if isinstance(n, ast.Subscript)] or \
                [n for n in ast.walk(v) if isinstance(n, ast.Call) and call_name(n) in ("float", "int", "abs", "round")]
            if txt in ok_forms:
                ctx.hold("R-ALIAS/digits-unchanged", construct, f"{m.rel}:{st_.lineno}", f"`{txt}` keeps every digit", key="normalise")
            elif bad:
                ctx.violate("R-ALIAS/digits-unchanged", construct, f"{m.rel}:{st_.lineno}",
                            f"`{ast.unparse(st_)[:90]}` rewrites the digit string before it is encoded/decoded (strip/replace/slice/numeric "
                            f"conversion): digits such as leading zeros are dropped, so decode(encode(s)) != s for those strings",
                            key="normalise")
            else:
                ctx.undecided("R-ALIAS/digits-unchanged", construct, f"{m.rel}:{st_.lineno}", f"input normalisation `{txt}` not recognised",
                              key="normalise")

    ctx.clause = "2-codec-symmetry"
    info = {}
    for role, fn in (("enc", enc), ("dec", dec)):
        construct = f"bromelia.utils.{fn.name}"
        where = f"{m.rel}:{fn.lineno}"
        lp = _loop(fn)
        if lp is None:
            ctx.undecided("R-CODEC", construct, where, "expected exactly one while loop over the input", key="loop")
            continue
        w, site = _pair_width(repo, m, fn)
        # pair variable = target of the assignment holding the pair
        pv = None
        for s in lp.body:
            if isinstance(s, ast.Assign) and len(s.targets) == 1 and isinstance(s.targets[0], ast.Name):
                pv = s.targets[0].id
                break
        ifs = [s for s in lp.body if isinstance(s, ast.If)]
        if w is None or pv is None or len(ifs) != 1:
            ctx.undecided("R-CODEC", construct, where, "pair extraction / branch shape not recognised", key="shape")
            continue
        iff = ifs[0]
        test = ast.unparse(iff.test)
        # which branch handles the full pair?
        if role == "enc":
            full_first = test in (f"len({pv}) == 2", f"len({pv}) == {w}")
            neg = test in (f"len({pv}) != 2", f"len({pv}) < 2", f"len({pv}) == 1")
        else:
            full_first = test in (f"'f' not in {pv}", f"not 'f' in {pv}") or \
                (isinstance(iff.test, ast.Compare) and isinstance(iff.test.ops[0], ast.NotIn) and ast.unparse(iff.test.comparators[0]) == pv)
            neg = isinstance(iff.test, ast.Compare) and isinstance(iff.test.ops[0], ast.In) and ast.unparse(iff.test.comparators[0]) == pv
        if not (full_first or neg):
            ctx.undecided("R-CODEC", construct, where, f"branch condition `{test}` not recognised", key="branch")
            continue
        full, tail = (iff.body, iff.orelse) if full_first else (iff.orelse, iff.body)
        steps = _steps(full, _offset_var(lp) or "offset")
        info[role] = dict(w=w, pv=pv, full=full, tail=tail, test=iff.test, fn=fn, steps=steps)
        ctx.decide(steps == [w] and w == 2, "R-CODEC/step", construct, where, f"loop steps by the pair width {w}",
                   f"pair width is {w} but the loop index advances by {steps} in the full-pair branch: digits are skipped or "
                   f"re-read", key="step")
        ctx.decide(_has_reversal(full, pv), "R-CODEC/involution", construct, where, "full pair is swapped ([::-1])",
                   "the full-pair branch does not swap the two digits ([::-1]): encoder and decoder are no longer inverse",
                   key="swap")
        ctx.decide(not _has_reversal(tail, pv), "R-CODEC/involution", construct, where, "tail is not swapped",
                   "the odd-length tail is swapped as if it were a full pair", key="tail_swap", nontrivial=False)
    if "enc" in info and "dec" in info:
        e, d = info["enc"], info["dec"]
        # encoder filler: "<c>" + pair  (filler first)
        fill_e = pos_e = None
        for s in e["tail"]:
            for n in ast.walk(s):
                if isinstance(n, ast.BinOp) and isinstance(n.op, ast.Add):
                    if isinstance(n.left, ast.Constant) and isinstance(n.left.value, str) and e["pv"] in ast.unparse(n.right):
                        fill_e, pos_e = n.left.value, 0
                    elif isinstance(n.right, ast.Constant) and isinstance(n.right.value, str) and e["pv"] in ast.unparse(n.left):
                        fill_e, pos_e = n.right.value, 1
        fill_d = None
        t = d["test"]
        if isinstance(t, ast.Compare) and isinstance(t.left, ast.Constant):
            fill_d = t.left.value
        idx_d = None
        for s in d["tail"]:
            for n in ast.walk(s):
                if isinstance(n, ast.Subscript) and isinstance(n.value, ast.Name) and n.value.id == d["pv"] \
                        and isinstance(n.slice, ast.Constant):
                    idx_d = n.slice.value
        where = f"{m.rel}:{enc.lineno}"
        if fill_e is None or fill_d is None or idx_d is None:
            ctx.undecided("R-CODEC/filler", "bromelia.utils.encode_to_tbcd+decode_from_tbcd", where,
                          f"filler handling not recognised (enc filler {fill_e!r}, dec filler {fill_d!r}, dec index {idx_d!r})",
                          key="filler")
        else:
            ctx.decide(fill_e == fill_d == "f", "R-CODEC/filler", "bromelia.utils.encode_to_tbcd+decode_from_tbcd", where,
                       "encoder and decoder use the filler 'f'",
                       f"encoder pads with {fill_e!r} but decoder tests for {fill_d!r} (3GPP TBCD filler is 'f')", key="filler")
            ctx.decide(pos_e == 0 and idx_d == 1, "R-CODEC/filler-position", "bromelia.utils.encode_to_tbcd+decode_from_tbcd",
                       where, "filler at position 0, digit taken from position 1",
                       f"encoder puts the filler at position {pos_e} while the decoder takes the digit at position {idx_d}: "
                       f"the last digit of an odd-length number is lost or replaced by the filler", key="filler_pos")
        # tail returns
        for role, x in (("enc", e), ("dec", d)):
            has_ret = any(isinstance(n, ast.Return) and n.value is not None for s in x["tail"] for n in ast.walk(s))
            adv = _steps(x["tail"], "offset")
            ctx.decide(has_ret or bool(adv), "R-CODEC/tail-terminates", f"bromelia.utils.{x['fn'].name}",
                       f"{m.rel}:{x['fn'].lineno}", "tail branch returns or advances",
                       "the odd-length tail branch neither returns nor advances the index: the loop never ends", key="tail_term")
    ctx.floor("codec_functions", len(info), 2)

    ctx.clause = "3-avp-siblings"
    sibs = []
    for q in ("bromelia.avps.etsi_3gpp.ts_129_329.MsisdnAVP", "bromelia.avps.etsi_3gpp.ts_129_272.StnSrAVP"):
        ci = ctx.need(repo.cls(q), q)
        f = ctx.need(ci.methods.get("encode"), f"{q}.encode")
        sibs.append((ci, f))
        rets = [n for n in ast.walk(f) if isinstance(n, ast.Return) and n.value is not None]
        texts = [ast.unparse(r.value) for r in rets]
        p = f.args.args[1].arg if len(f.args.args) > 1 else "data"
        want_int = f"bytes.fromhex(encode_to_tbcd({p}))"
        inner_ok = {f"bytes.fromhex(encode_to_tbcd({x}))" for x in (p, f"int({p})", f"str({p})", f"str(int({p}))")}
        ok = want_int in texts and p in texts and all(t == p or t in inner_ok for t in texts)
        ctx.decide(ok, "R-SIB/encode", f"{q}.encode", ci.where(f),
                   "number -> bytes.fromhex(encode_to_tbcd(.)), bytes pass through",
                   f"encode() returns {texts}: a number is not carried as bytes.fromhex(encode_to_tbcd(number))", key="encode")
        # resolves to utils.encode_to_tbcd
        sym = repo.resolve(ci.mod, "encode_to_tbcd")
        ctx.decide(sym is not None and sym.kind == "func" and sym.node is enc, "R-SIB/encode", f"{q}.encode", ci.where(f),
                   "encode_to_tbcd resolves to bromelia.utils.encode_to_tbcd",
                   "encode_to_tbcd used by the AVP is not bromelia.utils.encode_to_tbcd", key="resolve", nontrivial=False)
        ini = ci.methods.get("__init__")
        ok2 = False
        if ini is not None:
            for c in fn_calls(ini):
                if call_name(c).endswith("Type.__init__"):
                    d = kwarg(c, "data")
                    if d is not None and ast.unparse(d) in ("self.encode(data)", f"{ci.name}.encode(self, data)"):
                        ok2 = True
        ctx.decide(ok2, "R-SIB/encode", f"{q}.__init__", ci.where(ini or ci.node),
                   "type initialiser receives self.encode(data)",
                   "the type initialiser does not receive self.encode(data): the number is not TBCD-encoded", key="ctor")
    a, b = sibs
    same = ast.dump(a[1]) == ast.dump(b[1])
    ctx.decide(same, "R-SIB/encode", "MsisdnAVP.encode~StnSrAVP.encode", a[0].where(a[1]),
               "the two encode() implementations are structurally identical",
               "MsisdnAVP.encode and StnSrAVP.encode differ structurally: the two AVPs no longer carry the same encoding",
               key="siblings")


def _offset_var(lp):
    t = lp.test
    if isinstance(t, ast.Compare) and isinstance(t.left, ast.Name):
        return t.left.id
    return None
