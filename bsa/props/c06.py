"""C06 - the peer state machine follows RFC 6733 and opens only for the configured peer."""
import ast

from ..astutil import strip_doc, make_cfg, call_name, fn_calls, must_pass, node_calls, walk_no_nested, kwarg, witness_avoiding
from ..paths import enum_paths, eval_bool
from .. import psm

META = {
    "explanation": "The state classes are loop-free decision trees, so the whole transition relation is recovered statically: every "
                   "path through each state's run() (event_* helpers inlined) is enumerated as a sequence of predicate atoms with "
                   "polarity and effects (send, deliver, set_*_state); the RFC 6733 section 5.6 rows the library implements are "
                   "evaluated as invariants over ALL extracted paths. In addition: dependence of the capability/watchdog/disconnect "
                   "validators on the configured peer identity, exhaustiveness of the state table, transport release on every "
                   "CLOSED transition, watchdog dependence on the configured timeout, the classifier table (R bit polarity and "
                   "command codes 257/280/282).",
    "decided": ["Open only after a validated capabilities exchange", "validation compares with the configured peer",
                "local stop -> one DPR -> Closing", "Closing -> Closed only on DPA", "DPR -> DPA (if valid) -> Closed",
                "Wait-I-CEA: non-CEA/CER -> Closed", "peer disconnect -> Closed", "delivery only while Open and only for non-base messages",
                "state table exhaustive", "Closed implies transport released", "watchdog dependence", "classifier table"],
    "not_decided": ["timing (tick period, the 4 s sleep)", "behaviour of the two unimplemented election states beyond 'dead ends'",
                    "everything about real sockets", "feasibility of each enumerated atom combination (atoms are treated as independent)"],
    "trusted_base": ["Python ast", "path enumeration with inlining bound 3", "alias resolution of imported predicates"],
    "assumptions": ["infeasible atom combinations can only make an invariant stricter on a path that also has a feasible twin"],
}

BASE_ATOMS = ["is_cer_message", "is_cea_message", "is_dwr_message", "is_dwa_message", "is_dpr_message", "is_dpa_message"]
FLOORS = {"Closed": 6, "WaitConnAck": 8, "WaitInitiatorCEA": 6, "Open": 15, "Closing": 3}


def check(ctx):
    repo = ctx.repo
    m = ctx.need(repo.mods.get(psm.SM), "module bromelia.statemachine")
    table = {}
    total = 0
    # one inbound message per tick: every event handler ends by writing next_state, and the tick loop
    # (PeerStateMachine.__start) reads it once after run() returns - a run() that takes or dispatches messages
    # in a loop lets a later handler overwrite the transition an earlier one asked for (a DPR answered, then Open again)
    ctx.clause = "0-one-event-per-tick"
    for c in psm.STATE_CLASSES:
        ci0 = repo.cls(f"{psm.SM}.{c}")
        rn = ci0.methods.get("run") if ci0 else None
        if rn is None:
            continue
        looped = []
        for lp in [n for n in walk_no_nested(rn) if isinstance(n, (ast.For, ast.While))]:
            for x in ast.walk(lp):
                if isinstance(x, ast.Call) and isinstance(x.func, ast.Attribute) and isinstance(x.func.value, ast.Name) and x.func.value.id == "self" \
                        and (x.func.attr == "get_message" or x.func.attr.startswith("event_")):
                    looped.append(x)
        ctx.decide(not looped, "R-PATH/one-event-per-tick", f"{ci0.qual}.run", ci0.where(looped[0] if looped else rn),
                   "run() takes and dispatches at most one message per tick (no loop around get_message / event handlers)",
                   f"{c}.run calls `{ast.unparse(looped[0])[:60] if looped else ''}` inside a loop: several handlers run in one tick and each "
                   f"overwrites next_state, which the tick loop reads once - a transition to Closed/Closing asked by one message is "
                   f"undone by the next message of the same burst", key="loop")
    ctx.clause = None
    for c in psm.STATE_CLASSES:
        ci, ps = psm.state_paths(repo, c)
        ctx.need(ci, f"state class {c}")
        table[c] = (ci, ps)
        total += len(ps)
        if c in FLOORS:
            ctx.floor(f"paths({c})", len(ps), FLOORS[c])
    ctx.floor("state_machine_paths", total, 42)
    for c in psm.STATE_CLASSES:
        ctx.count(f"paths_{c}", len(table[c][1]))
    ctx.extra["path_table"] = [p.describe() for c in psm.STATE_CLASSES for p in table[c][1]]
    st = ctx.need(repo.cls(f"{psm.SM}.State"), "State")

    def W(ci, p):
        first = next((e[1] for e in p.path.events if e[0] in ("stmt", "cond")), None)
        return ci.where(first) if first is not None else ci.where()

    # ---- 1 Open only after validated CE -------------------------------------------------------
    ctx.clause = "1-open-after-validated-capabilities-exchange"
    n_open = 0
    for c, (ci, ps) in table.items():
        for p in ps:
            for i, e in enumerate(p.effects):
                if e[0] == "set_state" and e[1] == "open" and "early_stage" in e[2]:
                    n_open += 1
                    valid = p.atom("is_valid_capability_exchange") is True
                    if c == "Closed":
                        role = p.atom("is_cer_message") is True
                        sent = [j for j, x in enumerate(p.effects[:i]) if x[0] == "send" and x[1].startswith("create_answer(")]
                        ok = valid and role and len(sent) == 1
                        why = f"valid={valid}, CER={role}, CEA sent before={len(sent)}"
                    elif c == "WaitInitiatorCEA":
                        role = p.atom("is_cea_message") is True
                        ok = valid and role
                        why = f"valid={valid}, CEA={role}"
                    else:
                        ok, why = False, f"state {c} must not open the connection"
                    ctx.decide(ok, "R-PATH/open-after-ce", f"{ci.qual}.run", W(ci, p), f"opens after a validated exchange: {p.describe()[:120]}",
                               f"a path becomes Open without a validated Capabilities-Exchange with the peer ({why}): {p.describe()}",
                               key=f"open:{c}:{sorted(p.atoms.items())}")
    ctx.floor("opening_paths", n_open, 2)
    # who writes state_is_active = True
    writers = []
    for fi in repo.funcs.values():
        for s in walk_no_nested(fi.node):
            if isinstance(s, ast.Assign) and any(ast.unparse(t).endswith("state_is_active") for t in s.targets) \
                    and isinstance(s.value, ast.Constant) and s.value.value is True:
                writers.append((fi, s))
    okw = bool(writers) and all(fi.cls is st and fi.name.startswith("set_") for fi, _ in writers)
    for fi, s in writers:
        guard = [x for x in walk_no_nested(fi.node) if isinstance(x, ast.If) and s in x.body and ast.unparse(x.test) == "early_stage"]
        okw = okw and bool(guard)
    ctx.decide(okw, "R-WHO/active-flag", f"{st.qual}", st.where(), "state_is_active becomes True only under early_stage in the state setters",
               f"state_is_active = True is written by {[fi.qual for fi, _ in writers]} (expected only State.set_*_state under "
               f"`if early_stage`)", key="active_writers")
    # open_state(early_stage) may be called only by Closed / WaitInitiatorCEA handlers
    for c, (ci, ps) in table.items():
        if c in ("Closed", "WaitInitiatorCEA"):
            continue
        for p in ps:
            bad = [e for e in p.effects if e[0] == "set_state" and "early_stage" in e[2] and e[1] == "open"]
            if bad:
                ctx.violate("R-PATH/open-after-ce", f"{ci.qual}.run", W(ci, p), f"state {c} activates the connection: {p.describe()}",
                            key=f"early:{c}")

    # ---- 2 validation compares with the configured peer ----------------------------------------
    ctx.clause = "2-validation-uses-configured-peer"
    _validators(ctx, repo)

    # ---- 3 / 7 stop and peer disconnect in Open ---------------------------------------------------
    oci, ops = table["Open"]
    ctx.clause = "3-local-stop"
    n3 = 0
    for p in ops:
        if p.atom("is_set_release_signal_from_local") is True:
            n3 += 1
            dprs = [s for s in p.sends() if s == "base.dpr"]
            ns = p.next_state()
            handled_dpr = p.atom("is_dpr_message") is True
            peer = p.atom("is_set_release_signal_from_peer") is True
            ok = len(dprs) == 1 and (ns == "closing" or (ns == "closed" and (handled_dpr or peer)))
            ctx.decide(ok, "R-PATH/local-stop", f"{oci.qual}.run", W(oci, p), f"stop: one DPR, next {ns}",
                       f"after a local stop the tick sends {len(dprs)} DPR and ends in state `{ns}` instead of Closing: the machine "
                       f"returns to Open and sends another DPR on the next tick - {p.describe()}", key=f"stop:{sorted(p.atoms.items())}")
    ctx.floor("local_stop_paths", n3, 1)
    ctx.clause = "7-peer-disconnect"
    n7 = 0
    for p in ops:
        # a path on which the peer's release signal was never consulted also stands for the ticks in which the peer HAS gone
        consulted = p.atom("is_set_release_signal_from_peer")
        if consulted is True or (consulted is None and p.next_state() not in (None, "closed") and p.atom("is_set_release_signal_from_local") is True):
            n7 += 1
            ns = p.next_state()
            ctx.decide(ns == "closed", "R-PATH/peer-disconnect", f"{oci.qual}.run", W(oci, p), "peer disconnect ends in Closed",
                       (f"after the peer disconnected the tick ends in state `{ns}` instead of Closed (CLOSED is overwritten until the "
                        f"queues drain) - {p.describe()}" if consulted is True else
                        f"a tick that serves the local stop never looks at the peer's release signal: when both are pending the machine "
                        f"sends a DPR on the dead transport and waits in `{ns}` for a DPA that cannot come - it never reaches Closed and the "
                        f"transport is never released - {p.describe()}"), key=f"disc:{sorted(p.atoms.items())}")
    ctx.floor("peer_disconnect_paths", n7, 1)

    # ---- 4 Closing ------------------------------------------------------------------------------------
    ctx.clause = "4-closing"
    cci, cps = table["Closing"]
    for p in cps:
        ns = p.next_state()
        dpa = p.atom("is_dpa_message") is True
        ok = (ns == "closed") == dpa and ns in ("closed", "closing")
        ctx.decide(ok, "R-PATH/closing", f"{cci.qual}.run", W(cci, p), f"Closing: DPA={dpa} -> {ns}",
                   f"Closing moves to `{ns}` with DPA received = {dpa}: it must leave to Closed exactly when the DPA arrives - "
                   f"{p.describe()}", key=f"closing:{sorted(p.atoms.items())}")

    # ---- 5 DPR ---------------------------------------------------------------------------------------------
    ctx.clause = "5-dpr"
    n5 = 0
    for p in ops:
        if p.atom("is_dpr_message") is True:
            n5 += 1
            ns = p.next_state()
            valid = p.atom("is_valid_disconnect_peer") is True
            dpas = [s for s in p.sends() if s.startswith("create_answer(")]
            ok = ns == "closed" and (len(dpas) == 1) == valid
            ctx.decide(ok, "R-PATH/dpr", f"{oci.qual}.run", W(oci, p), f"DPR: valid={valid}, DPA sent={len(dpas)}, next {ns}",
                       f"a received DPR (valid={valid}) is answered with {len(dpas)} DPA and the tick ends in `{ns}`: expected one "
                       f"DPA iff valid, then Closed - {p.describe()}", key=f"dpr:{sorted(p.atoms.items())}")
    ctx.floor("dpr_paths", n5, 2)

    # ---- 6 Wait-I-CEA -----------------------------------------------------------------------------------------
    ctx.clause = "6-wait-i-cea"
    wci, wps = table["WaitInitiatorCEA"]
    for p in wps:
        if p.atom("has_recv_queue_message") is True and p.atom("is_cea_message") is False and p.atom("is_cer_message") is False:
            ns = p.next_state()
            ctx.decide(ns == "closed", "R-PATH/wait-i-cea", f"{wci.qual}.run", W(wci, p), "non-CEA closes the connection",
                       f"while awaiting the CEA a message that is neither CEA nor CER leaves the machine in `{ns}` instead of "
                       f"Closed - {p.describe()}", key="noncea")
        if p.atom("is_cea_message") is True and p.atom("is_valid_capability_exchange") is False:
            ns = p.next_state()
            ctx.decide(ns != "open", "R-PATH/wait-i-cea", f"{wci.qual}.run", W(wci, p), "invalid CEA does not open",
                       f"an invalid CEA opens the connection - {p.describe()}", key="invalid_cea")

    # ---- 8 delivery only while Open ---------------------------------------------------------------------------------
    ctx.clause = "8-delivery-only-while-open"
    ndel = 0
    for c, (ci, ps) in table.items():
        for p in ps:
            if p.has_effect("deliver"):
                ndel += 1
                base_false = all(p.atom(a) is False for a in BASE_ATOMS if a != "is_dpa_message")
                ok = c == "Open" and base_false
                ctx.decide(ok, "R-PATH/delivery", f"{ci.qual}.run", W(ci, p), "application message delivered while Open",
                           f"a message is handed to the application in state {c} / for a base-protocol message "
                           f"({ {a: p.atom(a) for a in BASE_ATOMS} }) - {p.describe()}", key=f"deliver:{c}:{sorted(p.atoms.items())}")
                # check_message precedes delivery; exactly one delivery
                nd = len([e for e in p.effects if e[0] == "deliver"])
                ctx.decide(nd == 1, "R-PATH/delivery", f"{ci.qual}.run", W(ci, p), "exactly one delivery per tick",
                           f"{nd} deliveries on one tick - {p.describe()}", key=f"deliver1:{sorted(p.atoms.items())}", nontrivial=False)
    ctx.floor("delivering_paths", ndel, 1)
    # who delivers: the application queue is fed by the delivery helper of State, or by a method of Open that does the same
    # in place; the helper is called only from methods of Open
    callers, putters = [], []
    for fi in repo.funcs.values():
        for cc in fn_calls(fi.node):
            if call_name(cc).endswith("notify_postprocess_message"):
                callers.append(fi)
            if call_name(cc).endswith("postprocess_recv_messages.put"):
                putters.append(fi)
    is_open_method = lambda fi: fi.cls is not None and fi.cls.name == "Open"
    is_helper = lambda fi: fi.cls is not None and fi.cls.name == "State" and fi.name == "notify_postprocess_message"
    okc = all(is_open_method(fi) for fi in callers) and (bool(callers) or any(is_open_method(fi) for fi in putters))
    ctx.decide(okc, "R-WHO/delivery", f"{st.qual}.notify_postprocess_message", st.where(),
               "messages are handed to the application only from methods of Open",
               f"the delivery helper is called from {[fi.qual for fi in callers]}", key="who_delivers")
    okp = bool(putters) and all(is_helper(fi) or is_open_method(fi) for fi in putters) and len({fi.qual for fi in putters}) == 1
    ctx.decide(okp, "R-WHO/delivery", f"{st.qual}.notify_postprocess_message", st.where(),
               "one function feeds the application queue (the delivery helper, or a method of Open)",
               f"application queue is fed by {[fi.qual for fi in putters]}", key="who_puts")

    # ---- 9 state table ---------------------------------------------------------------------------------------------------
    ctx.clause = "9-state-table"
    _state_table(ctx, repo, st)

    # ---- 10 closed implies transport released --------------------------------------------------------------------------------
    ctx.clause = "10-closed-releases-transport"
    _closed_releases(ctx, repo)

    # ---- 11 watchdog ---------------------------------------------------------------------------------------------------------
    ctx.clause = "11-watchdog"
    _watchdog(ctx, repo, oci, ops)

    # ---- 12 classifier table ---------------------------------------------------------------------------------------------------
    ctx.clause = "12-classifiers"
    _classifiers(ctx, repo, m)

    # ---- 13 signal predicates and the tick loop -----------------------------------------------------------------------------
    ctx.clause = "13-signals-and-tick"
    sigs = {"is_set_release_signal_from_local": ["not self.association.state_is_active"],
            "is_set_release_signal_from_peer": ["self.association.transport._stop_threads"],
            "has_recv_queue_message": ["not self.association._recv_messages.empty()"],
            "has_send_queue_message": ["not self.association._send_messages.empty()"]}
    for name, wants in sigs.items():
        fn = ctx.need(st.methods.get(name), f"State.{name}")
        rets = [ast.unparse(n.value) for n in walk_no_nested(fn) if isinstance(n, ast.Return) and n.value is not None]
        ctx.decide(rets == wants, "R-TABLE/signals", f"{st.qual}.{name}", st.where(fn), f"{name} == {wants[0]}",
                   f"{name} returns {rets}: the event the state machine reacts to is no longer `{wants[0]}`", key=name)
    smc = ctx.need(repo.cls(f"{psm.SM}.PeerStateMachine"), "PeerStateMachine")
    cl = ctx.need(smc.methods.get("close"), "PeerStateMachine.close")
    ctx.decide("self.association.state_is_active = False" in ast.unparse(cl), "R-TABLE/signals", f"{smc.qual}.close", smc.where(cl),
               "a local close clears state_is_active (the local release signal)",
               "PeerStateMachine.close does not raise the local release signal (state_is_active = False): a local stop is never seen",
               key="local_close")
    start = next((fn for n, fn in smc.methods.items() if n.endswith("__start")), None)
    ctx.need(start, "PeerStateMachine.__start")
    loop = next((x for x in walk_no_nested(start) if isinstance(x, ast.While)), None)
    body = [ast.unparse(x) for x in (loop.body if loop else [])]
    ok = loop is not None and "self.current_state.run()" in body
    if ok:
        # the adopted state is get_next_state(<the next_state of the state that ran>), directly or through one local
        i_run = body.index("self.current_state.run()")
        adopt = [i for i, b in enumerate(body) if b.startswith("self.current_state = self.get_next_state(") and i > i_run]
        ok = len(adopt) == 1
        if ok:
            arg = body[adopt[0]][len("self.current_state = self.get_next_state("):-1]
            if arg != "self.current_state.next_state":
                src = [i for i, b in enumerate(body) if b == f"{arg} = self.current_state.next_state"]
                stores = [i for i, b in enumerate(body) if b.startswith(f"{arg} = ") or b.startswith(f"{arg} += ")]
                ok = arg.isidentifier() and len(src) == 1 and stores == src and i_run < src[0] < adopt[0]
    ctx.decide(ok, "R-FLOW/tick", f"{smc.qual}.__start", smc.where(start),
               "each tick runs the current state and moves to get_next_state(its next_state)",
               "the tick loop does not run the current state and then adopt get_next_state(current_state.next_state)", key="tick")
    gn = smc.methods.get("get_next_state")
    rets = [ast.unparse(n.value) for n in walk_no_nested(gn) if isinstance(n, ast.Return) and n.value is not None]
    p0 = [a.arg for a in gn.args.args if a.arg != "self"][0]
    ctx.decide(set(rets) <= {f"self.states[{p0}]", "self.states[CLOSED]"} and f"self.states[{p0}]" in rets, "R-FLOW/tick",
               f"{smc.qual}.get_next_state", smc.where(gn), "the state object returned is the table entry of the requested state",
               f"get_next_state returns {rets}", key="returns_requested")

    # ---- 14 no input makes the machine raise (= C03 clause 4 on the state-machine thread root) -------------------------------
    ctx.clause = "14-no-input-raises"
    from ..raises import Raises
    from .c03 import input_driven, _trace
    R = Raises(repo)
    q = f"{psm.SM}.PeerStateMachine.__start"
    fi = ctx.need(repo.funcs.get(q), q)
    esc = input_driven(R, R.escapes(fi))
    if not esc:
        ctx.hold("R-THREAD", q, fi.where(), "no input-driven exception reaches the top of the tick thread", key="thread:none")
    for e in sorted(esc):
        ctx.violate("R-THREAD", q, fi.where(), f"input-driven {e} reaches the top of the state-machine thread uncaught "
                    f"({_trace(R, q, e)}): a message from the peer stops the machine from ticking", key=f"thread:{e}")

    # answers sent within the handler that built them (shared with C07 clause 4)
    ctx.clause = "5b-answers-sent-in-handler"
    for c, (ci, ps) in table.items():
        for p in ps:
            created = [i for i, e in enumerate(p.effects) if e[0] == "create_answer"]
            for i in created:
                sent_after = [j for j, e in enumerate(p.effects) if j > i and e[0] == "send" and e[1].startswith("create_answer(")]
                ctx.decide(len(sent_after) == 1, "R-PATH/answer-sent", f"{ci.qual}.run", W(ci, p), "built answer is sent once on the same tick",
                           f"an answer built by create_answer is sent {len(sent_after)} time(s) on the same tick - {p.describe()}",
                           key=f"answer:{c}:{sorted(p.atoms.items())}")


def _validators(ctx, repo):
    pm = ctx.need(repo.mods.get("bromelia.process"), "module bromelia.process")
    pdm = ctx.need(repo.cls("bromelia.process.ProcessDiameterMessage"), "ProcessDiameterMessage")
    for vname, field in (("is_valid_origin_host_avp", "host_name"), ("is_valid_origin_realm_avp", "realm")):
        fn = ctx.need(pdm.methods.get(vname), f"ProcessDiameterMessage.{vname}")
        params = [a.arg for a in fn.args.args]
        conn = params[1] if len(params) > 1 else "connection"
        want = f"{conn}.peer_node.{field}"
        # True is returned only under `counter == N`; the counter has exactly N single increments, each in its own
        # `if`, one of which is the comparison with the configured peer identity  =>  True implies the comparison held
        okall, seen_true = True, False
        for p in enum_paths(fn.body, loops="skip"):
            if p.term != "return" or not isinstance(p.term_node.value, ast.Constant) or p.term_node.value.value is not True:
                continue
            seen_true = True
            conds = {ast.unparse(t): tr for t, tr in p.conds()}
            okall = okall and any(tr and "checklist" in t and "==" in t for t, tr in conds.items())
        guards = []
        for iff in [x for x in walk_no_nested(fn) if isinstance(x, ast.If)]:
            if any(isinstance(b, ast.AugAssign) and isinstance(b.op, ast.Add) and repo.fold(pm, b.value) == 1 for b in iff.body):
                guards.append(ast.unparse(iff.test))
        okall = okall and any(want in g and "==" in g for g in guards)
        in_loop = any(isinstance(x, (ast.For, ast.While)) for x in walk_no_nested(fn))
        okall = okall and not in_loop
        # threshold equals the number of increments
        incs = [s for s in walk_no_nested(fn) if isinstance(s, ast.AugAssign) and isinstance(s.op, ast.Add)]
        thr = [repo.fold(pm, t.comparators[0]) for t in walk_no_nested(fn) if isinstance(t, ast.Compare)
               and isinstance(t.left, ast.Name) and "checklist" in t.left.id and isinstance(t.ops[0], ast.Eq)]
        ok_thr = thr == [len(incs)]
        ctx.decide(okall and seen_true and ok_thr, "R-DEP/peer-identity", f"{pdm.qual}.{vname}", pdm.where(fn),
                   f"True is returned only when the AVP equals {want}",
                   f"{vname} can return True without comparing the AVP with {want} (or its pass threshold {thr} is below the "
                   f"{len(incs)} checks): the machine opens for a peer other than the configured one", key="peer_compare")
        # the compared value is the decoded AVP data
        src = ast.unparse(fn)
        ctx.decide("avp.data.decode(" in src or "avp.data ==" in src, "R-DEP/peer-identity", f"{pdm.qual}.{vname}", pdm.where(fn),
                   "the compared value is the AVP's data", "the compared value is not derived from the AVP's data", key="data_src",
                   nontrivial=False)
        # ... decoded faithfully: a lossy error handler makes distinct identities compare equal
        lossy = [c for c in walk_no_nested(fn) if isinstance(c, ast.Call) and isinstance(c.func, ast.Attribute) and c.func.attr == "decode"
                 and ast.unparse(c.func.value).endswith(".data")
                 and any(k.arg == "errors" and isinstance(k.value, ast.Constant) and k.value.value == "ignore" for k in c.keywords)
                 or (isinstance(c, ast.Call) and isinstance(c.func, ast.Attribute) and c.func.attr == "decode" and len(c.args) > 1
                     and isinstance(c.args[1], ast.Constant) and c.args[1].value == "ignore")]
        ctx.decide(not lossy, "R-DEP/peer-identity", f"{pdm.qual}.{vname}", pdm.where(lossy[0] if lossy else fn),
                   "the AVP's octets are decoded without dropping any of them",
                   "the AVP's data is decoded with errors='ignore': octets that are not valid UTF-8 are dropped, so an identity that "
                   "differs from the configured peer only by such octets is accepted and the machine opens for another peer",
                   key="lossy_decode")
    for cname, need in (("ProcessCapabilityExchange", ("is_valid_origin_host_avp", "is_valid_origin_realm_avp")),
                        ("ProcessDeviceWatchdog", ("is_valid_origin_host_avp", "is_valid_origin_realm_avp")),
                        ("ProcessDisconnectPeer", ("is_valid_origin_host_avp", "is_valid_origin_realm_avp"))):
        ci = ctx.need(repo.cls(f"bromelia.process.{cname}"), cname)
        for mname in ("process_request", "process_answer"):
            fn = ctx.need(ci.methods.get(mname), f"{cname}.{mname}")
            loop = next((s for s in walk_no_nested(fn) if isinstance(s, ast.For)), None)
            if loop is None:
                ctx.undecided("R-DEP/peer-identity", f"{ci.qual}.{mname}", ci.where(fn), "no AVP loop", key="loop")
                continue
            # branches that increment the mandatory counter and the validator each one calls
            mand = []
            for n in ast.walk(loop):
                if isinstance(n, ast.If) and isinstance(n.test, ast.Call):
                    inc = any(isinstance(s, ast.AugAssign) and "mandatory" in ast.unparse(s.target) for s in n.body)
                    if inc:
                        mand.append((call_name(n.test).split(".")[-1], n.test))
                elif isinstance(n, ast.If) and isinstance(n.test, ast.BoolOp) and isinstance(n.test.op, ast.Or) \
                        and all(isinstance(v, ast.Call) for v in n.test.values):
                    # `if a(avp) or b(avp) or c(avp): count += 1` is the same chain (first match counts once)
                    if any(isinstance(s, ast.AugAssign) and "mandatory" in ast.unparse(s.target) for s in n.body):
                        for v in n.test.values:
                            mand.append((call_name(v).split(".")[-1], v))
            names = [x[0] for x in mand]
            okn = all(v in names for v in need)
            okc = all(ast.unparse(t.args[-1]) in ("self.connection",) for v, t in mand if v in need)
            thr_tests = [t for t in walk_no_nested(fn) if isinstance(t, ast.Compare) and "checklist_mandatory_avps" in ast.unparse(t.left)]
            thr = [(type(t.ops[0]).__name__, repo.fold(pm, t.comparators[0])) for t in thr_tests]
            okt = thr == [("Eq", len(mand))]
            ctx.decide(okn and okc and okt, "R-DEP/peer-identity", f"{ci.qual}.{mname}", ci.where(fn),
                       f"validity requires all {len(mand)} mandatory checks incl. peer host and realm",
                       f"{cname}.{mname}: validity threshold {thr} vs {len(mand)} mandatory checks {names}; Origin-Host/Origin-Realm "
                       f"checks against self.connection present={okn and okc}: a message from another peer can be accepted",
                       key="threshold")
            # the acceptance must IMPLY that the Origin-Host and the Origin-Realm validator each matched an AVP of the message.
            # A counter that other validators also increment does not (two Host-IP-Address AVPs make up for a wrong
            # Origin-Host): each identity validator needs evidence of its own - a variable only its branch modifies - that the
            # acceptance test requires.
            from ..astutil import guards as _guards, guard_facts as _gf
            g_ = _guards(fn)
            modified_under = {}
            for st_ in walk_no_nested(fn):
                if isinstance(st_, (ast.Assign, ast.AugAssign)):
                    tg = st_.targets[0] if isinstance(st_, ast.Assign) else st_.target
                    if not isinstance(tg, (ast.Name, ast.Attribute)):
                        continue
                    vs = {call_name(t).split(".")[-1] for t, v in g_.get(id(st_), []) if v and isinstance(t, ast.Call)}
                    if vs:
                        modified_under.setdefault(ast.unparse(tg), set()).update(vs)
            accept = [st_ for st_ in walk_no_nested(fn) if isinstance(st_, ast.Assign) and ast.unparse(st_.targets[0]) == "self.is_valid"
                      and isinstance(st_.value, ast.Constant) and st_.value.value is True]
            for v in need:
                dedicated = sorted(k for k, vs in modified_under.items() if vs == {v})
                implied = bool(accept)
                for a_ in accept:
                    facts_, _ = _gf(g_.get(id(a_), []))
                    implied = implied and any(facts_.get(d) is True or facts_.get(f"{d} == 1") is True or facts_.get(f"{d} >= 1") is True
                                              or facts_.get(f"{d} > 0") is True for d in dedicated)
                ctx.decide(implied, "R-DEP/identity-implied", f"{ci.qual}.{mname}", ci.where(fn),
                           f"accepting the message requires evidence that {v} itself matched ({dedicated})",
                           f"{cname}.{mname} accepts a message on the total of matched AVPs alone: nothing the acceptance test requires is "
                           f"specific to {v} (variables only its branch modifies: {dedicated}), so AVPs matched by other validators "
                           f"(e.g. a second Host-IP-Address or Disconnect-Cause) make up for a missing/wrong identity AVP and the machine "
                           f"opens - or stays open - for a peer other than the configured one", key=f"implied:{v}")
            # is_valid = True only under the threshold test
            sets_true = [s for s in walk_no_nested(fn) if isinstance(s, ast.Assign) and ast.unparse(s.targets[0]) == "self.is_valid"
                         and isinstance(s.value, ast.Constant) and s.value.value is True]
            holds_ = lambda t_, v_: v_ is True or (isinstance(t_, ast.Compare) and len(t_.ops) == 1 and isinstance(t_.ops[0], ast.NotEq))
            ok = bool(sets_true) and all(any("checklist_mandatory_avps" in ast.unparse(t_) and holds_(t_, v_) for t_, v_ in g_.get(id(s), []))
                                         for s in sets_true)
            ctx.decide(ok, "R-DEP/peer-identity", f"{ci.qual}.{mname}", ci.where(fn), "is_valid = True only under the threshold test",
                       "is_valid is set True outside the mandatory-count test", key="is_valid_guard")
        fm_ = ci.find_method("__init__")          # the constructor may be inherited from a shared (private) base class
        ini = ctx.need(fm_[1] if fm_ else None, f"{cname}.__init__")
        src = ast.unparse(ini)
        ctx.decide("self.is_valid = False" in src and "self.connection = association.connection" in src, "R-DEP/peer-identity",
                   f"{ci.qual}.__init__", ci.where(ini), "validity defaults to False; connection is the association's",
                   "validity does not default to False or the connection is not the association's configured connection", key="init")
    bp = ctx.need(repo.cls("bromelia.process.BaseMessageProcessor"), "BaseMessageProcessor")
    for mname, cname in (("is_valid_capability_exchange", "ProcessCapabilityExchange"), ("is_valid_device_watchdog", "ProcessDeviceWatchdog"),
                         ("is_valid_disconnect_peer", "ProcessDisconnectPeer")):
        fn = ctx.need(bp.methods.get(mname), f"BaseMessageProcessor.{mname}")
        # on terms: every path returns the `is_valid` attribute of ONE construction `<cname>(self.association, <the message>)`
        from .. import sym as _sd
        from ..astutil import strip_doc as _sdoc
        ps_ = [a_.arg for a_ in fn.args.args if a_.arg != "self"]
        want_ = ("attr", ("call", ("name", cname), (("attr", ("name", "self"), "association"), _sd.S(ps_[0])), ()), "is_valid") if ps_ else None
        rets_ = [p_.value for p_ in _sd.Interp().run(_sdoc(fn.body), _sd.PathState({a_: _sd.S(a_) for a_ in ps_}, [], [])) if p_.term != "raise"]
        ctx.decide(bool(rets_) and all(v_ == want_ for v_ in rets_), "R-DEP/peer-identity",
                   f"{bp.qual}.{mname}", bp.where(fn), f"returns {cname}(...).is_valid",
                   f"{mname} does not return the is_valid of {cname}(self.association, msg)", key="delegates")


def _state_table(ctx, repo, st):
    sm = ctx.need(repo.cls(f"{psm.SM}.PeerStateMachine"), "PeerStateMachine")
    ls = ctx.need(sm.methods.get("_load_states"), "PeerStateMachine._load_states")
    keys = {}
    for n in ast.walk(ls):
        if isinstance(n, ast.Dict) and n.keys:
            for k, v in zip(n.keys, n.values):
                keys[repo.fold(sm.mod, k)] = call_name(v) if isinstance(v, ast.Call) else ast.unparse(v)
    consts = set()
    for name, fn in st.methods.items():
        if name.startswith("set_") and name.endswith("_state"):
            for s in walk_no_nested(fn):
                if isinstance(s, ast.Assign) and any(ast.unparse(t) in ("self.next_state", "self.name") for t in s.targets):
                    v = s.value
                    consts.add((repo.fold(sm.mod, v), ast.unparse(v)))
    for ci in repo.classes:
        if st in ci.mro() and ci is not st:
            for fn in ci.methods.values():
                for s in walk_no_nested(fn):
                    if isinstance(s, ast.Assign) and any(ast.unparse(t) in ("self.next_state", "self.name") for t in s.targets):
                        consts.add((repo.fold(sm.mod, s.value), ast.unparse(s.value)))
    ctx.floor("state_constants_assigned", len(consts), 7)
    for v, txt in sorted(consts, key=lambda x: str(x)):
        ctx.decide(v in keys, "R-TABLE/states", f"{sm.qual}._load_states", sm.where(ls), f"{txt} is a key of the state table",
                   f"state constant {txt} ({v!r}) can be assigned to next_state but is not a key of PeerStateMachine.states: "
                   f"get_next_state raises TypeError and the tick thread dies", key=f"key:{txt}")
    # each key maps to the class of the same state; get_current_state maps each class back
    gc = ctx.need(sm.methods.get("get_current_state"), "PeerStateMachine.get_current_state")
    mapped = set()
    for n in walk_no_nested(gc):
        if isinstance(n, ast.Call) and call_name(n) == "isinstance" and len(n.args) == 2:
            mapped.add(ast.unparse(n.args[1]))
    classes = set(keys.values())
    if any(isinstance(n, ast.For) for n in walk_no_nested(gc)):
        # a (class, name) table walked with isinstance: every class named in the function is mapped
        mapped |= {n.id for n in walk_no_nested(gc) if isinstance(n, ast.Name) and n.id in classes}
    ctx.decide(classes <= mapped, "R-TABLE/states", f"{sm.qual}.get_current_state", sm.where(gc),
               "get_current_state maps every state class", f"get_current_state does not map {sorted(classes - mapped)}", key="reverse_map")
    want = {"Closed": "CLOSED", "WaitConnAck": "WAIT_CONN_ACK", "WaitInitiatorCEA": "WAIT_I_CEA", "Open": "OPEN", "Closing": "CLOSING"}
    for k, cname in keys.items():
        pass
    inv = {v: k for k, v in keys.items()}
    for cname, const in want.items():
        cv = repo.fold(sm.mod, ast.Name(id=const, ctx=ast.Load()))
        ctx.decide(inv.get(cname) == cv, "R-TABLE/states", f"{sm.qual}._load_states", sm.where(ls), f"{const} -> {cname}",
                   f"state table maps {inv.get(cname)!r} to {cname}; expected {const} ({cv!r})", key=f"map:{cname}")
    # setters assign the constant of their own name
    pairs = {"set_closed_state": "CLOSED", "set_wait_conn_ack_state": "WAIT_CONN_ACK", "set_wait_initiator_cea_state": "WAIT_I_CEA",
             "set_open_state": "OPEN", "set_closing_state": "CLOSING"}
    for sname, const in pairs.items():
        fn = ctx.need(st.methods.get(sname), f"State.{sname}")
        vals = {ast.unparse(s.value) for s in walk_no_nested(fn) if isinstance(s, ast.Assign)
                and any(ast.unparse(t) == "self.next_state" for t in s.targets)}
        cfg = make_cfg(repo, fn)
        always = must_pass(cfg, lambda n: n.kind == "stmt" and isinstance(n.ast, ast.Assign) and
                           any(ast.unparse(t) == "self.next_state" for t in n.ast.targets))
        ctx.decide(vals == {const} and always, "R-TABLE/states", f"{st.qual}.{sname}", st.where(fn), f"{sname} assigns {const} on every path",
                   f"{sname} assigns {sorted(vals)} to next_state (expected {const} on every path)", key=f"setter:{sname}")


def _closed_releases(ctx, repo):
    sm = ctx.need(repo.cls(f"{psm.SM}.PeerStateMachine"), "PeerStateMachine")
    gn = ctx.need(sm.methods.get("get_next_state"), "PeerStateMachine.get_next_state")
    p0 = [a.arg for a in gn.args.args if a.arg != "self"][0]
    ok_all = True
    n = 0
    for closed in (True, False):
        for cur_closed in (True, False):
            def atom(e, closed=closed, cur_closed=cur_closed):
                t = ast.unparse(e)
                if t == f"{p0} == CLOSED":
                    return closed
                if t == f"{p0} != CLOSED":
                    return not closed
                if t == "self.current_state.name == CLOSED":
                    return cur_closed
                if t == "self.current_state.name != CLOSED":
                    return not cur_closed
                if t == f"{p0} in self.states":
                    return True
                return None
            for p in enum_paths(gn.body, decide=lambda t, ev: eval_bool(t, atom), loops="skip"):
                n += 1
                closes = [c for c, _ in p.calls() if call_name(c) == "self.association.close"]
                if closed and not cur_closed:
                    ok = len(closes) == 1 and p.term == "return"
                    ctx.decide(ok, "R-MUSTPASS/close-on-closed", f"{sm.qual}.get_next_state", sm.where(gn),
                               "transition to Closed from a non-closed state closes the association",
                               f"a transition to Closed from another state calls association.close() {len(closes)} time(s): Closed "
                               f"would not imply that the transport has been released", key=f"close:{closed}:{cur_closed}")
                else:
                    ctx.decide(not closes, "R-MUSTPASS/close-on-closed", f"{sm.qual}.get_next_state", sm.where(gn),
                               "no close on other transitions", "association.close() is called on a transition that does not enter Closed",
                               key=f"close:{closed}:{cur_closed}", nontrivial=False)
    da = ctx.need(repo.cls("bromelia.setup.DiameterAssociation"), "DiameterAssociation")
    cl = ctx.need(da.methods.get("close"), "DiameterAssociation.close")
    cfg = make_cfg(repo, cl)
    ok = must_pass(cfg, lambda n: any(call_name(c) == "self.transport.close" for c in node_calls(n)))
    ctx.decide(ok, "R-MUSTPASS/close-on-closed", f"{da.qual}.close", da.where(cl), "association.close() closes the transport on every normal path",
               "DiameterAssociation.close can return without closing the transport", key="transport_close")
    # the tick loop stops being scheduled: is_running False on the same transition
    src = ast.unparse(gn)
    ctx.decide("self.is_running = False" in src, "R-MUSTPASS/close-on-closed", f"{sm.qual}.get_next_state", sm.where(gn),
               "the tick loop is stopped on the transition to Closed", "is_running is not cleared on the transition to Closed",
               key="is_running", nontrivial=False)


def _watchdog(ctx, repo, oci, ops):
    da = repo.cls("bromelia.setup.DiameterAssociation")
    te = ctx.need(da.methods.get("tracking_events"), "DiameterAssociation.tracking_events")
    puts = [c for c in fn_calls(te) if call_name(c) == "self.put_message_into_send_queue"]
    from ..astutil import guards as _guards
    g_ = _guards(te)
    stmt_of = {}
    for st_ in walk_no_nested(te):
        if isinstance(st_, ast.stmt) and not isinstance(st_, (ast.If, ast.For, ast.While, ast.With, ast.Try, ast.FunctionDef)):
            for x in ast.walk(st_):
                stmt_of[id(x)] = st_

    def gset(node):
        st_ = stmt_of.get(id(node))
        return frozenset((ast.unparse(t), v) for t, v in g_.get(id(st_), [])) if st_ is not None else None
    pg = [gset(c) for c in puts]
    ok = bool(pg) and all(g is not None and any("self.watchdog_timeout" in t and "tracking_events_count" in t and v for t, v in g) for g in pg)
    arg = [ast.unparse(c.args[0]) for c in puts if c.args]
    ctx.decide(ok and arg == ["self.base.dwr"], "R-DOM/watchdog", f"{da.qual}.tracking_events", da.where(te),
               "a DWR is queued when the idle counter reaches watchdog_timeout",
               f"the watchdog request ({arg}) is not control-dependent on the idle counter reaching self.watchdog_timeout", key="dwr_guard")
    # ... and whenever the idle counter is reset, i.e. under exactly the same conditions (a reset without a DWR silences the watchdog)
    resets = [st_ for st_ in walk_no_nested(te) if isinstance(st_, ast.Assign) and ast.unparse(st_.targets[0]).endswith("tracking_events_count")]
    rg = [frozenset((ast.unparse(t), v) for t, v in g_.get(id(st_), [])) for st_ in resets]
    same = bool(pg) and bool(rg) and all(g == rg[0] for g in pg) and all(g == rg[0] for g in rg)
    extra = sorted({t for g in pg if g for t, v in g} - ({t for t, v in rg[0]} if rg else set()))
    ctx.decide(same, "R-PAIR/watchdog", f"{da.qual}.tracking_events", da.where(te),
               "the DWR is queued under exactly the conditions under which the idle counter is reset",
               f"the idle counter is reset under {sorted(rg[0]) if rg else None} but the DWR is queued only under the additional condition(s) "
               f"{extra}: an idle period can pass with the counter reset and no watchdog sent, so a dead peer is never detected",
               key="dwr_with_reset")
    ini = da.methods.get("__init__")
    src = ast.unparse(ini)
    ctx.decide("self.watchdog_timeout = self.connection.watchdog_timeout" in src, "R-FLOW/watchdog", f"{da.qual}.__init__", da.where(ini),
               "watchdog_timeout comes from the configured connection", "watchdog_timeout is not taken from the configured connection",
               key="timeout_src")
    ok = all(p.has_effect("tracking_events") for p in ops)
    ctx.decide(ok, "R-MUSTPASS/watchdog", f"{oci.qual}.run", oci.where(), "Open.run calls tracking_events on every path",
               "some path through Open.run does not call tracking_events: an idle connection never emits a watchdog", key="tracking_all_paths")
    # the counter is reset after queuing
    src = ast.unparse(te)
    ctx.decide("self.transport.tracking_events_count = 0" in src, "R-FLOW/watchdog", f"{da.qual}.tracking_events", da.where(te),
               "idle counter reset after the DWR", "idle counter is not reset after the DWR", key="reset", nontrivial=False)


def _classifiers(ctx, repo, m):
    um = ctx.need(repo.mods.get("bromelia.utils"), "module bromelia.utils")
    want = {"is_cer_message": (True, 257), "is_cea_message": (False, 257), "is_dwr_message": (True, 280), "is_dwa_message": (False, 280),
            "is_dpr_message": (True, 282), "is_dpa_message": (False, 282)}
    for name, (req, code) in want.items():
        fn = ctx.need(um.funcs.get(name), f"bromelia.utils.{name}")
        p0 = fn.args.args[0].arg
        # decided on terms under the four assumptions (R bit, command code of the message): truthy exactly for (req, code)
        from .. import sym as _sc
        MSG_ = _sc.S(p0)
        HDR_ = ("attr", MSG_, "header")
        okall, seen = True, False
        for rbit in (True, False):
            for actual in (257, 280, 282, 274):
                def hook(t, rbit=rbit, actual=actual):
                    if t == ("call", ("attr", HDR_, "is_request"), (), ()):
                        return rbit
                    if t == ("call", ("attr", HDR_, "is_answer"), (), ()):
                        return not rbit
                    if t == ("call", ("attr", HDR_, "get_command_code"), (), ()):
                        return actual
                    if isinstance(t, tuple) and t and t[0] == "cmp" and t[1] == "Eq":
                        for x, y in ((t[2], t[3]), (t[3], t[2])):
                            if x == ("attr", HDR_, "command_code") and isinstance(y, bytes):
                                return int.from_bytes(y, "big") == actual
                    return None
                for p_ in _sc.Interp(fold=lambda e: repo.fold(um, e), hook=hook).run(strip_doc(fn.body), _sc.PathState({p0: MSG_}, [], [])):
                    if p_.term not in ("return", "fall"):
                        okall = False
                        continue
                    v = p_.value if p_.term == "return" else None
                    tv = _sc.Interp().truth(v) if not isinstance(v, tuple) else None
                    if tv is None and v is not None:
                        okall = False          # the result still depends on something else
                        continue
                    seen = True
                    okall = okall and bool(tv) == (rbit is req and actual == code)
        ctx.decide(okall and seen, "R-TABLE/classifier", f"bromelia.utils.{name}", f"{um.rel}:{fn.lineno}",
                   f"{name}: R bit {'set' if req else 'clear'} and command code {code}",
                   f"{name} does not classify exactly (R bit {'set' if req else 'clear'}, command code {code})", key="classifier")
    # aliases used by the state machine resolve to these
    for alias, target in (("has_recv_cer", "is_cer_message"), ("has_recv_cea", "is_cea_message"), ("has_recv_dwr", "is_dwr_message"),
                          ("has_recv_dwa", "is_dwa_message"), ("has_recv_dpr", "is_dpr_message"), ("has_recv_dpa", "is_dpa_message")):
        sym = repo.resolve(m, alias)
        ctx.decide(sym is not None and sym.kind == "func" and sym.node.name == target, "R-TABLE/classifier", f"{psm.SM}.{alias}", m.rel,
                   f"{alias} is {target}", f"{alias} resolves to {sym.node.name if sym is not None and sym.node is not None else None}, "
                   f"expected {target}", key=f"alias:{alias}")
    # R bit mask
    hdr = repo.cls("bromelia.base.DiameterHeader")
    v = repo.fold_class_attr(hdr, "flag_request_bit")
    ctx.decide(v == b"\x80", "R-TABLE/classifier", f"{hdr.qual}.flag_request_bit", hdr.where(), "R bit mask is 0x80",
               f"R bit mask folds to {v!r}", key="rbit")
