"""AddressType.parser_data on terms, one run per family code (shared by C10 clause 8 and C20 clause 2)."""
from .. import sym
from ..astutil import strip_doc

CODES = {b"\x00\x01": "IPv4Address", b"\x00\x02": "IPv6Address", b"\x00\x03": None}


def bytes_cases(repo, at, fn):
    """-> {code: {"validators": set of class names applied to data[2:] on accepting paths,
                  "accepting": n, "stores_given": bool, "rejects_with": set of raised names on exception paths}}"""
    params = [a.arg for a in fn.args.args if a.arg != "self"]
    DATA = sym.S(params[0])
    out = {}
    for code in CODES:
        def hook(t, code=code):
            if t == ("slice", DATA, 0, 2):
                return code
            if t == ("call", ("name", "isinstance"), (DATA, ("name", "bytes")), ()):
                return True
            if isinstance(t, tuple) and t and t[0] == "call" and t[1] == ("name", "isinstance") and t[2][:1] == (DATA,):
                return "bytes" in sym.show(t[2][1])
            return None
        it = sym.Interp(fold=lambda e: repo.fold(at.mod, e), hook=hook, log_calls=True)
        try:
            paths = it.run(strip_doc(fn.body), sym.PathState({params[0]: DATA}, [], []))
        except sym.TooMany:
            out[code] = None
            continue
        rec = {"validators": None, "accepting": 0, "stores_given": True, "rejects_with": set()}
        for p in paths:
            exc = [c[1] for c, tv in p.conds if isinstance(c, tuple) and c[0] == "exc"]
            if exc:
                if p.term == "raise":
                    rec["rejects_with"].add(sym.show(p.value).split("(")[0])
                else:
                    rec["rejects_with"].add(f"<{p.term}>")
                continue
            if p.term == "raise":
                continue
            rec["accepting"] += 1
            vals = set()
            for e in p.effects:
                if e[0] == "ecall" and isinstance(e[1], tuple) and e[1][0] == "call" and e[1][2] == (("slice", DATA, 2, None),):
                    vals.add(sym.show(e[1][1]).split(".")[-1])
            rec["validators"] = vals if rec["validators"] is None else rec["validators"] & vals
            if p.get("self._data") != DATA:
                rec["stores_given"] = False
        out[code] = rec
    return out
