"""C07 - base-protocol answers echo the identifiers of the request they answer."""
import ast

from ..astutil import strip_doc, make_cfg, call_name, fn_calls, must_pass, node_calls, walk_no_nested, kwarg
from ..paths import enum_paths, eval_bool
from .. import psm, cmddict

META = {
    "explanation": "create_answer: on every path to the return both identifiers of the selected template are assigned from the "
                   "same-named fields of the request (CFG must-pass); the command-code -> template mapping pairs 257/280/282 with "
                   "cea/dwa/dpa, and the classes the proxy instantiates for those templates are DiameterAnswer subclasses with the "
                   "same command code and result_code/origin_host/origin_realm mandatory; the proxy feeds the local node's identity; "
                   "on every state-machine path each built answer is sent exactly once in the same handler under the matching "
                   "validity atom, and State.send_message serialises synchronously (call path to dump() with no thread hand-off), so "
                   "the shared template cannot be overwritten by a later request before it is on the wire; nobody else writes the "
                   "templates' identifier fields.",
    "decided": ["must-def of both identifiers", "command <-> template table", "local origin flow", "sent once in the same handler, "
                "synchronously serialised", "who may write identifiers"],
    "not_decided": ["actual identifier values over sequences of requests", "the oversize re-enqueue corner of the send path (C05 known finding)"],
    "trusted_base": ["Python ast", "CFG must-pass", "state-machine path table (C06)"],
    "assumptions": ["the serialisation point is DiameterAssociation.send_message_from_queue -> msg.dump()"],
}

PAIRS = {"CAPABILITIES_EXCHANGE_MESSAGE": ("cea", 257), "DEVICE_WATCHDOG_MESSAGE": ("dwa", 280), "DISCONNECT_PEER_MESSAGE": ("dpa", 282)}


def check(ctx):
    repo = ctx.repo
    pm = ctx.need(repo.mods.get("bromelia.process"), "module bromelia.process")
    bp = ctx.need(repo.cls("bromelia.process.BaseMessageProcessor"), "BaseMessageProcessor")
    ca = ctx.need(bp.methods.get("create_answer"), "BaseMessageProcessor.create_answer")
    construct = f"{bp.qual}.create_answer"
    p0 = [a.arg for a in ca.args.args if a.arg != "self"][0]

    # on terms (bsa.sym): REQ = the request; every returning path returns a template T with
    # T.header.hop_by_hop/end_to_end stored from REQ.header.* and T chosen by REQ.header.command_code
    from .. import sym
    ctx.clause = "1-identifiers-copied"
    REQ = sym.S(p0)
    RH = ("attr", REQ, "header")
    paths = [p_ for p_ in sym.Interp(fold=lambda e: repo.fold(pm, e)).run(strip_doc(ca.body), sym.PathState({p0: REQ}, [], []))]
    rets = [p_ for p_ in paths if p_.term == "return"]
    # a command other than the three handled ones leaves the template unbound (UnboundLocalError at run time, as on the
    # reference tree): such a path returns no answer and is outside this clause
    rets = [p_ for p_ in rets if not (isinstance(p_.value, tuple) and p_.value[0] == "name")]
    ctx.decide(len(rets) >= 3 and all(isinstance(p_.value, tuple) and p_.value[0] == "attr" for p_ in rets), "R-MUSTDEF/identifiers", construct,
               bp.where(ca), "returns the template", "create_answer does not return a template object on every path", key="return",
               nontrivial=False)
    got = {}
    for f in ("hop_by_hop", "end_to_end"):
        bad = []
        for p_ in rets:
            T = p_.value
            st_ = [e for e in p_.effects if e[0] == "storeattr" and e[1] == ("attr", T, "header") and e[2] == f]
            if not st_:
                bad.append(f"`{sym.show(T)}.header.{f}` is never assigned")
            elif st_[-1][3] != ("attr", RH, f):
                bad.append(f"`{sym.show(T)}.header.{f}` is assigned `{sym.show(st_[-1][3])}`")
        ctx.decide(not bad and bool(rets), "R-MUSTDEF/identifiers", construct, bp.where(ca), f"answer.header.{f} = request.header.{f} on every path",
                   f"the answer's {f} is not the request's {f}: {'; '.join(sorted(set(bad)))}", key=f"id:{f}")
    for p_ in rets:
        for c, tv in p_.conds:
            if tv and isinstance(c, tuple) and c[0] == "cmp" and c[1] == "Eq" and ("attr", RH, "command_code") in (c[2], c[3]):
                other = c[3] if c[2] == ("attr", RH, "command_code") else c[2]
                got.setdefault(other, set()).add(sym.show(p_.value))

    ctx.clause = "2-command-template-table"
    for c, (tmpl, code) in PAIRS.items():
        v = repo.fold(pm, ast.Name(id=c, ctx=ast.Load()))
        ctx.decide(isinstance(v, bytes) and int.from_bytes(v, "big") == code, "R-TABLE/command-template", construct, bp.where(ca),
                   f"{c} == {code}", f"{c} folds to {v!r}, expected {code}", key=f"const:{c}", nontrivial=False)
        ctx.decide(got.get(v) == {f"self.association.base.{tmpl}"}, "R-TABLE/command-template", construct, bp.where(ca),
                   f"{c} -> base.{tmpl}", f"a request with command {c} is answered with template `{sorted(got.get(v, []))}` instead of base.{tmpl}",
                   key=f"map:{c}")
    # templates are built by the proxy from the right classes
    px = ctx.need(repo.cls("bromelia.proxy.DiameterBaseProxy"), "DiameterBaseProxy")
    req, ans, rows = cmddict.command_rows(repo)
    row_by_ci = {id(r.ci): r for r in rows}
    for tmpl, code in (("cea", 257), ("dwa", 280), ("dpa", 282)):
        ld = ctx.need(px.methods.get(f"load_{tmpl}"), f"DiameterBaseProxy.load_{tmpl}")
        ctors = [c for c in fn_calls(ld) if isinstance(c.func, ast.Name) and
                 id(repo.class_of_sym(repo.resolve(px.mod, c.func.id))) in row_by_ci]
        if not ctors:
            ctx.undecided("R-TABLE/command-template", f"{px.qual}.load_{tmpl}", px.where(ld), f"no {tmpl.upper()}(...) constructor call", key="ctor")
            continue
        ci = repo.class_of_sym(repo.resolve(px.mod, ctors[0].func.id))
        r = row_by_ci.get(id(ci)) if ci is not None else None
        ok = r is not None and r.kind == "answer"
        cc = repo.fold(r.ci.mod, r.command_code_node) if r is not None and r.command_code_node is not None else None
        ok = ok and isinstance(cc, bytes) and int.from_bytes(cc, "big") == code
        mand = set(r.mandatory) if r is not None and isinstance(r.mandatory, dict) else set()
        ok = ok and {"result_code", "origin_host", "origin_realm"} <= mand
        ctx.decide(ok, "R-TABLE/command-template", f"{px.qual}.load_{tmpl}", px.where(ld),
                   f"{tmpl} is a {ci.name if ci else None}: answer class, code {code}, Result-Code/Origin-* mandatory",
                   f"template {tmpl} is built from {ci.qual if ci else None} (kind={r.kind if r else None}, code={cc!r}, mandatory={sorted(mand)}): "
                   f"expected an answer class with command code {code} and mandatory result_code/origin_host/origin_realm", key=f"class:{tmpl}")
        # ---- 3 local origin -----
        ctx.clause = "3-local-origin"
        conn = [a.arg for a in ld.args.args][0]
        CONN = sym.S(conn)
        okd, n_ct = True, 0
        for p_ in sym.Interp(log_calls=True).run(strip_doc(ld.body), sym.PathState({conn: CONN}, [], [])):
            for e in p_.effects:
                if e[0] != "ecall" or not (isinstance(e[1], tuple) and e[1][0] == "call" and e[1][1] == ("name", ctors[0].func.id)):
                    continue
                n_ct += 1
                kw = dict(e[1][3])
                for a_ in e[1][2]:
                    if isinstance(a_, tuple) and a_[0] == "star":
                        pass
                if "origin_host" not in kw:
                    # keyword dictionary passed with **: the interpreter keeps it as a dict term
                    for a_ in [v_ for k_, v_ in e[1][3] if k_ is None]:
                        if isinstance(a_, tuple) and a_[0] == "dict":
                            kw.update(dict(a_[1]))
                okd = okd and kw.get("origin_host") == ("attr", ("attr", CONN, "local_node"), "host_name") \
                    and kw.get("origin_realm") == ("attr", ("attr", CONN, "local_node"), "realm")
        okd = okd and n_ct > 0
        ctx.decide(okd, "R-FLOW/local-origin", f"{px.qual}.load_{tmpl}", px.where(ld), "Origin-Host/Realm come from the local node",
                   "the template's Origin-Host/Origin-Realm are not the local node's configured identity", key=f"origin:{tmpl}")
        ctx.clause = "2-command-template-table"
    gd = ctx.need(px.methods.get("get_default_messages"), "DiameterBaseProxy.get_default_messages")
    kws = {}
    for c in fn_calls(gd):
        if call_name(c) == "BaseMessages":
            for k in c.keywords:
                kws[k.arg] = call_name(k.value) if isinstance(k.value, ast.Call) else ast.unparse(k.value)
    ok = all(kws.get(t, "").endswith(f"load_{t}") for t in ("cer", "cea", "dwr", "dwa", "dpr", "dpa"))
    ctx.decide(ok, "R-TABLE/command-template", f"{px.qual}.get_default_messages", px.where(gd), "each template slot gets its own loader",
               f"BaseMessages slots are filled by {kws}", key="slots")
    bmsg = ctx.need(repo.cls("bromelia.proxy.BaseMessages"), "BaseMessages")
    ini = bmsg.methods.get("__init__")
    src = ast.unparse(ini) if ini is not None else ""
    ctx.decide(all(f"self.{t} = {t}" in src for t in ("cer", "cea", "dwr", "dwa", "dpr", "dpa")), "R-TABLE/command-template",
               f"{bmsg.qual}.__init__", bmsg.where(ini or bmsg.node), "slots are stored under their own names",
               "BaseMessages stores a template under another slot's name", key="slot_names")

    # ---- 4 sent once, synchronously -------------------------------------------------------------
    ctx.clause = "4-sent-once-synchronously"
    n_created = 0
    valid_for = {"Closed": "is_valid_capability_exchange", "Open": None}
    for c in psm.STATE_CLASSES:
        ci, ps = psm.state_paths(repo, c)
        for p in ps:
            created = [i for i, e in enumerate(p.effects) if e[0] == "create_answer"]
            for i in created:
                n_created += 1
                sent = [j for j, e in enumerate(p.effects) if j > i and e[0] == "send" and e[1].startswith("create_answer(")]
                between = [e for e in p.effects[i + 1:(sent[0] if sent else len(p.effects))] if e[0] in ("get_message", "create_answer")]
                valid = any(k.startswith("is_valid_") and v is True for k, v in p.atoms.items())
                ok = len(sent) == 1 and not between and valid
                ctx.decide(ok, "R-PATH/answer-sent-once", f"{ci.qual}.run", ci.where(),
                           "built answer sent exactly once on the same tick, before any other message is taken, under a validity atom",
                           f"an answer built by create_answer is sent {len(sent)} time(s) / another message is taken in between "
                           f"({between}) / without validation ({valid}) - {p.describe()}", key=f"sent:{c}:{sorted(p.atoms.items())}")
    ctx.floor("answer_building_paths", n_created, 4)
    # "emitted before any later inbound message is processed": Open takes an inbound message only when nothing is waiting to
    # be sent (a base answer may still sit behind a full 256 KiB batch - the template would be overwritten by the next request)
    oci, ops = psm.state_paths(repo, "Open")
    for p in ops:
        if p.has_effect("get_message"):
            ctx.decide(p.atom("has_send_queue_message") is False, "R-PATH/send-before-receive", f"{oci.qual}.run", oci.where(),
                       "an inbound message is processed only on ticks with an empty send queue",
                       "Open.run processes the next inbound message while outbound messages may still be queued: a base answer "
                       "waiting behind a full batch is overwritten (shared template) by the next request before it is serialised "
                       f"- {p.describe()[:160]}", key="send_before_receive")
    # synchronous serialisation: State.send_message -> put_message_into_send_queue ; send_message_from_queue -> msg.dump()
    st = ctx.need(repo.cls(f"{psm.SM}.State"), "State")
    sm = ctx.need(st.methods.get("send_message"), "State.send_message")
    # on terms: every path flushes; a path that enqueues flushes after the enqueue (evaluation order from the call log)
    okp = okorder = True
    n_enq = 0
    for p_ in sym.Interp(log_calls=True).run(strip_doc(sm.body)):
        if p_.term == "raise":
            continue
        names = [e[1][1][2] for e in p_.effects if e[0] == "ecall" and isinstance(e[1], tuple) and e[1][0] == "call"
                 and isinstance(e[1][1], tuple) and e[1][1][0] == "attr" and e[1][1][1] == ("attr", ("name", "self"), "association")]
        okp = okp and "send_message_from_queue" in names
        if "put_message_into_send_queue" in names:
            n_enq += 1
            okorder = okorder and "send_message_from_queue" in names[names.index("put_message_into_send_queue") + 1:]
    okorder = okorder and n_enq > 0
    ctx.decide(okp and okorder, "R-MUSTPASS/synchronous-flush", f"{st.qual}.send_message", st.where(sm),
               "enqueue then flush on every path, in the calling thread",
               "State.send_message does not flush the send queue on every path after enqueuing: the shared template can be "
               "overwritten by the next request before it is serialised", key="flush")
    da = ctx.need(repo.cls("bromelia.setup.DiameterAssociation"), "DiameterAssociation")
    sq = ctx.need(da.methods.get("send_message_from_queue"), "DiameterAssociation.send_message_from_queue")
    src = ast.unparse(sq)
    # the message taken from the queue is serialised in this very call: `acc += <m>.dump()` (directly, or through a local bound
    # to `<m>.dump()`) where <m> is what `self._send_messages.get()` returned
    _got = {s_.targets[0].id for s_ in ast.walk(sq) if isinstance(s_, ast.Assign) and len(s_.targets) == 1 and isinstance(s_.targets[0], ast.Name)
            and isinstance(s_.value, ast.Call) and call_name(s_.value).endswith("_send_messages.get")}
    _dl = {}
    for s_ in ast.walk(sq):
        if isinstance(s_, ast.Assign) and len(s_.targets) == 1 and isinstance(s_.targets[0], ast.Name):
            _dl.setdefault(s_.targets[0].id, []).append(ast.unparse(s_.value))
    _isd = lambda e: any(ast.unparse(e) == f"{m_}.dump()" or (isinstance(e, ast.Name) and _dl.get(e.id) == [f"{m_}.dump()"]) for m_ in _got)
    has_dump = any(isinstance(s_, ast.AugAssign) and isinstance(s_.op, ast.Add) and _isd(s_.value) for s_ in ast.walk(sq))
    threads = any("Thread" in call_name(c) for c in fn_calls(sq)) or any("Thread" in call_name(c) for c in fn_calls(sm))
    ctx.decide(has_dump and not threads, "R-MUSTPASS/synchronous-flush", f"{da.qual}.send_message_from_queue", da.where(sq),
               "dequeued messages are serialised (dump) in the same call, no thread hand-off",
               "send_message_from_queue does not serialise the dequeued messages synchronously", key="dump_sync")

    # ---- 5 who writes identifier fields -------------------------------------------------------------
    # an answer is only ever produced for a REQUEST: the classifiers that route a received message to the request handlers accept
    # exactly (R bit set, command code) - shared with C06
    ctx.clause = "6-classifiers"
    from .c06 import _classifiers
    from .. import psm as _psm
    _classifiers(ctx, repo, ctx.need(repo.mods.get(_psm.SM), "state machine module"))
    ctx.clause = "5-who-writes-identifiers"
    writers = []
    # the templates live in the connection layer (Diameter._base / DiameterAssociation.base); the routing layer
    # (bromelia.bromelia) works on handler answers and its own error answers, which cannot alias them
    layer = ("bromelia.process", "bromelia.statemachine", "bromelia.setup", "bromelia.proxy", "bromelia.transport", "bromelia.utils")
    for fi in repo.funcs.values():
        if fi.mod.name not in layer:
            continue
        for s in walk_no_nested(fi.node):
            if isinstance(s, ast.Assign):
                for t in s.targets:
                    if isinstance(t, ast.Attribute) and t.attr in ("hop_by_hop", "end_to_end"):
                        writers.append(fi.qual)
    allowed = {f"{bp.qual}.create_answer"}
    extra = sorted(set(writers) - allowed)
    ctx.decide(not extra and f"{bp.qual}.create_answer" in writers, "R-WHO/identifier-writers", "bromelia/*", "bromelia/",
               "in the connection layer only create_answer writes identifier fields",
               f"identifier fields of messages are also written by {extra}", key="writers")
