"""C15 - request identifiers are never reused within a process."""
import ast

from ..astutil import make_cfg, call_name, fn_calls, must_pass, node_calls, walk_no_nested, kwarg
from ..paths import enum_paths
from ..locks import FieldKinds, LockFlow

META = {
    "explanation": "Each draw function is enumerated path by path: every path to `return r` passes a non-membership test of r in a "
                   "registry and an insertion of the same r into the same registry, and the loop redraws otherwise (for any random "
                   "source, repeated values included). Who-may-write/-call: the registries are class attributes of DiameterRequest "
                   "written only by the draw functions, which are called only on the no-header branch of DiameterRequest.__init__; "
                   "the two registries are not crossed and the drawn values reach the header fields of the same name. Lockset: "
                   "test and insert happen inside one region of a class-level lock (two threads drawing the same value cannot "
                   "both pass the test).",
    "decided": ["test-and-insert on every return path", "who may draw / write", "registries not crossed", "lock around test-and-insert"],
    "not_decided": [],
    "trusted_base": ["Python ast", "path enumeration", "lockset dataflow on the CFG"],
    "assumptions": ["threading.Lock provides mutual exclusion"],
}

REGS = {"hop_by_hop": "hop_by_hop_identifiers", "end_to_end": "end_to_end_identifiers"}


def check(ctx):
    repo = ctx.repo
    rq = ctx.need(repo.cls("bromelia.base.DiameterRequest"), "DiameterRequest")
    an = ctx.need(repo.cls("bromelia.base.DiameterAnswer"), "DiameterAnswer")
    fk = FieldKinds(repo)
    draw = {}
    for f, reg in REGS.items():
        name = next((n for n in rq.methods if n.endswith(f"set_{f}_identifier")), None)
        draw[f] = ctx.need(rq.methods.get(name) if name else None, f"DiameterRequest draw function for {f}")
        ctx.decide(reg in rq.attrs, "R-WHO/registry", f"{rq.qual}.{reg}", rq.where(), "registry is a class attribute (process-wide)",
                   f"registry {reg} is not a class attribute of DiameterRequest: it is not shared by all requests of the process",
                   key=f"classattr:{reg}", nontrivial=False)

    ctx.clause = "2-who-may-draw"
    for f, reg in REGS.items():
        v = rq.attrs.get(reg)
        if v is None:
            continue
        txt = ast.unparse(v)
        if txt in ("list()", "[]", "set()"):
            ctx.hold("R-TABLE/registry-unbounded", f"{rq.qual}.{reg}", rq.where(v), f"registry is an unbounded {txt}", key=f"unbounded:{reg}")
        elif "deque" in txt and "maxlen" in txt or "OrderedDict" in txt or "lru" in txt.lower():
            ctx.violate("R-TABLE/registry-unbounded", f"{rq.qual}.{reg}", rq.where(v),
                        f"registry is `{txt}`: a bounded container forgets the oldest identifiers, so a later draw that repeats one "
                        f"of them passes the membership test and the identifier is reused within the process", key=f"unbounded:{reg}")
        else:
            ctx.undecided("R-TABLE/registry-unbounded", f"{rq.qual}.{reg}", rq.where(v), f"registry container `{txt}` not recognised",
                          key=f"unbounded:{reg}")

    ctx.clause = "1-test-and-insert"
    for f, fn in draw.items():
        reg = REGS[f]
        construct = f"{rq.qual}.{fn.name}"
        loops = [s for s in fn.body if isinstance(s, ast.While)]
        if len(loops) != 1:
            ctx.undecided("R-MUSTPASS/draw", construct, rq.where(fn), "expected one redraw loop", key="loop")
            continue
        lp = loops[0]
        infinite = isinstance(lp.test, ast.Constant) and lp.test.value is True
        ctx.decide(infinite, "R-MUSTPASS/draw", construct, rq.where(lp), "the loop redraws until an unused value is found",
                   f"the redraw loop is bounded by `{ast.unparse(lp.test)}`: it can give up and return without a fresh value",
                   key="infinite")
        after = [s for s in fn.body[fn.body.index(lp) + 1:] if isinstance(s, ast.Return)]
        ctx.decide(not after, "R-MUSTPASS/draw", construct, rq.where(fn), "no return outside the loop",
                   "a return after the loop hands out a value that never passed the test", key="no_tail_return", nontrivial=False)
        nret = 0
        for p in enum_paths(lp.body, loops="skip"):
            if p.term != "return":
                continue
            nret += 1
            rv = p.term_node.value
            if not isinstance(rv, ast.Name):
                ctx.undecided("R-MUSTPASS/draw", construct, rq.where(p.term_node), "returned value is not a local", key="retval")
                continue
            r = rv.id
            facts = {}
            for t, tr in p.conds():
                facts[ast.unparse(t)] = tr
            regs_tested = set()
            for t, tr in facts.items():
                for cand in (f"DiameterRequest.{reg}", f"self.{reg}", f"cls.{reg}", f"type(self).{reg}",
                             f"DiameterRequest.{REGS['end_to_end' if f == 'hop_by_hop' else 'hop_by_hop']}"):
                    if (t == f"{r} not in {cand}" and tr) or (t == f"{r} in {cand}" and not tr):
                        regs_tested.add(cand.split(".")[-1])
            inserted = set()
            for c, _ in p.calls():
                nm = call_name(c)
                if nm.split(".")[-1] in ("append", "add") and c.args and ast.unparse(c.args[0]) == r:
                    inserted.add(nm.split(".")[-2])
            ok = reg in regs_tested and reg in inserted
            why = []
            if reg not in regs_tested:
                why.append(f"no non-membership test of `{r}` in {reg} (tested: {sorted(regs_tested)})")
            if reg not in inserted:
                why.append(f"`{r}` is not inserted into {reg} (inserted into: {sorted(inserted)})")
            ctx.decide(ok, "R-MUSTPASS/draw", construct, rq.where(p.term_node),
                       f"return of `{r}` passes `not in {reg}` and the insertion into {reg}",
                       "a value is returned although " + "; ".join(why) + ": a repeated draw is handed out twice", key="test_insert")
            # the drawn value is fresh on each iteration
            src = [s for s in p.stmts() if isinstance(s, ast.Assign) and isinstance(s.targets[0], ast.Name) and s.targets[0].id == r]
            ctx.decide(bool(src) and isinstance(src[-1].value, ast.Call), "R-MUSTPASS/draw", construct, rq.where(lp),
                       "a new value is drawn inside the loop", "the candidate is not redrawn inside the loop: a used value loops forever",
                       key="redraw", nontrivial=False)
            if src and isinstance(src[-1].value, ast.Call):
                w = src[-1].value
                four = call_name(w) == "os.urandom" and w.args and repo.fold(rq.mod, w.args[0]) == 4
                ctx.decide(four, "R-WIDTH/draw", construct, rq.where(w), "identifier is 4 random octets",
                           f"identifier is drawn as `{ast.unparse(w)}`, the header field is 4 octets", key="width", nontrivial=False)
        ctx.decide(nret >= 1, "R-MUSTPASS/draw", construct, rq.where(fn), "a returning path exists", "no returning path", key="has_return",
                   nontrivial=False)

    ctx.clause = "2-who-may-draw"
    # writers of the registries anywhere in the repository
    writers = []
    for fi in repo.funcs.values():
        for n in walk_no_nested(fi.node):
            if isinstance(n, ast.Attribute) and n.attr in REGS.values():
                owner = ast.unparse(n.value)
                belongs = owner in ("DiameterRequest", "cls", "type(self)") or \
                    (owner == "self" and fi.cls is not None and rq in fi.cls.mro())
                if not belongs:
                    continue
                par = _parent_kind(fi.node, n)
                if par in ("call-mutator", "store", "del"):
                    writers.append((fi.qual, n.attr, par))
    allowed = {f"{rq.qual}.{fn.name}" for fn in draw.values()}
    bad = [w for w in writers if w[0] not in allowed]
    ctx.decide(not bad and len(writers) >= 2, "R-WHO/registry", f"{rq.qual}", rq.where(),
               "registries are written only by the two draw functions",
               f"the identifier registries are also written by {bad}", key="writers")
    ini = ctx.need(rq.methods.get("__init__"), "DiameterRequest.__init__")
    callers = []
    for fi in repo.funcs.values():
        for c in fn_calls(fi.node):
            nm = call_name(c)
            if any(nm.endswith(fn.name) or nm.endswith(fn.name.lstrip("_")) and "identifier" in nm for fn in draw.values()):
                callers.append((fi.qual, c))
    outside = [q for q, _ in callers if q != f"{rq.qual}.__init__"]
    ctx.decide(not outside and len(callers) == 2, "R-WHO/draw", f"{rq.qual}.__init__", rq.where(ini),
               "the draw functions are called only from DiameterRequest.__init__",
               f"draw functions are called from {outside or [q for q, _ in callers]}", key="callers")
    # only on the no-header branch
    top = [s for s in ini.body if isinstance(s, ast.If) and ast.unparse(s.test) in ("header", "header is not None")]
    ok = False
    if top:
        in_else = all(any(c is x for s in top[0].orelse for x in ast.walk(s)) for _, c in callers)
        in_body = any(any(c is x for s in top[0].body for x in ast.walk(s)) for _, c in callers)
        ok = in_else and not in_body
    ctx.decide(ok, "R-DOM/draw", f"{rq.qual}.__init__", rq.where(ini), "identifiers are drawn only when no header is supplied",
               "identifiers are drawn although an explicit header was supplied (or the branch structure is not recognised)",
               key="no_header_branch")
    # not crossed: value drawn for X feeds DiameterHeader(X=...)   (on terms: on some path the keyword X of the header
    # construction is the result of calling the draw function of X; on no path the result of the other one)
    from .. import sym as _sy
    from ..astutil import strip_doc as _sd
    ps_ = [a_.arg for a_ in ini.args.args if a_.arg != "self"]
    try:
        paths_ = [p_ for p_ in _sy.Interp(fold=lambda e: repo.fold(rq.mod, e), log_calls=True).run(
            _sd(ini.body), _sy.PathState({a_: _sy.S(a_) for a_ in ps_}, [], [])) if p_.term != "raise"]
    except _sy.TooMany:
        paths_ = []
    fed = {f: set() for f in draw}
    for p_ in paths_:
        for e in p_.effects:
            if e[0] in ("ecall", "call") and isinstance(e[1], tuple) and e[1] and e[1][0] == "call" and _sy.show(e[1][1]) == "DiameterHeader":
                kw_ = dict(e[1][3])
                for f in draw:
                    v_ = kw_.get(f)
                    if isinstance(v_, tuple) and v_ and v_[0] == "call":
                        fed[f].add(_sy.show(v_[1]).split(".")[-1])
    for f, fn in draw.items():
        other = [g.name for k_, g in draw.items() if k_ != f]
        okf = any(n_.endswith(fn.name) or fn.name.endswith(n_) for n_ in fed[f]) and not any(
            n_.endswith(o_) or o_.endswith(n_) for n_ in fed[f] for o_ in other)
        ctx.decide(okf, "R-FLOW/draw", f"{rq.qual}.__init__", rq.where(ini), f"{f} of the header comes from the {f} registry",
                   f"the header's {f} is not the value drawn from the {f} registry (registries crossed or value dropped)", key=f"flow:{f}")
    # answers never draw
    ai = an.methods.get("__init__")
    src = ast.unparse(ai) if ai is not None else ""
    ctx.decide("identifier" not in src, "R-WHO/draw", f"{an.qual}.__init__", an.where(ai or an.node),
               "answers never consume identifiers", "DiameterAnswer.__init__ touches the identifier registries", key="answer", nontrivial=False)

    ctx.clause = "3-lock"
    for f, fn in draw.items():
        reg = REGS[f]
        construct = f"{rq.qual}.{fn.name}"
        fi = repo.funcs.get(f"{rq.qual}.{fn.name}")
        lf = LockFlow(repo, fk, fi)
        tests, inserts = [], []
        for nid, n in lf.cfg.nodes.items():
            if n.kind == "test" and reg in ast.unparse(n.ast) and (" in " in ast.unparse(n.ast)):
                tests.append(nid)
            for c in node_calls(n):
                if call_name(c).endswith(f"{reg}.append") or call_name(c).endswith(f"{reg}.add"):
                    inserts.append(nid)
        if not tests or not inserts:
            ctx.undecided("R-LOCKSET/registry", construct, rq.where(fn), "test or insert site not found", key="sites")
            continue
        common = None
        for nid in tests + inserts:
            held = {l for l in lf.must_at(nid) if not l.startswith("local:")}
            common = held if common is None else common & held
        class_level = {l for l in (common or set()) if l.split(".")[0] == "DiameterRequest" and l.split(".")[1] in rq.attrs}
        # the region must be one: no release between test and insert
        one_region = True
        if class_level:
            for t in tests:
                for i in inserts:
                    path = lf.cfg.shortest_path(t, i)
                    for a, l, b in path or []:
                        if not (class_level & lf.must_at(b)):
                            one_region = False
        ctx.decide(bool(class_level) and one_region, "R-LOCKSET/registry", construct, rq.where(fn),
                   f"test and insert of {reg} happen in one region of {sorted(class_level)}",
                   f"the membership test and the insertion into the process-wide registry {reg} are not protected by one region "
                   f"of a class-level lock (must-held: {sorted(common or [])}): two threads drawing the same value both pass the "
                   f"test and both requests get the same identifier", key="lock")
    locks = {l for f, fn in draw.items() for l in ()}


def _parent_kind(root, target):
    for n in ast.walk(root):
        if isinstance(n, ast.Call) and isinstance(n.func, ast.Attribute) and n.func.value is target:
            if n.func.attr in ("append", "add", "remove", "pop", "clear", "extend", "insert", "update", "discard"):
                return "call-mutator"
            return "call-read"
        if isinstance(n, ast.Assign) and any(t is target for t in n.targets):
            return "store"
        if isinstance(n, ast.AugAssign) and n.target is target:
            return "store"
        if isinstance(n, ast.Delete) and any(t is target for t in n.targets):
            return "del"
    return "read"
