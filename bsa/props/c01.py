"""C01 - serialised messages are exactly the RFC 6733 encoding of their content (layout skeleton)."""
import ast

from ..astutil import make_cfg, call_name, fn_calls, must_pass, node_calls, walk_no_nested, kwarg
from ..absval import WidthAnalysis, B, NONE
from ..minieval import ev, truth, UNK
from .. import sym
from ..astutil import strip_doc
from ..loader import is_unknown
from .. import cmddict

META = {
    "explanation": "Structural skeleton every serialised value passes through: abstract byte width of every store in the 11 "
                   "fixed-width setters against the RFC 6733 table and the repo's own *_FIELD constants; writer/reader layout "
                   "agreement (concatenation order of DiameterHeader.dump / DiameterAVP.dump vs the slices of the two load "
                   "functions); vendor-field/length coupling; padding over the four residues of len(data) mod 4 (abstract "
                   "interpretation); Message Length bookkeeping sites (append / refresh / dump order / _load refresh); Grouped "
                   "data = concatenation of members through append; typed classes never hand a width-less header field.",
    "decided": ["field widths", "header/AVP layout order and writer=reader", "vendor/length coupling", "padding over residues",
                "length bookkeeping sites", "grouped concatenation", "no None header field in typed classes"],
    "not_decided": ["the bytes of the data field for particular values (typed encoders of int/str/time/address values), i.e. "
                    "equality with a reference encoder over generated content"],
    "trusted_base": ["Python ast", "constant folder", "abstract width dataflow", "RFC 6733 section 3/4 layout table frozen in the checker"],
    "assumptions": ["V flag <=> Vendor-ID for dictionary classes is C10 clause 4"],
}

HDR = [("version", 1), ("length", 3), ("flags", 1), ("command_code", 3), ("application_id", 4),
       ("hop_by_hop", 4), ("end_to_end", 4)]
AVP = [("code", 4), ("flags", 1), ("length", 3), ("vendor_id", 4)]
HDR_CONST = {"version": "DIAMETER_VERSION_FIELD", "length": "DIAMETER_LENGTH_FIELD", "flags": "DIAMETER_FLAG_FIELD",
             "command_code": "DIAMETER_COMMAND_CODE_FIELD", "application_id": "DIAMETER_APPLICATION_ID_FIELD",
             "hop_by_hop": "DIAMETER_HOP_BY_HOP_FIELD", "end_to_end": "DIAMETER_END_TO_END_FIELD"}
AVP_CONST = {"code": "AVP_CODE_FIELD", "flags": "AVP_FLAG_FIELD", "length": "AVP_LENGTH_FIELD", "vendor_id": "AVP_VENDOR_ID_FIELD"}


def concat_order(fn, var=None):
    """Sequence of (expr text, guard text|None) concatenated into the returned stream."""
    rets = [n for n in walk_no_nested(fn) if isinstance(n, ast.Return) and n.value is not None]
    if len(rets) != 1:
        return None
    rv = rets[0].value
    seq = []

    def flat(e, guard):
        if isinstance(e, ast.BinOp) and isinstance(e.op, ast.Add):
            flat(e.left, guard)
            flat(e.right, guard)
        elif isinstance(e, ast.Call) and isinstance(e.func, ast.Attribute) and e.func.attr == "join" \
                and e.args and isinstance(e.args[0], (ast.List, ast.Tuple)):
            for x in e.args[0].elts:
                flat(x, guard)
        else:
            seq.append((ast.unparse(e), guard))
    if isinstance(rv, ast.Name):
        var = rv.id
    else:
        flat(rv, None)
        return seq

    def walk(stmts, guard):
        for s in stmts:
            if isinstance(s, ast.Assign) and len(s.targets) == 1 and isinstance(s.targets[0], ast.Name) and s.targets[0].id == var:
                if seq and not (isinstance(s.value, ast.BinOp) and ast.unparse(s.value).startswith(var + " +")):
                    seq.append(("<RESET>", guard))
                flat(s.value, guard)
                if seq and seq[0][0] == var:
                    pass
            elif isinstance(s, ast.AugAssign) and isinstance(s.target, ast.Name) and s.target.id == var and isinstance(s.op, ast.Add):
                flat(s.value, guard)
            elif isinstance(s, ast.If):
                g = ast.unparse(s.test)
                walk(s.body, g if guard is None else f"{guard} and {g}")
                if s.orelse:
                    walk(s.orelse, f"not ({g})")
            elif isinstance(s, ast.For):
                walk(s.body, f"for {ast.unparse(s.target)} in {ast.unparse(s.iter)}")
    walk(fn.body, None)
    return [x for x in seq if x[0] != var]


def run_paths(stmts, env, special, fold):
    """Execute a loop-free statement list abstractly; yields (env, 'return'|'fall', value)."""
    def seq(ss, env):
        if not ss:
            yield env, "fall", None
            return
        s, rest = ss[0], ss[1:]
        if isinstance(s, ast.Assign) and len(s.targets) == 1 and isinstance(s.targets[0], ast.Name):
            e2 = dict(env)
            e2[s.targets[0].id] = ev(s.value, env, special, fold)
            yield from seq(rest, e2)
        elif isinstance(s, ast.AugAssign) and isinstance(s.target, ast.Name):
            e2 = dict(env)
            b = ast.BinOp(left=ast.Name(id=s.target.id, ctx=ast.Load()), op=s.op, right=s.value)
            e2[s.target.id] = ev(b, env, special, fold)
            yield from seq(rest, e2)
        elif isinstance(s, ast.If):
            c = ev(s.test, env, special, fold)
            branches = []
            if c is UNK:
                branches = [s.body, s.orelse]
            else:
                branches = [s.body if truth(c) else s.orelse]
            for b in branches:
                for env2, term, val in seq(list(b), env):
                    if term == "fall":
                        yield from seq(rest, env2)
                    else:
                        yield env2, term, val
        elif isinstance(s, ast.Return):
            yield env, "return", (ev(s.value, env, special, fold) if s.value is not None else None)
        elif isinstance(s, ast.Raise):
            yield env, "raise", None
        else:
            yield from seq(rest, env)
    yield from seq(list(stmts), env)


def check(ctx):
    repo = ctx.repo
    bm = ctx.need(repo.mods.get("bromelia.base"), "module bromelia.base")
    hdr = ctx.need(repo.cls("bromelia.base.DiameterHeader"), "DiameterHeader")
    avp = ctx.need(repo.cls("bromelia.base.DiameterAVP"), "DiameterAVP")
    msg = ctx.need(repo.cls("bromelia.base.DiameterMessage"), "DiameterMessage")
    fold_name = lambda n: repo.fold(bm, ast.Name(id=n, ctx=ast.Load()))

    # ---- 1 field widths -------------------------------------------------------------
    ctx.clause = "1-field-widths"
    nset = 0
    for ci, table, consts in ((hdr, HDR, HDR_CONST), (avp, AVP, AVP_CONST)):
        for field, W in table:
            c = fold_name(consts[field])
            ctx.decide(c == W, "R-TABLE/field-const", f"bromelia.constants.general.{consts[field]}", "bromelia/constants/general.py",
                       f"{consts[field]} == {W}", f"{consts[field]} folds to {c}, RFC 6733 says {W}", key=consts[field],
                       nontrivial=False)
            st = ci.props.get(field, {}).get("set")
            if st is None:
                ctx.undecided("R-WIDTH/setter", f"{ci.qual}.{field}[setter]", ci.where(), "setter not found", key="setter")
                continue
            nset += 1
            wa = WidthAnalysis(repo, ci.mod, st)
            stores = list(wa.stores_to((f"_{field}",)))
            if not stores:
                ctx.undecided("R-WIDTH/setter", f"{ci.qual}.{field}[setter]", ci.where(st), "no store found", key="store")
            for n, expr, val in stores:
                ok = val == B(W) or val == NONE
                ctx.decide(ok, "R-WIDTH/setter", f"{ci.qual}.{field}[setter]", ci.where(n.ast),
                           f"store has width {val}",
                           f"`{ast.unparse(n.ast)}` stores a value of abstract width {val}; the {field} field is {W} octet(s)",
                           key=n.ast)
    ctx.floor("fixed_width_setters", nset, 11)
    # the width helpers themselves: N octets, network byte order (derived from each helper's own body)
    iu = ctx.need(repo.mods.get("bromelia._internal_utils"), "module bromelia._internal_utils")
    nh = 0
    for hname, fnode in sorted(iu.funcs.items()):
        if not (hname.startswith("convert_to_") and hname.endswith(("_byte", "_bytes")) and hname.split("_")[2].isdigit()):
            continue
        nh += 1
        want_n = int(hname.split("_")[2])
        w = repo.helper_width(iu, hname)
        ctx.decide(w is not None and w[0] == want_n and w[1] == "big", "R-WIDTH/helper", f"bromelia._internal_utils.{hname}",
                   f"{iu.rel}:{fnode.lineno}", f"{hname} packs {want_n} octet(s) big-endian",
                   f"{hname} is derived as {w} from its body: expected {want_n} octet(s) in network (big-endian) byte order - every "
                   f"fixed-width header/AVP field passes through it", key=hname)
    ctx.floor("width_helpers", nh, 6)
    ib = repo.fold(iu, ast.parse("convert_to_integer_from_bytes").body[0].value)
    rf = iu.funcs.get("convert_to_integer_from_bytes")
    if rf is not None:
        src = ast.unparse(rf)
        ctx.decide("byteorder='big'" in src, "R-WIDTH/helper", "bromelia._internal_utils.convert_to_integer_from_bytes",
                   f"{iu.rel}:{rf.lineno}", "integers are read big-endian", "convert_to_integer_from_bytes does not read big-endian",
                   key="from_bytes")
    for name, want in (("DIAMETER_HEADER_LENGTH", 20), ("AVP_HEADER_LENGTH", 8), ("AVP_HEADER_LENGTH_LONGER", 12)):
        v = fold_name(name)
        ctx.decide(v == want, "R-TABLE/field-const", f"bromelia.constants.general.{name}", "bromelia/constants/general.py",
                   f"{name} == {want}", f"{name} folds to {v}, expected {want}", key=name)

    # ---- 2 layout agreement -----------------------------------------------------------
    ctx.clause = "2-layout"
    d = ctx.need(hdr.methods.get("dump"), "DiameterHeader.dump")
    order = concat_order(d)
    want = [f"self.{f}" for f, _ in HDR]
    if order is None:
        ctx.undecided("R-TABLE/layout", f"{hdr.qual}.dump", hdr.where(d), "concatenation not recognised", key="dump")
    else:
        got = [x[0] for x in order]
        ctx.decide(got == want, "R-TABLE/layout", f"{hdr.qual}.dump", hdr.where(d), "fields concatenated in RFC order",
                   f"header fields are concatenated as {got}; RFC 6733 section 3 order is {want}", key="dump_order")
        for (txt, g), (f, w) in zip(order, HDR):
            if g is not None:
                ctx.decide(g == txt, "R-DOM/layout", f"{hdr.qual}.dump", hdr.where(d), f"{f} emitted when set",
                           f"{f} is emitted under guard `{g}`", key=f"guard:{f}", nontrivial=False)
    ld = ctx.need(hdr.methods.get("load"), "DiameterHeader.load")
    _header_load(ctx, repo, hdr, ld)
    d = ctx.need(avp.methods.get("dump"), "DiameterAVP.dump")
    order = concat_order(d)
    want = ["self.code", "self.flags", "self.length", "self.vendor_id", "self.data", "self.padding"]
    if order is None:
        ctx.undecided("R-TABLE/layout", f"{avp.qual}.dump", avp.where(d), "concatenation not recognised", key="dump")
    else:
        got = [x[0] for x in order]
        ctx.decide(got == want, "R-TABLE/layout", f"{avp.qual}.dump", avp.where(d),
                   "code, flags, length, [vendor], data, padding",
                   f"AVP fields are concatenated as {got}; RFC 6733 section 4.1 order is {want}", key="dump_order")
        guards = {t: g for t, g in order}
        for f in ("self.vendor_id", "self.data", "self.padding"):
            if f in guards:
                ctx.decide(guards[f] == f, "R-DOM/layout", f"{avp.qual}.dump", avp.where(d), f"{f} emitted when present",
                           f"{f} is emitted under guard `{guards[f]}`", key=f"guard:{f}")
        for f in ("self.code", "self.flags", "self.length"):
            if f in guards:
                ctx.decide(guards[f] is None, "R-DOM/layout", f"{avp.qual}.dump", avp.where(d), f"{f} always emitted",
                           f"{f} is only emitted under `{guards[f]}`", key=f"guard:{f}", nontrivial=False)
    _avp_load_offsets(ctx, repo, avp)

    # ---- 3 vendor/length coupling ---------------------------------------------------------
    ctx.clause = "3-vendor-length"
    lg = avp.props.get("length", {}).get("get")
    ctx.need(lg, "DiameterAVP.length getter")
    D = sym.S("int:D")
    len_data = ("call", ("name", "len"), (("attr", ("name", "self"), "data"),), ())
    it = sym.Interp(fold=lambda e: repo.fold(avp.mod, e), hook=lambda t: D if t == len_data else None)
    found = {}
    for p_ in it.run(strip_doc(lg.body)):
        if p_.term != "return" or any(isinstance(c[0], tuple) and c[0][0] == "exc" for c in p_.conds):
            continue
        v = p_.value
        arg = v[2][0] if isinstance(v, tuple) and v and v[0] == "call" and len(v[2]) == 1 else v
        d = sym.add(arg, D, -1)
        found[tuple(sorted((sym.show(c), tv) for c, tv in p_.conds))] = d if sym.is_int(d) else sym.show(arg)
    dump_guard = None
    for t, g in (order or []):
        if t == "self.vendor_id":
            dump_guard = g
    ok = found == {((dump_guard, True),): 12, ((dump_guard, False),): 8}
    ctx.decide(ok, "R-DOM/vendor-length", f"{avp.qual}.length", avp.where(lg),
               "length adds 12 exactly under the predicate that emits the Vendor-ID, 8 otherwise",
               f"AVP Length adds {found} to len(data) while dump() emits the Vendor-ID under `{dump_guard}`: the length field and the "
               f"emitted header disagree for some AVP", key="coupling")
    dep = any(isinstance(n, ast.Attribute) and n.attr in ("padding", "_padding", "get_padding_length") for n in ast.walk(lg))
    ctx.decide(not dep, "R-FLOW/length-no-padding", f"{avp.qual}.length", avp.where(lg), "length does not depend on padding",
               "AVP Length depends on the padding (RFC 6733: the length excludes padding)", key="no_padding")
    rets = [n for n in walk_no_nested(lg) if isinstance(n, ast.Return)]
    okw = bool(rets) and all(isinstance(r.value, ast.Call) and isinstance(r.value.func, ast.Name)
                             and (repo.helper_width(avp.mod, r.value.func.id) or (None,))[0] == 3 for r in rets)
    ctx.decide(okw, "R-WIDTH/length", f"{avp.qual}.length", avp.where(lg), "length is returned as 3 octets",
               "AVP Length is not produced as a 3-octet value", key="width")
    # the base length is len(data)
    src = ast.unparse(lg)
    ctx.decide("len(self.data)" in src, "R-FLOW/length-data", f"{avp.qual}.length", avp.where(lg), "length counts len(data)",
               "AVP Length is not derived from len(self.data)", key="len_data", nontrivial=False)

    # ---- 4 padding ------------------------------------------------------------------------------
    ctx.clause = "4-padding-residues"
    _padding(ctx, repo, avp)

    # ---- 5 message length bookkeeping --------------------------------------------------------------
    ctx.clause = "5-message-length"
    _message_length(ctx, repo, msg)

    # a constructor that receives AVPs adds their lengths to the header it is given (loaded=False): handing it the header OBJECT of
    # an existing message counts that message's AVPs twice and leaves both messages sharing one header
    reuse = []
    for fname, fn_ in sorted(msg.methods.items()):
        for c_ in fn_calls(fn_):
            if call_name(c_) in ("cls", "DiameterMessage", "DiameterRequest", "DiameterAnswer") and kwarg(c_, "header") is not None \
                    and kwarg(c_, "avps") is not None:
                h_ = kwarg(c_, "header")
                lo_ = kwarg(c_, "loaded")
                if isinstance(h_, ast.Attribute) and h_.attr in ("header", "_header") \
                        and not (isinstance(lo_, ast.Constant) and lo_.value is True) and call_name(c_) in ("cls", "DiameterMessage"):
                    reuse.append((fname, c_))
    ctx.decide(not reuse, "R-FLOW/ctor-header-reuse", f"{msg.qual}.{reuse[0][0] if reuse else '*'}", msg.where(reuse[0][1] if reuse else None),
               "no message is constructed around the header object of another message together with its AVPs",
               f"`{ast.unparse(reuse[0][1])[:70] if reuse else ''}` builds a message around another message's header object and appends the "
               f"AVPs again: the Message Length counts every AVP twice (in both messages, which now share the header)",
               key="header_reuse")
    # incremental length adjustments anywhere in DiameterMessage use length + padding (shared with C11 clause 4)
    from .c11 import length_arith_all
    length_arith_all(ctx, repo, msg)
    # the bookkeeping of cleanup() (used by the avps setter) only subtracts the AVPs whose names its key filter selects: it must
    # select every name append can create (shared with C11)
    from .c11 import cleanup_names
    cleanup_names(ctx, repo, msg, ctx.need(repo.cls("bromelia.types.GroupedType"), "GroupedType"))

    # ---- 5b accessor agreement (what the bookkeeping adds is what dump() emits) ------------------------------
    ctx.clause = "5b-accessor-agreement"
    acc = [(avp, "get_length", ["int.from_bytes(self.length, byteorder='big')"]),
           (avp, "__len__", ["self.get_length()"]),
           (hdr, "get_length", ["int.from_bytes(self.length, byteorder='big')"]),
           (msg, "get_length", ["int.from_bytes(self.header.length, byteorder='big')", "self.header.get_length()"])]
    for ci, name, wants in acc:
        fn = ctx.need(ci.methods.get(name), f"{ci.name}.{name}")
        rets = [ast.unparse(n.value) for n in walk_no_nested(fn) if isinstance(n, ast.Return) and n.value is not None]
        ctx.decide(len(rets) == 1 and rets[0] in wants, "R-SIB/accessor", f"{ci.qual}.{name}", ci.where(fn),
                   f"{name} returns {rets[0] if rets else None}",
                   f"{ci.name}.{name} returns {rets}: the length used by the bookkeeping is not the big-endian value of the length field",
                   key=name)
    padding_accessor(ctx, repo, avp)

    # ---- 5c flag bits -----------------------------------------------------------------------------------------------
    ctx.clause = "5c-flag-bits"
    for ci, table in ((avp, {"flag_vendor_id_bit": 0x80, "flag_mandatory_bit": 0x40, "flag_protected_bit": 0x20}),
                      (hdr, {"flag_request_bit": 0x80, "flag_proxiable_bit": 0x40, "flag_error_bit": 0x20, "flag_retransmitted": 0x10})):
        for name, val in table.items():
            v = repo.fold_class_attr(ci, name)
            ctx.decide(v == bytes([val]), "R-TABLE/flag-bits", f"{ci.qual}.{name}", ci.where(), f"{name} == 0x{val:02x}",
                       f"{name} folds to {v!r}; RFC 6733 says 0x{val:02x}", key=name)
    fam = {avp: {"vendor_id": "flag_vendor_id_bit", "mandatory": "flag_mandatory_bit", "protected": "flag_protected_bit"},
           hdr: {"request": "flag_request_bit", "proxiable": "flag_proxiable_bit", "error": "flag_error_bit", "retransmitted": "flag_retransmitted"}}
    for ci, d in fam.items():
        for stem_, const in d.items():
            for mname in (f"set_{stem_}_bit", f"is_{stem_}"):
                fn = ci.methods.get(mname)
                if fn is None:
                    ctx.undecided("R-SIB/flag-accessor", f"{ci.qual}.{mname}", ci.where(), "accessor not found", key=mname)
                    continue
                used = {n.attr for n in ast.walk(fn) if isinstance(n, ast.Attribute) and n.attr.startswith("flag_")}
                ctx.decide(used == {const}, "R-SIB/flag-accessor", f"{ci.qual}.{mname}", ci.where(fn), f"{mname} uses {const}",
                           f"{mname} uses {sorted(used)} instead of {const}: the accessor reads/changes another flag bit", key=mname)
            sf = ci.methods.get(f"set_{stem_}_bit")
            if sf is not None:
                ops = [type(n.op).__name__ for n in ast.walk(sf) if isinstance(n, ast.BinOp) and isinstance(n.op, (ast.BitOr, ast.BitXor, ast.BitAnd))]
                ctx.decide(ops.count("BitOr") == 1 and (ops.count("BitXor") + ops.count("BitAnd")) == 1, "R-SIB/flag-accessor",
                           f"{ci.qual}.set_{stem_}_bit", ci.where(sf), "sets with OR, clears with XOR/AND",
                           f"set_{stem_}_bit combines the flags with {ops}", key=f"ops:{stem_}", nontrivial=False)

    # ---- 6 grouped --------------------------------------------------------------------------------------
    ctx.clause = "6-grouped-concatenation"
    _grouped(ctx, repo)

    # ---- 7 typed classes --------------------------------------------------------------------------------
    ctx.clause = "7-typed-header-fields"
    req, ans, rows = cmddict.command_rows(repo)
    ctx.floor("command_classes", len(rows), 50)
    for r in rows:
        if r.base_init is None:
            continue
        cc = repo.fold(r.ci.mod, r.command_code_node) if r.command_code_node is not None else None
        ctx.decide(isinstance(cc, bytes) and len(cc) == 3, "R-WIDTH/command_code", r.ci.qual, r.ci.where(r.base_init),
                   "command_code is 3 octets", f"command_code folds to {cc!r}", key="command_code", nontrivial=False)
        n = r.app_id_node
        if n is not None and not (isinstance(n, ast.Name) and n.id in r.params):
            app = repo.fold(r.ci.mod, n)
            ctx.decide(isinstance(app, bytes) and len(app) == 4, "R-WIDTH/application_id", r.ci.qual, r.ci.where(r.base_init),
                       "application_id is 4 octets",
                       f"application_id= folds to {app!r}: DiameterHeader.dump omits a None field, producing a 16-byte header "
                       f"under a Message Length that counts 20", key="application_id")


def _slice_term(repo, mod, t):
    """stream[a:b] -> (a,b); convert_to_1_byte(stream[i]) -> (i,i+1)   (terms of bsa.sym)"""
    if isinstance(t, tuple) and t and t[0] == "slice" and sym.is_int(t[2]) and sym.is_int(t[3]):
        return (t[2], t[3])
    if isinstance(t, tuple) and t and t[0] == "call" and t[1][0] == "name" and len(t[2]) == 1:
        w = repo.helper_width(mod, t[1][1])
        inner = t[2][0]
        if w and w[0] == 1 and isinstance(inner, tuple) and inner[0] == "sub" and sym.is_int(inner[2]):
            return (inner[2], inner[2] + 1)
    return None


def _header_load(ctx, repo, hdr, ld):
    """the slices of the stream feeding cls(<field>=...) must be contiguous and cover [0,20) with the setter widths in order.
    Decided on the terms the constructor call receives, so temporaries and spelling do not matter."""
    it = sym.Interp(fold=lambda e: repo.fold(hdr.mod, e))
    rets = [p_ for p_ in it.run(strip_doc(ld.body)) if p_.term == "return"]
    rets = [p_ for p_ in rets if isinstance(p_.value, tuple) and p_.value and p_.value[0] == "call"]
    if len(rets) != 1:
        ctx.undecided("R-TABLE/layout", f"{hdr.qual}.load", hdr.where(ld), f"{len(rets)} constructor calls returned", key="load")
        return
    got = {k: _slice_term(repo, hdr.mod, v) for k, v in rets[0].value[3]}
    pos = 0
    for f, w in HDR:
        sl = got.get(f)
        ctx.decide(sl == (pos, pos + w), "R-TABLE/layout", f"{hdr.qual}.load", hdr.where(ld), f"{f} <- stream[{pos}:{pos+w}]",
                   f"{f} is read from stream{list(sl) if sl else sl} but dump() writes it at [{pos}:{pos+w}]", key=f"load:{f}")
        pos += w


def avp_loop_paths(repo, avp, ld, residue=None):
    """One iteration of the AVP reader loop as term paths.  I = index at the AVP start, L = the integer read from
    the length field (any int.from_bytes / convert_to_integer_from_bytes of stream[I+5:I+8]); with `residue`
    the assumption L % 4 == residue is applied.  -> (loop, paths, index name, object name)"""
    loops = [n for n in walk_no_nested(ld) if isinstance(n, ast.While)]
    if not loops:
        return None
    loop = loops[0]
    idx = None
    for n in ast.walk(loop.test):
        if isinstance(n, ast.Name) and any(isinstance(x, (ast.Assign, ast.AugAssign)) and any(
                isinstance(t, ast.Name) and t.id == n.id for t in (x.targets if isinstance(x, ast.Assign) else [x.target]))
                for x in ast.walk(loop)):
            idx = n.id
    if idx is None:
        return None
    I, L = sym.S("int:I"), sym.S("int:L")

    def hook(t):
        if isinstance(t, tuple) and t and t[0] == "call" and len(t[2]) >= 1:
            f = t[1]
            if f == ("attr", ("name", "int"), "from_bytes") or (f[0] == "name" and "integer_from_bytes" in f[1]):
                a = t[2][0]
                if isinstance(a, tuple) and a[0] == "slice" and a[2] == sym.add(I, 5) and a[3] == sym.add(I, 8):
                    return L
        if residue is not None and isinstance(t, tuple) and t and t[0] == "mod" and t[1] == L and t[2] == 4:
            return residue
        return None
    it = sym.Interp(fold=lambda e: repo.fold(avp.mod, e), hook=hook)
    paths = it.loop_body(loop, {idx: I, "stream": sym.S("stream")})
    obj = None
    for p_ in paths:
        for k in p_.env:
            if k.endswith("._code") or k.endswith(".code"):
                obj = k.rsplit(".", 1)[0]
    return loop, paths, idx, obj


def _rel(t, I, L):
    """offset of a term relative to the AVP start: I + c -> c ; I + L -> 'L' ; I + L + c -> 'L+c'"""
    if t is None or isinstance(t, (bytes, str)) or sym.lin_coef(t, I) != 1:
        return None
    rest = sym.add(t, I, -1)
    if sym.is_int(rest):
        return rest
    if sym.lin_atoms(rest) == {L} and sym.lin_coef(rest, L) == 1:
        c = sym.lin_const(rest)
        return "L" if c == 0 else f"L+{c}"
    return sym.show(rest)


def _avp_load_offsets(ctx, repo, avp):
    ld = ctx.need(avp.methods.get("load"), "DiameterAVP.load")
    construct = f"{avp.qual}.load"
    r = avp_loop_paths(repo, avp, ld)
    if r is None or r[3] is None:
        ctx.undecided("R-TABLE/layout", construct, avp.where(ld), "reader loop / index / AVP object not recognised", key="loop")
        return
    loop, paths, idx, obj = r
    I, L = sym.S("int:I"), sym.S("int:L")
    done = [p_ for p_ in paths if p_.term == "fall" and not any(c[0][0] == "exc" for c in p_.conds if isinstance(c[0], tuple))]
    if not done:
        ctx.undecided("R-TABLE/layout", construct, avp.where(ld), "no completing path through the loop body", key="loop")
        return

    def field(p_, f):
        t = p_.get(f"{obj}.{f}")
        if t is None:
            return "None"
        if isinstance(t, tuple) and t and t[0] == "slice" and t[1] == sym.S("stream"):
            return (_rel(t[2], I, L), _rel(t[3], I, L))
        if isinstance(t, tuple) and t and t[0] == "call" and len(t[2]) == 1 and isinstance(t[2][0], tuple) and t[2][0][0] == "sub"                 and t[2][0][1] == sym.S("stream") and (repo.helper_width(avp.mod, t[1][1]) or (0,))[0] == 1:
            a = _rel(t[2][0][2], I, L)
            return (a, a + 1 if isinstance(a, int) else None)
        return sym.show(t)

    def vflag(p_):
        for c, v in p_.conds:
            if "is_vendor_id" in sym.show(c) or "flag_vendor" in sym.show(c) or "128" in sym.show(c):
                if f"stream[4 + int:I]" in sym.show(c):
                    return v
        return None
    want_fixed = {"_code": (0, 4), "_flags": (4, 5), "_length": (5, 8)}
    for f, w in want_fixed.items():
        got = sorted({str(field(p_, f)) for p_ in done})
        ctx.decide(got == [str(w)], "R-TABLE/layout", construct, avp.where(ld), f"{f} read at offsets {w}",
                   f"{f} is read at offsets {got} relative to the AVP start; dump() writes it at {list(w)}", key=f"load:{f}")
    got_v = sorted({(vflag(p_), str(field(p_, "_vendor_id")), str(field(p_, "_data"))) for p_ in done}, key=str)
    want_v = sorted({(True, str((8, 12)), str((12, "L"))), (False, "None", str((8, "L")))}, key=str)
    ctx.decide([g[2] for g in got_v] == [w[2] for w in want_v] or {g[2] for g in got_v} == {w[2] for w in want_v} and len(got_v) == 2,
               "R-TABLE/layout", construct, avp.where(ld), "_data read at [12, L) with Vendor-ID and [8, L) without",
               f"_data is read at offsets {[g[2] for g in got_v]} relative to the AVP start; dump() writes it at "
               f"[(12, 'L'), (8, 'L')]", key="load:_data")
    ctx.decide({g[1] for g in got_v if g[0] is True} == {str((8, 12))} and {g[1] for g in got_v if g[0] is False} == {"None"},
               "R-TABLE/layout", construct, avp.where(ld), "_vendor_id read at [8, 12) when flagged",
               f"_vendor_id is read as {[(g[0], g[1]) for g in got_v]} (V flag, offsets); dump() writes it at [8, 12)", key="load:_vendor_id")
    ctx.decide(got_v == want_v, "R-DOM/layout", construct, avp.where(ld), "Vendor-ID is read iff the V flag of the parsed flags is set",
               f"the Vendor-ID field is not read exactly when the parsed V flag is set: (V flag, vendor, data) = {got_v}", key="vflag")


def _padding(ctx, repo, avp):
    fold = lambda e: repo.fold(avp.mod, e)
    targets = []
    pg = avp.props.get("padding", {}).get("get")
    ctx.need(pg, "DiameterAVP.padding getter")
    targets.append((avp, pg, "self.data", f"{avp.qual}.padding"))
    oc = ctx.need(repo.cls("bromelia.types.OctetStringType"), "OctetStringType")
    sp = ctx.need(oc.methods.get("set_padding"), "OctetStringType.set_padding")
    targets.append((oc, sp, "self.data", f"{oc.qual}.set_padding"))
    n_inst = 0
    # writers on terms: len(data) = 4K + r (and the empty case); the padding produced must be the p < 4 with (r + p) % 4 == 0
    K_ = sym.S("int:K")
    for ci, fn, dataexpr, construct in targets:
        DATA_T = ("attr", ("name", "self"), dataexpr.split(".", 1)[1])
        LEN_T = ("call", ("name", "len"), (DATA_T,), ())
        for r in range(4):
            for nonempty in ((False, True) if r == 0 else (True,)):
                def hook(t, r=r, nonempty=nonempty):
                    if t == LEN_T:
                        return sym.mk_lin(r, {K_: 4}) if nonempty else 0
                    if t == DATA_T and not nonempty:
                        return b""
                    return None
                st0 = sym.PathState({}, [(DATA_T, True)] if nonempty else [], [])
                try:
                    res = sym.Interp(fold=fold, hook=hook).run(strip_doc(fn.body), st0)
                except sym.TooMany:
                    ctx.undecided("R-RES4", construct, ci.where(fn), "too many paths", key=f"res:{r}")
                    continue
                for p_ in res:
                    if p_.term == "raise":
                        continue
                    n_inst += 1
                    val = p_.value if p_.term == "return" else None
                    if p_.term == "fall" and fn.name == "set_padding":
                        val = p_.get("self._padding", p_.get("self.padding", None))
                    if val is None:
                        pl = 0
                    elif isinstance(val, bytes):
                        pl = len(val) if not val.strip(b"\x00") else None
                    else:
                        pl = None
                    if pl is None:
                        ctx.undecided("R-RES4", construct, ci.where(fn), f"residue {r}: result `{sym.show(val)[:50]}` not evaluable", key=f"res:{r}")
                        continue
                    ok = (r + pl) % 4 == 0 and pl < 4 and (nonempty or pl == 0)
                    ctx.decide(ok, "R-RES4", construct, ci.where(fn), f"len%4={r}: padding {pl}",
                               f"for len(data) % 4 == {r}{'' if nonempty else ' (empty data)'} the padding is {pl} zero octet(s): (r + p) % 4 != 0 "
                               f"or p >= 4 - the AVP is not padded to a 4-octet boundary with fewer than 4 zero octets", key=f"res:{r}")
    # reader: for every residue of the length the index advances to the next 4-octet boundary after the AVP
    ld = avp.methods.get("load")
    I, L = sym.S("int:I"), sym.S("int:L")
    for r in range(4):
        lp = avp_loop_paths(repo, avp, ld, residue=r)
        if lp is None:
            ctx.undecided("R-RES4", f"{avp.qual}.load", avp.where(ld), "reader loop not recognised", key="loop")
            break
        loop, paths, idx, obj = lp
        done = [p_ for p_ in paths if p_.term in ("fall", "continue")
                and not any(isinstance(c[0], tuple) and c[0][0] == "exc" and c[0][1] == "IndexError" for c in p_.conds)]
        if not done:
            ctx.undecided("R-RES4", f"{avp.qual}.load", avp.where(ld), "no completing path", key=f"res:{r}")
        adv = set()
        for p_ in done:
            n_inst += 1
            d = sym.add(p_.get(idx), sym.add(I, L), -1)
            adv.add(d if sym.is_int(d) else sym.show(p_.get(idx)))
        for d in sorted(adv, key=str):
            if not sym.is_int(d):
                ctx.violate("R-RES4/advance", f"{avp.qual}.load", avp.where(loop),
                            f"reader advances the index to `{d}` instead of start + length + padding", key="advance")
                continue
            ctx.decide((r + d) % 4 == 0 and 0 <= d < 4, "R-RES4", f"{avp.qual}.load", avp.where(loop),
                       f"AVP length%4={r}: reader skips {d}",
                       f"for AVP length % 4 == {r} the reader skips {d} padding octets: the next AVP is parsed at a "
                       f"misaligned offset", key=f"res:{r}")
    else:
        ctx.hold("R-RES4/advance", f"{avp.qual}.load", avp.where(ld), "index advances by length + padding on every completing path",
                 key="advance")
    ctx.count("residue_instances", n_inst)


def _message_length(ctx, repo, msg):
    ap = ctx.need(msg.methods.get("append"), "DiameterMessage.append")
    construct = f"{msg.qual}.append"
    pn = [a.arg for a in ap.args.args if a.arg != "self"][0]
    # on the terms of every completing path: a message that was not decoded gets old + L + P stored (3 octets), a decoded
    # one keeps the length it had on the wire
    OLD, Lx, Px = sym.S("int:old"), sym.S("int:L"), sym.S("int:P")

    def run_append(pad):
        def hook(t):
            if t == ("call", ("attr", ("attr", ("name", "self"), "header"), "get_length"), (), ()):
                return OLD
            if t in (("call", ("attr", sym.S(pn), "get_length"), (), ()), ("call", ("name", "len"), (sym.S(pn),), ())):
                return Lx
            if t == ("call", ("attr", sym.S(pn), "get_padding_length"), (), ()):
                return pad
            return None
        it = sym.Interp(fold=lambda e: repo.fold(msg.mod, e), hook=hook)
        return it.run(strip_doc(ap.body), sym.PathState({pn: sym.S(pn)}, [], []))
    n_unl = 0
    for pad in (3, 1, 0):
        for p_ in run_append(pad):
            if p_.term == "raise":
                continue
            loaded = [tv for c, tv in p_.conds if sym.show(c) in ("self._loaded", "self.loaded")]
            st_ = [e for e in p_.effects if e[0] == "store" and e[1] == "self.header.length"]
            if loaded == [True]:
                continue
            n_unl += 1
            if not st_:
                ctx.violate("R-FLOW/append-length", construct, msg.where(ap), "append does not store a new Message Length for a message "
                            "that was not decoded: the length no longer equals the serialised size", key="append_len")
                continue
            v = st_[-1][2]
            arg = v[2][0] if isinstance(v, tuple) and v and v[0] == "call" and len(v[2]) == 1 else v
            want = sym.add(sym.add(OLD, Lx), pad)
            ctx.decide(arg == want, "R-FLOW/append-length", construct, msg.where(st_[-1][3]),
                       f"padding {'present' if pad else 'absent'}: Message Length = old + AVP length{' + padding' if pad else ''}",
                       f"for an AVP {'with' if pad else 'without'} padding append sets the Message Length to `{sym.show(arg)}` instead of "
                       f"old + AVP length{' + padding' if pad else ''}: the length no longer equals the serialised size",
                       key=f"append:pad{pad}")
    if n_unl == 0:
        ctx.undecided("R-FLOW/append-length", construct, msg.where(ap), "no path for a message that was not decoded", key="loaded")
    # refresh, on terms: the total starts from the 20-octet header, one iteration over the listed AVPs adds the AVP's length plus its
    # padding (nothing when there is none), and the total is what is stored (temporaries and helpers do not matter)
    rf = ctx.need(msg.methods.get("refresh"), "DiameterMessage.refresh")
    loop = next((s_ for s_ in walk_no_nested(rf) if isinstance(s_, ast.For)), None)
    fold_ = lambda e: repo.fold(msg.mod, e)
    ok_sum = False
    if loop is not None and isinstance(loop.target, ast.Name):
        tv = loop.target.id
        pre = []
        for st_ in strip_doc(rf.body):
            if st_ is loop or any(x is loop for x in ast.walk(st_)):
                break
            pre.append(st_)
        pre_paths = [q for q in sym.Interp(fold=fold_).run(pre, sym.PathState({}, [], [])) if q.term == "fall"]
        env0 = pre_paths[0].env if len(pre_paths) == 1 else {}
        accs = [k for k, v in env0.items() if sym.is_int(v) and not isinstance(v, bool) and "." not in k
                and any(isinstance(x, ast.Name) and x.id == k and isinstance(x.ctx, ast.Store) for b_ in loop.body for x in ast.walk(b_))]
        start = env0.get(accs[0]) if len(accs) == 1 else None
        ctx.decide(start == 20, "R-FLOW/refresh", f"{msg.qual}.refresh", msg.where(rf), "refresh starts from the 20-octet header",
                   f"refresh starts the total from {start}, the header is 20 octets", key="refresh_start")
        if len(accs) == 1:
            acc = accs[0]
            A, AV, Lx = sym.S("int:A"), sym.S(tv), sym.S("int:L")
            PADT = ("call", ("attr", AV, "get_padding_length"), (), ())

            def hk(t):
                if t in (("call", ("attr", AV, "get_length"), (), ()), ("call", ("name", "len"), (AV,), ())):
                    return Lx
                return None
            it_ok = ast.unparse(loop.iter) in ("self.avps", "self._avps")
            rows = []
            pad_counted = False
            for p_ in sym.Interp(fold=fold_, hook=hk).loop_body(loop, {acc: A, tv: AV}):
                if p_.term not in ("fall", "continue"):
                    rows.append((None, f"iteration ends with {p_.term}"))
                    continue
                padded = [tv_ for c, tv_ in p_.conds if c == PADT or c == ("cmp", "Is", PADT, None) or c == ("cmp", "Gt", PADT, 0)]
                has_pad = None
                for c, tv_ in p_.conds:
                    if c == PADT or c == ("cmp", "Gt", PADT, 0):
                        has_pad = tv_
                    elif c == ("cmp", "Is", PADT, None):
                        has_pad = not tv_
                delta = sym.add(p_.get(acc), A, -1)
                want = sym.add(Lx, PADT) if has_pad else Lx
                # (`pad or 0` as a value: the padding when there is one, 0 for None / 0)
                good = delta == want or (has_pad is None and delta in (sym.add(Lx, PADT), sym.add(Lx, ("or", (PADT, 0)))))
                rows.append((has_pad, sym.show(delta)))
                if good and has_pad is not False and delta != Lx:
                    pad_counted = True
                ctx.decide(good, "R-FLOW/refresh", f"{msg.qual}.refresh", msg.where(loop),
                           f"refresh adds the AVP length{' + padding' if has_pad else ''}",
                           f"for an AVP {'with' if has_pad else 'without'} padding refresh adds `{sym.show(delta)}` instead of the AVP length"
                           f"{' + its padding' if has_pad else ''}", key=f"refresh:{'pad' if has_pad else 'nopad'}")
            ctx.decide(pad_counted, "R-FLOW/refresh", f"{msg.qual}.refresh", msg.where(loop), "the padding of an AVP is counted",
                       f"no iteration of refresh adds the AVP's padding (per-iteration increments: {[r_[1] for r_ in rows]}): the Message "
                       "Length misses the padding octets that dump() emits", key="refresh:pad-counted")
            ok_sum = it_ok and bool(rows)
    ctx.decide(ok_sum, "R-FLOW/refresh", f"{msg.qual}.refresh", msg.where(rf),
               "refresh sums length + padding over every listed AVP", "refresh does not sum length + padding over self.avps",
               key="refresh_sum")
    st = [s_ for s_ in ast.walk(rf) if isinstance(s_, ast.Assign) and ast.unparse(s_.targets[0]) == "self.header.length"]
    ctx.decide(bool(st) and loop is not None and ok_sum and any(isinstance(x, ast.Name) and x.id == acc for x in ast.walk(st[0].value)),
               "R-FLOW/refresh", f"{msg.qual}.refresh",
               msg.where(rf), "refresh stores the recomputed total", "refresh does not store the recomputed total", key="refresh_store",
               nontrivial=False)
    # dump
    dp = ctx.need(msg.methods.get("dump"), "DiameterMessage.dump")
    # one alternative per way through the `if`s that contain a return (an early exit for the empty list is the same emission:
    # the iteration over an empty list contributes nothing)
    import copy as _copy

    def _has_ret(ss):
        return any(isinstance(n_, ast.Return) for s_ in ss for n_ in ast.walk(s_))

    def _lin(stmts):
        for i_, s_ in enumerate(stmts):
            if isinstance(s_, ast.If) and (_has_ret(s_.body) or _has_ret(s_.orelse)):
                out_ = []
                for g_, br_ in ((ast.unparse(s_.test), s_.body), (f"not ({ast.unparse(s_.test)})", s_.orelse)):
                    tail_ = list(br_) + ([] if br_ and isinstance(br_[-1], ast.Return) else list(stmts[i_ + 1:]))
                    for g2_, rest_ in _lin(tail_):
                        out_.append(([g_] + g2_, list(stmts[:i_]) + rest_))
                return out_
        return [([], list(stmts))]
    alts = []
    for guards_, stmts_ in _lin([s_ for s_ in dp.body]):
        f2 = _copy.copy(dp)
        f2.body = stmts_
        alts.append((guards_, concat_order(f2) or []))
    empty_guards = {"not (self.avps)", "not (self._avps)", "not self.avps", "not self._avps"}
    nonempty = {"self.avps", "self._avps"}

    _once = {}
    for n_ in ast.walk(dp):
        if isinstance(n_, ast.Assign) and len(n_.targets) == 1 and isinstance(n_.targets[0], ast.Name):
            _once.setdefault(n_.targets[0].id, []).append(ast.unparse(n_.value))
    _augs = {n_.target.id for n_ in ast.walk(dp) if isinstance(n_, ast.AugAssign) and isinstance(n_.target, ast.Name)}

    def _alt_ok(guards_, got_):
        # a piece that is a local bound exactly once (and never extended) stands for its value
        got_ = [(_once[e_][0], g_) if e_ in _once and len(_once[e_]) == 1 and e_ not in _augs else (e_, g_) for e_, g_ in got_]
        strip = lambda g: next((g[len(n_) + 5:] for n_ in nonempty if g and g.startswith(n_ + " and ")), g)
        full = len(got_) == 2 and got_[0] == ("self.header.dump()", None) and got_[1][0].endswith(".dump()") and \
            strip(got_[1][1]) in ("for avp in self.avps", "for avp in self._avps")
        only_header = got_ == [("self.header.dump()", None)] and any(g in empty_guards for g in guards_)
        return full or only_header
    ok = bool(alts) and all(_alt_ok(g_, o_) for g_, o_ in alts) and any(len(o_) == 2 for _, o_ in alts)
    got = [o_ for _, o_ in alts]
    ctx.decide(ok, "R-TABLE/layout", f"{msg.qual}.dump", msg.where(dp),
               "header.dump() then every listed AVP's dump() in list order",
               f"message dump concatenates {got}: expected the header followed by a plain iteration over the AVP list",
               key="dump_order")
    # avps getter returns the list in order
    g = msg.props.get("avps", {}).get("get")
    if g is not None:
        rets = [ast.unparse(n.value) for n in ast.walk(g) if isinstance(n, ast.Return) and n.value is not None]
        ctx.decide(rets in (["list(self._avps)"], ["self._avps"], ["self._avps[:]"], ["tuple(self._avps)"]), "R-TABLE/layout",
                   f"{msg.qual}.avps", msg.where(g), "avps view preserves list order",
                   f"the avps view returns {rets}, not the AVP list in order", key="avps_getter")


def _rewrite_store(s, target_text, newname):
    import copy
    s = copy.deepcopy(s)

    class T(ast.NodeTransformer):
        def visit_Assign(self, node):
            self.generic_visit(node)
            if len(node.targets) == 1 and ast.unparse(node.targets[0]) == target_text:
                node.targets = [ast.Name(id=newname, ctx=ast.Store())]
                v = node.value
                if isinstance(v, ast.Call) and isinstance(v.func, ast.Name) and v.func.id.startswith("convert_to_") \
                        and len(v.args) == 1:
                    node.value = v.args[0]       # width of the store is clause 1's business
            return node
    return ast.fix_missing_locations(T().visit(s))


def _grouped(ctx, repo):
    g = ctx.need(repo.cls("bromelia.types.GroupedType"), "GroupedType")
    ap = ctx.need(g.methods.get("append"), "GroupedType.append")
    pn = [a.arg for a in ap.args.args if a.arg != "self"][0]
    cfg = make_cfg(repo, ap)

    def is_list_app(n):
        return n.kind == "stmt" and ast.unparse(n.ast) == f"self._avps.append({pn})"

    def is_data_app(n):
        return n.kind == "stmt" and ast.unparse(n.ast) in (f"self._data += {pn}.dump()", f"self._data = self._data + {pn}.dump()")
    ok = must_pass(cfg, is_list_app) and must_pass(cfg, is_data_app)
    ctx.decide(ok, "R-MUSTPASS/grouped-append", f"{g.qual}.append", g.where(ap),
               "every normal path appends the member to the list and its encoding to the data",
               "GroupedType.append can return without appending the member to `_avps` and its dump() to `_data`: the Grouped "
               "data is no longer the concatenation of its members", key="append")
    # every other writer of the Grouped data buffer re-derives it as the concatenation of the members' encodings
    n_w = 0
    for mname, fn in sorted(g.methods.items()):
        for st_ in [x for x in walk_no_nested(fn) if isinstance(x, (ast.Assign, ast.AugAssign))]:
            tgt = st_.targets[0] if isinstance(st_, ast.Assign) else st_.target
            if ast.unparse(tgt) != "self._data":
                continue
            n_w += 1
            txt = ast.unparse(st_)
            okw = False
            if isinstance(st_, ast.AugAssign) and isinstance(st_.op, ast.Add) and ast.unparse(st_.value).endswith(".dump()"):
                v = st_.value.func.value
                # appended encoding belongs to a listed member: the appended parameter, or the loop variable over self.avps
                okw = isinstance(v, ast.Name)
            elif txt in ("self._data = b''",):
                okw = True
            elif mname == "__init__" and txt == "self._data = data":
                okw = True
            ctx.decide(okw, "R-CONSERVE/grouped-data", f"{g.qual}.{mname}", g.where(st_),
                       f"`{txt}` keeps the buffer equal to the concatenation of the members' dump()",
                       f"`{txt[:90]}` edits the cached Grouped data other than by (re)concatenating whole member encodings: offsets "
                       f"computed from AVP lengths ignore padding, so the data is no longer the concatenation of the members",
                       key=f"data:{mname}:{txt[:40]}")
        # a reset must be followed by a rebuild loop over the members in the same method (pop / __setitem__) unless the list is reset too
        resets = [x for x in walk_no_nested(fn) if isinstance(x, ast.Assign) and ast.unparse(x) == "self._data = b''"]
        if resets and mname not in ("cleanup", "__init__"):
            from ..astutil import rebuilds_from_members
            okr = rebuilds_from_members(fn)
            ctx.decide(okr, "R-CONSERVE/grouped-data", f"{g.qual}.{mname}", g.where(resets[0]),
                       "reset is followed by a rebuild from the listed members", "the Grouped data is reset without being rebuilt",
                       key=f"rebuild:{mname}")
    ctx.floor("grouped_data_writers", n_w, 5)
    # removal re-derives the buffer
    gp = g.methods.get("pop")
    if gp is not None:
        from ..astutil import rebuilds_from_members
        ctx.decide(rebuilds_from_members(gp), "R-CONSERVE/grouped-data", f"{g.qual}.pop", g.where(gp),
                   "pop rebuilds the data from the remaining members",
                   "GroupedType.pop does not rebuild `_data` from the remaining members: the data keeps (part of) the removed member",
                   key="pop_rebuild")
    # list constructor routes members through append
    ini = ctx.need(g.methods.get("__init__"), "GroupedType.__init__")
    lb = None
    for n in walk_no_nested(ini):
        if isinstance(n, ast.If) and ast.unparse(n.test) == "isinstance(data, list)":
            lb = n
    if lb is None:
        ctx.undecided("R-MUSTPASS/grouped-ctor", f"{g.qual}.__init__", g.where(ini), "no list branch", key="list")
        return
    src = [ast.unparse(s) for s in lb.body]
    reset = "self._data = b''" in src
    routed = "self.avps = data" in src or any(s.startswith("self.extend(data)") for s in src) or \
        any("self.append(" in s for s in src)
    ctx.decide(reset and routed, "R-MUSTPASS/grouped-ctor", f"{g.qual}.__init__", g.where(lb),
               "list input: data starts empty and every member goes through append",
               "list input is not routed through append from an empty data buffer", key="list_ctor")
    st = g.props.get("avps", {}).get("set")
    if st is not None:
        s2 = ast.unparse(st)
        ctx.decide("self.cleanup()" in s2 and "self.append(value[0])" in s2 and "self.extend(value)" in s2,
                   "R-MUSTPASS/grouped-ctor", f"{g.qual}.avps[setter]", g.where(st), "avps setter = cleanup + append/extend",
                   "the avps setter does not rebuild the members through append/extend", key="avps_setter")
    ex = g.methods.get("extend")
    if ex is not None:
        s2 = ast.unparse(ex)
        ctx.decide("self.append(" in s2 and "for " in s2, "R-MUSTPASS/grouped-ctor", f"{g.qual}.extend", g.where(ex),
                   "extend appends each member in order", "extend does not append each member", key="extend", nontrivial=False)


def padding_accessor(ctx, repo, avp):
    """get_padding_length() - what refresh/append/pop add to the Message Length - is len(self.padding), what dump() emits"""
    gp = ctx.need(avp.methods.get("get_padding_length"), "DiameterAVP.get_padding_length")
    rows = set()
    for p_ in sym.Interp().run(strip_doc(gp.body)):
        tv = p_.cond_truth(lambda t: sym.show(t) in ("self.padding", "(self.padding Is None)"))
        if tv is not None and any(sym.show(c) == "(self.padding Is None)" for c, _ in p_.conds):
            tv = not tv
        rows.add((tv, sym.show(p_.value) if p_.term == "return" and p_.value is not None else "None"))
    okp = (True, "len(self.padding)") in rows and len(rows) == 2
    tail = [[r[1]] for r in rows if r[0] is False][:1]
    tail = tail[0] if tail else []
    ctx.decide(okp and tail in (["None"], ["0"]), "R-SIB/accessor", f"{avp.qual}.get_padding_length", avp.where(gp),
               "get_padding_length is len(padding) when there is padding, else nothing",
               "get_padding_length does not return len(self.padding) (None/0 without padding): Message Length bookkeeping and dump() "
               "disagree on the padding", key="get_padding_length")
