"""C01 - serialised messages are exactly the RFC 6733 encoding of their content (layout skeleton)."""
import ast

from ..astutil import make_cfg, call_name, fn_calls, must_pass, node_calls, walk_no_nested, kwarg
from ..absval import WidthAnalysis, B, NONE
from ..minieval import ev, truth, UNK
from ..loader import is_unknown
from .. import cmddict

META = {
    "explanation": "Structural skeleton every serialised value passes through: abstract byte width of every store in the 11 "
                   "fixed-width setters against the RFC 6733 table and the repo's own *_FIELD constants; writer/reader layout "
                   "agreement (concatenation order of DiameterHeader.dump / DiameterAVP.dump vs the slices of the two load "
                   "functions); vendor-field/length coupling; padding over the four residues of len(data) mod 4 (abstract "
                   "interpretation); Message Length bookkeeping sites (append / refresh / dump order / _load refresh); Grouped "
                   "data = concatenation of members through append; typed classes never hand a width-less header field.",
    "decided": ["field widths", "header/AVP layout order and writer=reader", "vendor/length coupling", "padding over residues",
                "length bookkeeping sites", "grouped concatenation", "no None header field in typed classes"],
    "not_decided": ["the bytes of the data field for particular values (typed encoders of int/str/time/address values), i.e. "
                    "equality with a reference encoder over generated content"],
    "trusted_base": ["Python ast", "constant folder", "abstract width dataflow", "RFC 6733 section 3/4 layout table frozen in the checker"],
    "assumptions": ["V flag <=> Vendor-ID for dictionary classes is C10 clause 4"],
}

HDR = [("version", 1), ("length", 3), ("flags", 1), ("command_code", 3), ("application_id", 4),
       ("hop_by_hop", 4), ("end_to_end", 4)]
AVP = [("code", 4), ("flags", 1), ("length", 3), ("vendor_id", 4)]
HDR_CONST = {"version": "DIAMETER_VERSION_FIELD", "length": "DIAMETER_LENGTH_FIELD", "flags": "DIAMETER_FLAG_FIELD",
             "command_code": "DIAMETER_COMMAND_CODE_FIELD", "application_id": "DIAMETER_APPLICATION_ID_FIELD",
             "hop_by_hop": "DIAMETER_HOP_BY_HOP_FIELD", "end_to_end": "DIAMETER_END_TO_END_FIELD"}
AVP_CONST = {"code": "AVP_CODE_FIELD", "flags": "AVP_FLAG_FIELD", "length": "AVP_LENGTH_FIELD", "vendor_id": "AVP_VENDOR_ID_FIELD"}


def concat_order(fn, var=None):
    """Sequence of (expr text, guard text|None) concatenated into the returned stream."""
    rets = [n for n in walk_no_nested(fn) if isinstance(n, ast.Return) and n.value is not None]
    if len(rets) != 1:
        return None
    rv = rets[0].value
    seq = []

    def flat(e, guard):
        if isinstance(e, ast.BinOp) and isinstance(e.op, ast.Add):
            flat(e.left, guard)
            flat(e.right, guard)
        elif isinstance(e, ast.Call) and isinstance(e.func, ast.Attribute) and e.func.attr == "join" \
                and e.args and isinstance(e.args[0], (ast.List, ast.Tuple)):
            for x in e.args[0].elts:
                flat(x, guard)
        else:
            seq.append((ast.unparse(e), guard))
    if isinstance(rv, ast.Name):
        var = rv.id
    else:
        flat(rv, None)
        return seq

    def walk(stmts, guard):
        for s in stmts:
            if isinstance(s, ast.Assign) and len(s.targets) == 1 and isinstance(s.targets[0], ast.Name) and s.targets[0].id == var:
                if seq and not (isinstance(s.value, ast.BinOp) and ast.unparse(s.value).startswith(var + " +")):
                    seq.append(("<RESET>", guard))
                flat(s.value, guard)
                if seq and seq[0][0] == var:
                    pass
            elif isinstance(s, ast.AugAssign) and isinstance(s.target, ast.Name) and s.target.id == var and isinstance(s.op, ast.Add):
                flat(s.value, guard)
            elif isinstance(s, ast.If):
                g = ast.unparse(s.test)
                walk(s.body, g if guard is None else f"{guard} and {g}")
                if s.orelse:
                    walk(s.orelse, f"not ({g})")
            elif isinstance(s, ast.For):
                walk(s.body, f"for {ast.unparse(s.target)} in {ast.unparse(s.iter)}")
    walk(fn.body, None)
    return [x for x in seq if x[0] != var]


def run_paths(stmts, env, special, fold):
    """Execute a loop-free statement list abstractly; yields (env, 'return'|'fall', value)."""
    def seq(ss, env):
        if not ss:
            yield env, "fall", None
            return
        s, rest = ss[0], ss[1:]
        if isinstance(s, ast.Assign) and len(s.targets) == 1 and isinstance(s.targets[0], ast.Name):
            e2 = dict(env)
            e2[s.targets[0].id] = ev(s.value, env, special, fold)
            yield from seq(rest, e2)
        elif isinstance(s, ast.AugAssign) and isinstance(s.target, ast.Name):
            e2 = dict(env)
            b = ast.BinOp(left=ast.Name(id=s.target.id, ctx=ast.Load()), op=s.op, right=s.value)
            e2[s.target.id] = ev(b, env, special, fold)
            yield from seq(rest, e2)
        elif isinstance(s, ast.If):
            c = ev(s.test, env, special, fold)
            branches = []
            if c is UNK:
                branches = [s.body, s.orelse]
            else:
                branches = [s.body if truth(c) else s.orelse]
            for b in branches:
                for env2, term, val in seq(list(b), env):
                    if term == "fall":
                        yield from seq(rest, env2)
                    else:
                        yield env2, term, val
        elif isinstance(s, ast.Return):
            yield env, "return", (ev(s.value, env, special, fold) if s.value is not None else None)
        elif isinstance(s, ast.Raise):
            yield env, "raise", None
        else:
            yield from seq(rest, env)
    yield from seq(list(stmts), env)


def check(ctx):
    repo = ctx.repo
    bm = ctx.need(repo.mods.get("bromelia.base"), "module bromelia.base")
    hdr = ctx.need(repo.cls("bromelia.base.DiameterHeader"), "DiameterHeader")
    avp = ctx.need(repo.cls("bromelia.base.DiameterAVP"), "DiameterAVP")
    msg = ctx.need(repo.cls("bromelia.base.DiameterMessage"), "DiameterMessage")
    fold_name = lambda n: repo.fold(bm, ast.Name(id=n, ctx=ast.Load()))

    # ---- 1 field widths -------------------------------------------------------------
    ctx.clause = "1-field-widths"
    nset = 0
    for ci, table, consts in ((hdr, HDR, HDR_CONST), (avp, AVP, AVP_CONST)):
        for field, W in table:
            c = fold_name(consts[field])
            ctx.decide(c == W, "R-TABLE/field-const", f"bromelia.constants.general.{consts[field]}", "bromelia/constants/general.py",
                       f"{consts[field]} == {W}", f"{consts[field]} folds to {c}, RFC 6733 says {W}", key=consts[field],
                       nontrivial=False)
            st = ci.props.get(field, {}).get("set")
            if st is None:
                ctx.undecided("R-WIDTH/setter", f"{ci.qual}.{field}[setter]", ci.where(), "setter not found", key="setter")
                continue
            nset += 1
            wa = WidthAnalysis(repo, ci.mod, st)
            stores = list(wa.stores_to((f"_{field}",)))
            if not stores:
                ctx.undecided("R-WIDTH/setter", f"{ci.qual}.{field}[setter]", ci.where(st), "no store found", key="store")
            for n, expr, val in stores:
                ok = val == B(W) or val == NONE
                ctx.decide(ok, "R-WIDTH/setter", f"{ci.qual}.{field}[setter]", ci.where(n.ast),
                           f"store has width {val}",
                           f"`{ast.unparse(n.ast)}` stores a value of abstract width {val}; the {field} field is {W} octet(s)",
                           key=n.ast)
    ctx.floor("fixed_width_setters", nset, 11)
    # the width helpers themselves: N octets, network byte order (derived from each helper's own body)
    iu = ctx.need(repo.mods.get("bromelia._internal_utils"), "module bromelia._internal_utils")
    nh = 0
    for hname, fnode in sorted(iu.funcs.items()):
        if not (hname.startswith("convert_to_") and hname.endswith(("_byte", "_bytes")) and hname.split("_")[2].isdigit()):
            continue
        nh += 1
        want_n = int(hname.split("_")[2])
        w = repo.helper_width(iu, hname)
        ctx.decide(w is not None and w[0] == want_n and w[1] == "big", "R-WIDTH/helper", f"bromelia._internal_utils.{hname}",
                   f"{iu.rel}:{fnode.lineno}", f"{hname} packs {want_n} octet(s) big-endian",
                   f"{hname} is derived as {w} from its body: expected {want_n} octet(s) in network (big-endian) byte order - every "
                   f"fixed-width header/AVP field passes through it", key=hname)
    ctx.floor("width_helpers", nh, 6)
    ib = repo.fold(iu, ast.parse("convert_to_integer_from_bytes").body[0].value)
    rf = iu.funcs.get("convert_to_integer_from_bytes")
    if rf is not None:
        src = ast.unparse(rf)
        ctx.decide("byteorder='big'" in src, "R-WIDTH/helper", "bromelia._internal_utils.convert_to_integer_from_bytes",
                   f"{iu.rel}:{rf.lineno}", "integers are read big-endian", "convert_to_integer_from_bytes does not read big-endian",
                   key="from_bytes")
    for name, want in (("DIAMETER_HEADER_LENGTH", 20), ("AVP_HEADER_LENGTH", 8), ("AVP_HEADER_LENGTH_LONGER", 12)):
        v = fold_name(name)
        ctx.decide(v == want, "R-TABLE/field-const", f"bromelia.constants.general.{name}", "bromelia/constants/general.py",
                   f"{name} == {want}", f"{name} folds to {v}, expected {want}", key=name)

    # ---- 2 layout agreement -----------------------------------------------------------
    ctx.clause = "2-layout"
    d = ctx.need(hdr.methods.get("dump"), "DiameterHeader.dump")
    order = concat_order(d)
    want = [f"self.{f}" for f, _ in HDR]
    if order is None:
        ctx.undecided("R-TABLE/layout", f"{hdr.qual}.dump", hdr.where(d), "concatenation not recognised", key="dump")
    else:
        got = [x[0] for x in order]
        ctx.decide(got == want, "R-TABLE/layout", f"{hdr.qual}.dump", hdr.where(d), "fields concatenated in RFC order",
                   f"header fields are concatenated as {got}; RFC 6733 section 3 order is {want}", key="dump_order")
        for (txt, g), (f, w) in zip(order, HDR):
            if g is not None:
                ctx.decide(g == txt, "R-DOM/layout", f"{hdr.qual}.dump", hdr.where(d), f"{f} emitted when set",
                           f"{f} is emitted under guard `{g}`", key=f"guard:{f}", nontrivial=False)
    ld = ctx.need(hdr.methods.get("load"), "DiameterHeader.load")
    _header_load(ctx, repo, hdr, ld)
    d = ctx.need(avp.methods.get("dump"), "DiameterAVP.dump")
    order = concat_order(d)
    want = ["self.code", "self.flags", "self.length", "self.vendor_id", "self.data", "self.padding"]
    if order is None:
        ctx.undecided("R-TABLE/layout", f"{avp.qual}.dump", avp.where(d), "concatenation not recognised", key="dump")
    else:
        got = [x[0] for x in order]
        ctx.decide(got == want, "R-TABLE/layout", f"{avp.qual}.dump", avp.where(d),
                   "code, flags, length, [vendor], data, padding",
                   f"AVP fields are concatenated as {got}; RFC 6733 section 4.1 order is {want}", key="dump_order")
        guards = {t: g for t, g in order}
        for f in ("self.vendor_id", "self.data", "self.padding"):
            if f in guards:
                ctx.decide(guards[f] == f, "R-DOM/layout", f"{avp.qual}.dump", avp.where(d), f"{f} emitted when present",
                           f"{f} is emitted under guard `{guards[f]}`", key=f"guard:{f}")
        for f in ("self.code", "self.flags", "self.length"):
            if f in guards:
                ctx.decide(guards[f] is None, "R-DOM/layout", f"{avp.qual}.dump", avp.where(d), f"{f} always emitted",
                           f"{f} is only emitted under `{guards[f]}`", key=f"guard:{f}", nontrivial=False)
    _avp_load_offsets(ctx, repo, avp)

    # ---- 3 vendor/length coupling ---------------------------------------------------------
    ctx.clause = "3-vendor-length"
    lg = avp.props.get("length", {}).get("get")
    ctx.need(lg, "DiameterAVP.length getter")
    found = {}
    for n in walk_no_nested(lg):
        if isinstance(n, ast.If):
            g = ast.unparse(n.test)

            def added(stmts):
                out = []
                for s in stmts:
                    if isinstance(s, ast.AugAssign) and isinstance(s.op, ast.Add):
                        out.append(repo.fold(avp.mod, s.value))
                    elif isinstance(s, ast.Assign) and isinstance(s.value, ast.BinOp) and isinstance(s.value.op, ast.Add):
                        out.append(repo.fold(avp.mod, s.value.right))
                return out
            a, b = added(n.body), added(n.orelse)
            if a and b:
                found[g] = (a, b)
    dump_guard = None
    for t, g in (order or []):
        if t == "self.vendor_id":
            dump_guard = g
    ok = dump_guard in found and found[dump_guard] == ([12], [8])
    ctx.decide(ok, "R-DOM/vendor-length", f"{avp.qual}.length", avp.where(lg),
               "length adds 12 exactly under the predicate that emits the Vendor-ID, 8 otherwise",
               f"AVP Length adds {found} while dump() emits the Vendor-ID under `{dump_guard}`: the length field and the "
               f"emitted header disagree for some AVP", key="coupling")
    dep = any(isinstance(n, ast.Attribute) and n.attr in ("padding", "_padding", "get_padding_length") for n in ast.walk(lg))
    ctx.decide(not dep, "R-FLOW/length-no-padding", f"{avp.qual}.length", avp.where(lg), "length does not depend on padding",
               "AVP Length depends on the padding (RFC 6733: the length excludes padding)", key="no_padding")
    rets = [n for n in walk_no_nested(lg) if isinstance(n, ast.Return)]
    okw = bool(rets) and all(isinstance(r.value, ast.Call) and isinstance(r.value.func, ast.Name)
                             and (repo.helper_width(avp.mod, r.value.func.id) or (None,))[0] == 3 for r in rets)
    ctx.decide(okw, "R-WIDTH/length", f"{avp.qual}.length", avp.where(lg), "length is returned as 3 octets",
               "AVP Length is not produced as a 3-octet value", key="width")
    # the base length is len(data)
    src = ast.unparse(lg)
    ctx.decide("len(self.data)" in src, "R-FLOW/length-data", f"{avp.qual}.length", avp.where(lg), "length counts len(data)",
               "AVP Length is not derived from len(self.data)", key="len_data", nontrivial=False)

    # ---- 4 padding ------------------------------------------------------------------------------
    ctx.clause = "4-padding-residues"
    _padding(ctx, repo, avp)

    # ---- 5 message length bookkeeping --------------------------------------------------------------
    ctx.clause = "5-message-length"
    _message_length(ctx, repo, msg)

    # incremental length adjustments anywhere in DiameterMessage use length + padding (shared with C11 clause 4)
    from .c11 import length_arith_all
    length_arith_all(ctx, repo, msg)

    # ---- 5b accessor agreement (what the bookkeeping adds is what dump() emits) ------------------------------
    ctx.clause = "5b-accessor-agreement"
    acc = [(avp, "get_length", ["int.from_bytes(self.length, byteorder='big')"]),
           (avp, "__len__", ["self.get_length()"]),
           (hdr, "get_length", ["int.from_bytes(self.length, byteorder='big')"]),
           (msg, "get_length", ["int.from_bytes(self.header.length, byteorder='big')", "self.header.get_length()"])]
    for ci, name, wants in acc:
        fn = ctx.need(ci.methods.get(name), f"{ci.name}.{name}")
        rets = [ast.unparse(n.value) for n in walk_no_nested(fn) if isinstance(n, ast.Return) and n.value is not None]
        ctx.decide(len(rets) == 1 and rets[0] in wants, "R-SIB/accessor", f"{ci.qual}.{name}", ci.where(fn),
                   f"{name} returns {rets[0] if rets else None}",
                   f"{ci.name}.{name} returns {rets}: the length used by the bookkeeping is not the big-endian value of the length field",
                   key=name)
    gp = ctx.need(avp.methods.get("get_padding_length"), "DiameterAVP.get_padding_length")
    okp = False
    for iff in [x for x in walk_no_nested(gp) if isinstance(x, ast.If)]:
        if ast.unparse(iff.test) in ("self.padding", "self.padding is not None"):
            rr = [ast.unparse(s.value) for s in iff.body if isinstance(s, ast.Return) and s.value is not None]
            okp = rr == ["len(self.padding)"]
    tail = [ast.unparse(n.value) for n in gp.body if isinstance(n, ast.Return) and n.value is not None]
    ctx.decide(okp and tail in (["None"], ["0"]), "R-SIB/accessor", f"{avp.qual}.get_padding_length", avp.where(gp),
               "get_padding_length is len(padding) when there is padding, else nothing",
               "get_padding_length does not return len(self.padding) (None/0 without padding): Message Length bookkeeping and dump() "
               "disagree on the padding", key="get_padding_length")

    # ---- 5c flag bits -----------------------------------------------------------------------------------------------
    ctx.clause = "5c-flag-bits"
    for ci, table in ((avp, {"flag_vendor_id_bit": 0x80, "flag_mandatory_bit": 0x40, "flag_protected_bit": 0x20}),
                      (hdr, {"flag_request_bit": 0x80, "flag_proxiable_bit": 0x40, "flag_error_bit": 0x20, "flag_retransmitted": 0x10})):
        for name, val in table.items():
            v = repo.fold_class_attr(ci, name)
            ctx.decide(v == bytes([val]), "R-TABLE/flag-bits", f"{ci.qual}.{name}", ci.where(), f"{name} == 0x{val:02x}",
                       f"{name} folds to {v!r}; RFC 6733 says 0x{val:02x}", key=name)
    fam = {avp: {"vendor_id": "flag_vendor_id_bit", "mandatory": "flag_mandatory_bit", "protected": "flag_protected_bit"},
           hdr: {"request": "flag_request_bit", "proxiable": "flag_proxiable_bit", "error": "flag_error_bit", "retransmitted": "flag_retransmitted"}}
    for ci, d in fam.items():
        for stem_, const in d.items():
            for mname in (f"set_{stem_}_bit", f"is_{stem_}"):
                fn = ci.methods.get(mname)
                if fn is None:
                    ctx.undecided("R-SIB/flag-accessor", f"{ci.qual}.{mname}", ci.where(), "accessor not found", key=mname)
                    continue
                used = {n.attr for n in ast.walk(fn) if isinstance(n, ast.Attribute) and n.attr.startswith("flag_")}
                ctx.decide(used == {const}, "R-SIB/flag-accessor", f"{ci.qual}.{mname}", ci.where(fn), f"{mname} uses {const}",
                           f"{mname} uses {sorted(used)} instead of {const}: the accessor reads/changes another flag bit", key=mname)
            sf = ci.methods.get(f"set_{stem_}_bit")
            if sf is not None:
                ops = [type(n.op).__name__ for n in ast.walk(sf) if isinstance(n, ast.BinOp) and isinstance(n.op, (ast.BitOr, ast.BitXor, ast.BitAnd))]
                ctx.decide(ops.count("BitOr") == 1 and (ops.count("BitXor") + ops.count("BitAnd")) == 1, "R-SIB/flag-accessor",
                           f"{ci.qual}.set_{stem_}_bit", ci.where(sf), "sets with OR, clears with XOR/AND",
                           f"set_{stem_}_bit combines the flags with {ops}", key=f"ops:{stem_}", nontrivial=False)

    # ---- 6 grouped --------------------------------------------------------------------------------------
    ctx.clause = "6-grouped-concatenation"
    _grouped(ctx, repo)

    # ---- 7 typed classes --------------------------------------------------------------------------------
    ctx.clause = "7-typed-header-fields"
    req, ans, rows = cmddict.command_rows(repo)
    ctx.floor("command_classes", len(rows), 50)
    for r in rows:
        if r.base_init is None:
            continue
        cc = repo.fold(r.ci.mod, r.command_code_node) if r.command_code_node is not None else None
        ctx.decide(isinstance(cc, bytes) and len(cc) == 3, "R-WIDTH/command_code", r.ci.qual, r.ci.where(r.base_init),
                   "command_code is 3 octets", f"command_code folds to {cc!r}", key="command_code", nontrivial=False)
        n = r.app_id_node
        if n is not None and not (isinstance(n, ast.Name) and n.id in r.params):
            app = repo.fold(r.ci.mod, n)
            ctx.decide(isinstance(app, bytes) and len(app) == 4, "R-WIDTH/application_id", r.ci.qual, r.ci.where(r.base_init),
                       "application_id is 4 octets",
                       f"application_id= folds to {app!r}: DiameterHeader.dump omits a None field, producing a 16-byte header "
                       f"under a Message Length that counts 20", key="application_id")


def _header_load(ctx, repo, hdr, ld):
    """slices of `stream` feeding cls(<field>=...) must be contiguous, cover [0,20) with the setter widths in order."""
    env = {}
    for s in ld.body:
        if isinstance(s, ast.Assign) and len(s.targets) == 1 and isinstance(s.targets[0], ast.Name):
            env[s.targets[0].id] = s.value
    ret = [n for n in walk_no_nested(ld) if isinstance(n, ast.Return) and isinstance(n.value, ast.Call)]
    if not ret:
        ctx.undecided("R-TABLE/layout", f"{hdr.qual}.load", hdr.where(ld), "no constructor call returned", key="load")
        return
    call = ret[0].value
    got = {}
    for k in call.keywords:
        v = k.value
        if isinstance(v, ast.Name) and v.id in env:
            v = env[v.id]
        got[k.arg] = _slice_of(repo, hdr.mod, v)
    pos = 0
    ok_all = True
    for f, w in HDR:
        sl = got.get(f)
        ok = sl == (pos, pos + w)
        ok_all = ok_all and ok
        ctx.decide(ok, "R-TABLE/layout", f"{hdr.qual}.load", hdr.where(ld), f"{f} <- stream[{pos}:{pos+w}]",
                   f"{f} is read from stream{list(sl) if sl else sl} but dump() writes it at [{pos}:{pos+w}]", key=f"load:{f}")
        pos += w


def _slice_of(repo, mod, v):
    """stream[a:b] -> (a,b); convert_to_1_byte(stream[i]) -> (i,i+1)"""
    if isinstance(v, ast.Call) and isinstance(v.func, ast.Name) and len(v.args) == 1:
        w = repo.helper_width(mod, v.func.id)
        if w and w[0] == 1:
            inner = v.args[0]
            if isinstance(inner, ast.Subscript) and not isinstance(inner.slice, ast.Slice):
                i = repo.fold(mod, inner.slice)
                if isinstance(i, int):
                    return (i, i + 1)
    if isinstance(v, ast.Subscript) and isinstance(v.slice, ast.Slice):
        a = repo.fold(mod, v.slice.lower) if v.slice.lower is not None else 0
        b = repo.fold(mod, v.slice.upper) if v.slice.upper is not None else None
        if isinstance(a, int) and isinstance(b, int):
            return (a, b)
    return None


def _avp_load_offsets(ctx, repo, avp):
    ld = ctx.need(avp.methods.get("load"), "DiameterAVP.load")
    construct = f"{avp.qual}.load"
    # offsets relative to `index`
    offs = {}

    def rel(e):
        """index + c -> c ; index -> 0 ; index + name -> name"""
        if isinstance(e, ast.Name) and e.id == "index":
            return 0
        if isinstance(e, ast.BinOp) and isinstance(e.op, ast.Add) and isinstance(e.left, ast.Name) and e.left.id == "index":
            v = repo.fold(avp.mod, e.right)
            if isinstance(v, int):
                return v
            return ast.unparse(e.right)
        return None
    for n in walk_no_nested(ld):
        if isinstance(n, ast.Assign) and len(n.targets) == 1 and isinstance(n.targets[0], ast.Attribute) \
                and isinstance(n.targets[0].value, ast.Name) and n.targets[0].attr.startswith("_"):
            f = n.targets[0].attr
            v = n.value
            if isinstance(v, ast.Call) and isinstance(v.func, ast.Name) and len(v.args) == 1:
                v = v.args[0]
                if isinstance(v, ast.Subscript) and not isinstance(v.slice, ast.Slice) and ast.unparse(v.value) == "stream":
                    a = rel(v.slice)
                    offs.setdefault(f, []).append((a, a + 1 if isinstance(a, int) else None))
                    continue
            if isinstance(v, ast.Subscript) and isinstance(v.slice, ast.Slice) and ast.unparse(v.value) == "stream":
                offs.setdefault(f, []).append((rel(v.slice.lower), rel(v.slice.upper)))
    want = {"_code": [(0, 4)], "_flags": [(4, 5)], "_length": [(5, 8)], "_vendor_id": [(8, 12)],
            "_data": [(12, "boundary"), (8, "boundary")]}
    for f, w in want.items():
        got = offs.get(f)
        ctx.decide(got is not None and sorted(map(str, got)) == sorted(map(str, w)), "R-TABLE/layout", construct, avp.where(ld),
                   f"{f} read at offsets {w}",
                   f"{f} is read at offsets {got} relative to the AVP start; dump() writes it at {w}", key=f"load:{f}")
    # the vendor branch is chosen by the V flag of the parsed flags
    iffs = [n for n in walk_no_nested(ld) if isinstance(n, ast.If) and "is_vendor_id" in ast.unparse(n.test)]
    ok = False
    for n in iffs:
        vend_in_body = any(isinstance(x, ast.Assign) and ast.unparse(x.targets[0]).endswith("._vendor_id")
                           and not (isinstance(x.value, ast.Constant) and x.value.value is None) for x in ast.walk(ast.Module(body=n.body, type_ignores=[])))
        if vend_in_body and "_flags" in ast.unparse(n.test):
            ok = True
    ctx.decide(ok, "R-DOM/layout", construct, avp.where(ld), "Vendor-ID is read iff the V flag of the parsed flags is set",
               "the Vendor-ID field is not read exactly when the parsed V flag is set", key="vflag")


def _padding(ctx, repo, avp):
    fold = lambda e: repo.fold(avp.mod, e)
    targets = []
    pg = avp.props.get("padding", {}).get("get")
    ctx.need(pg, "DiameterAVP.padding getter")
    targets.append((avp, pg, "self.data", f"{avp.qual}.padding"))
    oc = ctx.need(repo.cls("bromelia.types.OctetStringType"), "OctetStringType")
    sp = ctx.need(oc.methods.get("set_padding"), "OctetStringType.set_padding")
    targets.append((oc, sp, "self.data", f"{oc.qual}.set_padding"))
    n_inst = 0
    for ci, fn, dataexpr, construct in targets:
        for r in range(4):
            for nonempty in ((False, True) if r == 0 else (True,)):
                def special(e, r=r, nonempty=nonempty):
                    t = ast.unparse(e)
                    if t == f"len({dataexpr})":
                        return NotImplemented
                    if isinstance(e, ast.BinOp) and isinstance(e.op, ast.Mod) and ast.unparse(e.left) == f"len({dataexpr})" \
                            and isinstance(e.right, ast.Constant) and e.right.value == 4:
                        return r
                    if t == dataexpr:
                        return "x" if nonempty else None     # truthiness only
                    return NotImplemented
                res = list(run_paths(fn.body, {}, special, fold))
                for env, term, val in res:
                    n_inst += 1
                    if val is UNK:
                        ctx.undecided("R-RES4", construct, ci.where(fn), f"residue {r}: result not evaluable", key=f"res:{r}")
                        continue
                    p = val[1] if isinstance(val, tuple) else 0 if val is None else None
                    ok = p is not None and (r + p) % 4 == 0 and p < 4
                    ctx.decide(ok, "R-RES4", construct, ci.where(fn), f"len%4={r}: padding {p}",
                               f"for len(data) % 4 == {r} the padding is {val!r}: (r + p) % 4 != 0 or p >= 4 - the AVP is not "
                               f"padded to a 4-octet boundary with fewer than 4 zero octets", key=f"res:{r}")
    # reader
    ld = avp.methods.get("load")
    loop = next((s for s in ld.body if isinstance(s, ast.While)), None)
    if loop is None:
        ctx.undecided("R-RES4", f"{avp.qual}.load", avp.where(ld), "no loop", key="loop")
        return
    # statements of the loop body that define `padding`
    pstmts = [s for s in loop.body if any(isinstance(n, ast.Name) and n.id == "padding" and isinstance(n.ctx, ast.Store)
                                          for n in ast.walk(s))]
    for r in range(4):
        def special(e, r=r):
            if isinstance(e, ast.BinOp) and isinstance(e.op, ast.Mod) and ast.unparse(e.left) == "boundary" \
                    and isinstance(e.right, ast.Constant) and e.right.value == 4:
                return r
            return NotImplemented
        for env, term, val in run_paths(pstmts, {}, special, fold):
            n_inst += 1
            p = env.get("padding", UNK)
            if p is UNK or not isinstance(p, int):
                ctx.undecided("R-RES4", f"{avp.qual}.load", avp.where(ld), f"residue {r}: reader padding not evaluable", key=f"res:{r}")
                continue
            ctx.decide((r + p) % 4 == 0 and 0 <= p < 4, "R-RES4", f"{avp.qual}.load", avp.where(pstmts[0] if pstmts else ld),
                       f"AVP length%4={r}: reader skips {p}",
                       f"for AVP length % 4 == {r} the reader skips {p} padding octets: the next AVP is parsed at a "
                       f"misaligned offset", key=f"res:{r}")
    # the index advances by boundary + padding
    adv = [s for s in loop.body if isinstance(s, ast.AugAssign) and isinstance(s.target, ast.Name) and s.target.id == "index"]
    ok = len(adv) == 1 and ast.unparse(adv[0].value) in ("boundary + padding", "padding + boundary")
    ctx.decide(ok, "R-RES4/advance", f"{avp.qual}.load", avp.where(ld), "index advances by length + padding",
               f"reader advances the index by `{ast.unparse(adv[0].value) if adv else None}` instead of length + padding",
               key="advance")
    ctx.count("residue_instances", n_inst)


def _message_length(ctx, repo, msg):
    ap = ctx.need(msg.methods.get("append"), "DiameterMessage.append")
    construct = f"{msg.qual}.append"
    pn = [a.arg for a in ap.args.args if a.arg != "self"][0]
    # inside `if not self._loaded:` the new length depends on get_length() and get_padding_length() of the avp
    blk = None
    for n in walk_no_nested(ap):
        if isinstance(n, ast.If) and ast.unparse(n.test) in ("not self._loaded", "not self.loaded", "self._loaded is False"):
            blk = n
    if blk is None:
        ctx.undecided("R-FLOW/append-length", construct, msg.where(ap), "no `if not self._loaded` block", key="loaded")
    else:
        src = "\n".join(ast.unparse(s) for s in blk.body)
        has_len = f"{pn}.get_length()" in src or f"len({pn})" in src
        has_pad = f"{pn}.get_padding_length()" in src
        stores = [s for s in ast.walk(blk) if isinstance(s, ast.Assign) and ast.unparse(s.targets[0]) == "self.header.length"]
        ctx.decide(has_len and has_pad and bool(stores), "R-FLOW/append-length", construct, msg.where(blk),
                   "Message Length grows by AVP length + padding",
                   f"append updates the Message Length without {'the AVP length' if not has_len else 'the AVP padding' if not has_pad else 'storing it'}: "
                   f"the length no longer equals the serialised size", key="append_len")
        # abstractly: new = old + L + P
        for L, P in ((12, None), (13, 3), (22, 2)):
            def special(e, L=L, P=P):
                t = ast.unparse(e)
                if t == "self.header.get_length()":
                    return 100
                if t in (f"{pn}.get_length()", f"len({pn})"):
                    return L
                if t == f"{pn}.get_padding_length()":
                    return P
                return NotImplemented
            stmts = list(blk.body)
            # run_paths ignores attribute stores; emulate by rewriting `self.header.length = X` as `__len = X`
            rew = []
            for s in stmts:
                rew.append(_rewrite_store(s, "self.header.length", "__len"))
            for env2, term, val in run_paths(rew, {}, special, lambda e: repo.fold(msg.mod, e)):
                got = env2.get("__len", UNK)
                want = 100 + L + (P or 0)
                if got is UNK:
                    ctx.undecided("R-FLOW/append-length", construct, msg.where(blk),
                                  "new Message Length not evaluable", key=f"append:{L}:{P}")
                    continue
                ctx.decide(got == want, "R-FLOW/append-length", construct, msg.where(blk),
                           f"AVP length {L}, padding {P}: Message Length +{L + (P or 0)}",
                           f"for an AVP of length {L} and padding {P} append sets the Message Length to old+{got - 100 if isinstance(got, int) else got} "
                           f"instead of old+{L + (P or 0)}", key=f"append:{L}:{P}")
    # refresh
    rf = ctx.need(msg.methods.get("refresh"), "DiameterMessage.refresh")
    init = [s for s in rf.body if isinstance(s, ast.Assign) and isinstance(s.targets[0], ast.Name)]
    start = repo.fold(msg.mod, init[0].value) if init else None
    ctx.decide(start == 20, "R-FLOW/refresh", f"{msg.qual}.refresh", msg.where(rf), "refresh starts from the 20-octet header",
               f"refresh starts the total from {start}, the header is 20 octets", key="refresh_start")
    loop = next((s for s in rf.body if isinstance(s, ast.For)), None)
    ok = False
    if loop is not None and init:
        acc = init[0].targets[0].id
        it = ast.unparse(loop.iter)
        tv = loop.target.id if isinstance(loop.target, ast.Name) else None
        src = "\n".join(ast.unparse(s) for s in loop.body)
        ok = it in ("self.avps", "self._avps") and tv is not None and \
            (f"len({tv})" in src or f"{tv}.get_length()" in src) and f"{tv}.get_padding_length()" in src
        for L, P in ((12, None), (13, 3)):
            def special(e, L=L, P=P, tv=tv):
                t = ast.unparse(e)
                if t in (f"len({tv})", f"{tv}.get_length()"):
                    return L
                if t == f"{tv}.get_padding_length()":
                    return P
                return NotImplemented
            for env2, term, val in run_paths(list(loop.body), {acc: 20}, special, None):
                got = env2.get(acc, UNK)
                ctx.decide(got == 20 + L + (P or 0), "R-FLOW/refresh", f"{msg.qual}.refresh", msg.where(loop),
                           f"refresh adds length {L} + padding {P}",
                           f"refresh adds {got - 20 if isinstance(got, int) else got} for an AVP of length {L} and padding {P}",
                           key=f"refresh:{L}:{P}")
    ctx.decide(ok, "R-FLOW/refresh", f"{msg.qual}.refresh", msg.where(rf),
               "refresh sums length + padding over every listed AVP", "refresh does not sum length + padding over self.avps",
               key="refresh_sum")
    st = [s for s in ast.walk(rf) if isinstance(s, ast.Assign) and ast.unparse(s.targets[0]) == "self.header.length"]
    ctx.decide(bool(st) and init and init[0].targets[0].id in ast.unparse(st[0].value), "R-FLOW/refresh", f"{msg.qual}.refresh",
               msg.where(rf), "refresh stores the recomputed total", "refresh does not store the recomputed total", key="refresh_store",
               nontrivial=False)
    # dump
    dp = ctx.need(msg.methods.get("dump"), "DiameterMessage.dump")
    order = concat_order(dp)
    got = order or []
    ok = len(got) == 2 and got[0] == ("self.header.dump()", None) and got[1][0].endswith(".dump()") and \
        got[1][1] in ("for avp in self.avps", "for avp in self._avps")
    ctx.decide(ok, "R-TABLE/layout", f"{msg.qual}.dump", msg.where(dp),
               "header.dump() then every listed AVP's dump() in list order",
               f"message dump concatenates {got}: expected the header followed by a plain iteration over the AVP list",
               key="dump_order")
    # avps getter returns the list in order
    g = msg.props.get("avps", {}).get("get")
    if g is not None:
        rets = [ast.unparse(n.value) for n in ast.walk(g) if isinstance(n, ast.Return) and n.value is not None]
        ctx.decide(rets in (["list(self._avps)"], ["self._avps"], ["self._avps[:]"], ["tuple(self._avps)"]), "R-TABLE/layout",
                   f"{msg.qual}.avps", msg.where(g), "avps view preserves list order",
                   f"the avps view returns {rets}, not the AVP list in order", key="avps_getter")


def _rewrite_store(s, target_text, newname):
    import copy
    s = copy.deepcopy(s)

    class T(ast.NodeTransformer):
        def visit_Assign(self, node):
            self.generic_visit(node)
            if len(node.targets) == 1 and ast.unparse(node.targets[0]) == target_text:
                node.targets = [ast.Name(id=newname, ctx=ast.Store())]
                v = node.value
                if isinstance(v, ast.Call) and isinstance(v.func, ast.Name) and v.func.id.startswith("convert_to_") \
                        and len(v.args) == 1:
                    node.value = v.args[0]       # width of the store is clause 1's business
            return node
    return ast.fix_missing_locations(T().visit(s))


def _grouped(ctx, repo):
    g = ctx.need(repo.cls("bromelia.types.GroupedType"), "GroupedType")
    ap = ctx.need(g.methods.get("append"), "GroupedType.append")
    pn = [a.arg for a in ap.args.args if a.arg != "self"][0]
    cfg = make_cfg(repo, ap)

    def is_list_app(n):
        return n.kind == "stmt" and ast.unparse(n.ast) == f"self._avps.append({pn})"

    def is_data_app(n):
        return n.kind == "stmt" and ast.unparse(n.ast) in (f"self._data += {pn}.dump()", f"self._data = self._data + {pn}.dump()")
    ok = must_pass(cfg, is_list_app) and must_pass(cfg, is_data_app)
    ctx.decide(ok, "R-MUSTPASS/grouped-append", f"{g.qual}.append", g.where(ap),
               "every normal path appends the member to the list and its encoding to the data",
               "GroupedType.append can return without appending the member to `_avps` and its dump() to `_data`: the Grouped "
               "data is no longer the concatenation of its members", key="append")
    # every other writer of the Grouped data buffer re-derives it as the concatenation of the members' encodings
    n_w = 0
    for mname, fn in sorted(g.methods.items()):
        for st_ in [x for x in walk_no_nested(fn) if isinstance(x, (ast.Assign, ast.AugAssign))]:
            tgt = st_.targets[0] if isinstance(st_, ast.Assign) else st_.target
            if ast.unparse(tgt) != "self._data":
                continue
            n_w += 1
            txt = ast.unparse(st_)
            okw = False
            if isinstance(st_, ast.AugAssign) and isinstance(st_.op, ast.Add) and ast.unparse(st_.value).endswith(".dump()"):
                v = st_.value.func.value
                # appended encoding belongs to a listed member: the appended parameter, or the loop variable over self.avps
                okw = isinstance(v, ast.Name)
            elif txt in ("self._data = b''",):
                okw = True
            elif mname == "__init__" and txt == "self._data = data":
                okw = True
            ctx.decide(okw, "R-CONSERVE/grouped-data", f"{g.qual}.{mname}", g.where(st_),
                       f"`{txt}` keeps the buffer equal to the concatenation of the members' dump()",
                       f"`{txt[:90]}` edits the cached Grouped data other than by (re)concatenating whole member encodings: offsets "
                       f"computed from AVP lengths ignore padding, so the data is no longer the concatenation of the members",
                       key=f"data:{mname}:{txt[:40]}")
        # a reset must be followed by a rebuild loop over the members in the same method (pop / __setitem__) unless the list is reset too
        resets = [x for x in walk_no_nested(fn) if isinstance(x, ast.Assign) and ast.unparse(x) == "self._data = b''"]
        if resets and mname not in ("cleanup", "__init__"):
            src = ast.unparse(fn)
            okr = "for avp in self.avps" in src and "self._data += avp.dump()" in src
            ctx.decide(okr, "R-CONSERVE/grouped-data", f"{g.qual}.{mname}", g.where(resets[0]),
                       "reset is followed by a rebuild from the listed members", "the Grouped data is reset without being rebuilt",
                       key=f"rebuild:{mname}")
    ctx.floor("grouped_data_writers", n_w, 5)
    # removal re-derives the buffer
    gp = g.methods.get("pop")
    if gp is not None:
        src = ast.unparse(gp)
        ctx.decide("self._data = b''" in src and "self._data += avp.dump()" in src, "R-CONSERVE/grouped-data", f"{g.qual}.pop", g.where(gp),
                   "pop rebuilds the data from the remaining members",
                   "GroupedType.pop does not rebuild `_data` from the remaining members: the data keeps (part of) the removed member",
                   key="pop_rebuild")
    # list constructor routes members through append
    ini = ctx.need(g.methods.get("__init__"), "GroupedType.__init__")
    lb = None
    for n in walk_no_nested(ini):
        if isinstance(n, ast.If) and ast.unparse(n.test) == "isinstance(data, list)":
            lb = n
    if lb is None:
        ctx.undecided("R-MUSTPASS/grouped-ctor", f"{g.qual}.__init__", g.where(ini), "no list branch", key="list")
        return
    src = [ast.unparse(s) for s in lb.body]
    reset = "self._data = b''" in src
    routed = "self.avps = data" in src or any(s.startswith("self.extend(data)") for s in src) or \
        any("self.append(" in s for s in src)
    ctx.decide(reset and routed, "R-MUSTPASS/grouped-ctor", f"{g.qual}.__init__", g.where(lb),
               "list input: data starts empty and every member goes through append",
               "list input is not routed through append from an empty data buffer", key="list_ctor")
    st = g.props.get("avps", {}).get("set")
    if st is not None:
        s2 = ast.unparse(st)
        ctx.decide("self.cleanup()" in s2 and "self.append(value[0])" in s2 and "self.extend(value)" in s2,
                   "R-MUSTPASS/grouped-ctor", f"{g.qual}.avps[setter]", g.where(st), "avps setter = cleanup + append/extend",
                   "the avps setter does not rebuild the members through append/extend", key="avps_setter")
    ex = g.methods.get("extend")
    if ex is not None:
        s2 = ast.unparse(ex)
        ctx.decide("self.append(" in s2 and "for " in s2, "R-MUSTPASS/grouped-ctor", f"{g.qual}.extend", g.where(ex),
                   "extend appends each member in order", "extend does not append each member", key="extend", nontrivial=False)
