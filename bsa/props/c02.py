"""C02 - decoding preserves every field on the wire and re-encodes byte-identically (structural clauses)."""
import ast

from ..astutil import make_cfg, call_name, fn_calls, must_pass, node_calls, walk_no_nested, kwarg
from ..paths import enum_paths, eval_bool
from .. import avpdict

META = {
    "explanation": "Field-flow completeness of DiameterAVP.load (every wire field that the dispatch key does not determine must "
                   "flow into the object appended); bytes identity of every type constructor / parser_data / encode on the "
                   "isinstance(data, bytes) path (path enumeration with an identity lattice: ID, decoded(codec), other); splitter "
                   "shape of DiameterMessage.load (one message per iteration, appended once, slices from the parsed header, "
                   "loaded=True reaching the constructor before the appends); registry writer/reader key order and the "
                   "direct-subclass rule over all dictionary classes.",
    "decided": ["wire-field flow completeness", "bytes identity in constructors", "one message per iteration", "registry key order",
                "direct-subclass rule"],
    "not_decided": ["equality of re-serialised bytes for particular inputs; that a Grouped re-parse yields the same member bytes as a whole"],
    "trusted_base": ["Python ast", "path enumeration (bsa.paths)"],
    "assumptions": ["x.decode(c).encode(c) with one codec is the identity whenever it does not raise"],
}

ID = "ID"


class Ident:
    """Identity analysis of one function on the bytes path of parameter `p`."""

    def __init__(self, repo, ci, fn, p, memo, depth=0):
        self.repo, self.ci, self.fn, self.p, self.memo, self.depth = repo, ci, fn, p, memo, depth

    def atom(self, env):
        p = self.p

        def a(e):
            if isinstance(e, ast.Call) and call_name(e) == "isinstance" and len(e.args) == 2 and isinstance(e.args[0], ast.Name):
                v = env.get(e.args[0].id)
                if v == ID or e.args[0].id == p and p not in env:
                    t = ast.unparse(e.args[1])
                    names = [x.strip() for x in t.strip("()").split(",")]
                    return "bytes" in names
            return None
        return a

    def val(self, e, env, stored):
        """abstract value of expression: ID / ('DEC', codec) / None"""
        if isinstance(e, ast.Name):
            return env.get(e.id)
        if isinstance(e, ast.Attribute) and ast.unparse(e) in ("self.data", "self._data"):
            return stored
        if isinstance(e, ast.Call):
            n = call_name(e)
            if isinstance(e.func, ast.Attribute) and e.func.attr == "decode":
                base = self.val(e.func.value, env, stored)
                if base == ID:
                    codec = ast.unparse(e.args[0]) if e.args else "'utf-8'"
                    return ("DEC", codec)
            if isinstance(e.func, ast.Attribute) and e.func.attr == "encode" and not n.startswith("self."):
                base = self.val(e.func.value, env, stored)
                if isinstance(base, tuple) and base[0] == "DEC":
                    codec = ast.unparse(e.args[0]) if e.args else "'utf-8'"
                    if codec == base[1]:
                        return ID
            if n in ("self.encode",) or n.endswith(".encode") and n.split(".")[0] == self.ci.name:
                args = [a for a in e.args if not (isinstance(a, ast.Name) and a.id == "self")]
                if args and self.val(args[0], env, stored) == ID:
                    r = self.ci.find_method("encode")
                    if r and summary_returns_id(self.repo, r[0], r[1], self.memo, self.depth + 1):
                        return ID
            if n in ("copy.copy", "bytes") and e.args and self.val(e.args[0], env, stored) == ID:
                return ID
        return None

    def run(self, want_return=False):
        """-> (ok, why).  ok iff on every normal bytes path the data field ends up holding the parameter
        (or, with want_return, every return value is the parameter)."""
        fn, p = self.fn, self.p
        results = []
        for path in enum_paths(fn.body, decide=lambda t, ev: eval_bool(t, self._atom_for(ev)), loops="skip"):
            if path.term == "raise":
                continue
            env = {p: ID}
            stored = None
            defined = False
            for e in path.events:
                if e[0] != "stmt":
                    continue
                s = e[1]
                if isinstance(s, ast.Assign) and len(s.targets) == 1:
                    t = s.targets[0]
                    if isinstance(t, ast.Name):
                        env[t.id] = self.val(s.value, env, stored)
                    elif isinstance(t, ast.Attribute) and ast.unparse(t) in ("self._data", "self.data"):
                        stored = self.val(s.value, env, stored)
                        defined = True
                    elif isinstance(t, ast.Attribute) and ast.unparse(t) == "self.avps":
                        # Grouped idiom: members re-derived from the parameter
                        if isinstance(s.value, ast.Call) and call_name(s.value) == "DiameterAVP.load" and s.value.args \
                                and self.val(s.value.args[0], env, stored) == ID:
                            stored = ID
                            defined = True
                elif isinstance(s, ast.Expr) and isinstance(s.value, ast.Call):
                    c = s.value
                    n = call_name(c)
                    args = [a for a in c.args if not (isinstance(a, ast.Name) and a.id == "self")]
                    d = kwarg(c, "data") or (args[0] if args else None)
                    if n.endswith(".parser_data") or n.endswith(".__init__") and not n.startswith("DiameterAVP."):
                        owner = n.rsplit(".", 1)[0]
                        meth = n.rsplit(".", 1)[1]
                        if owner == "self":
                            r = self.ci.find_method(meth)
                        else:
                            tci = self.repo.class_of_sym(self.repo.resolve(self.ci.mod, owner))
                            r = (tci, tci.methods[meth]) if tci is not None and meth in tci.methods else None
                        if r is not None and d is not None:
                            argv = self.val(d, env, stored)
                            if argv == ID:
                                ok = summary_stores_id(self.repo, r[0] if owner != "self" else self.ci, r[1], self.memo, self.depth + 1)
                                stored = ID if ok else None
                                defined = True
                            else:
                                stored = None
                                defined = True
                    elif n == "DiameterAVP.__init__":
                        stored = None       # resets data to None
            if want_return:
                rv = path.term_node.value if path.term == "return" and path.term_node is not None else None
                results.append(self.val(rv, env, stored) == ID if rv is not None else False)
            else:
                results.append(defined and stored == ID)
        if not results:
            return False, "no normal path on the bytes branch"
        return all(results), f"{results.count(False)} of {len(results)} bytes paths do not keep the given bytes"

    def _atom_for(self, events):
        # rebuild env lazily is expensive; for isinstance tests only the parameter itself matters
        return self.atom({self.p: ID})


def summary_stores_id(repo, ci, fn, memo, depth=0):
    key = ("S", id(fn), ci.qual)
    if key in memo:
        return memo[key]
    memo[key] = False
    if depth > 6:
        return False
    params = [a.arg for a in fn.args.args if a.arg != "self"]
    if not params:
        return False
    ok, _ = Ident(repo, ci, fn, params[0], memo, depth).run()
    memo[key] = ok
    return ok


def summary_returns_id(repo, ci, fn, memo, depth=0):
    key = ("R", id(fn), ci.qual)
    if key in memo:
        return memo[key]
    memo[key] = False
    params = [a.arg for a in fn.args.args if a.arg != "self"]
    if not params:
        return False
    ok, _ = Ident(repo, ci, fn, params[0], memo, depth).run(want_return=True)
    memo[key] = ok
    return ok


def check(ctx):
    repo = ctx.repo
    avp = ctx.need(repo.cls("bromelia.base.DiameterAVP"), "DiameterAVP")
    msg = ctx.need(repo.cls("bromelia.base.DiameterMessage"), "DiameterMessage")
    ld = ctx.need(avp.methods.get("load"), "DiameterAVP.load")
    construct = f"{avp.qual}.load"

    # ---- 1 field flow ---------------------------------------------------------------------
    ctx.clause = "1-wire-field-flow"
    tmp = None
    for n in walk_no_nested(ld):
        if isinstance(n, ast.Assign) and isinstance(n.value, ast.Call) and call_name(n.value) == "DiameterAVP" \
                and isinstance(n.targets[0], ast.Name):
            tmp = n.targets[0].id
    if tmp is None:
        ctx.undecided("R-FLOW/wire-fields", construct, avp.where(ld), "temporary DiameterAVP() not found", key="tmp")
    else:
        wire = set()
        for n in walk_no_nested(ld):
            if isinstance(n, ast.Assign) and isinstance(n.targets[0], ast.Attribute) and isinstance(n.targets[0].value, ast.Name) \
                    and n.targets[0].value.id == tmp and "stream" in ast.unparse(n.value):
                wire.add(n.targets[0].attr.lstrip("_"))
        ctx.decide({"code", "flags", "vendor_id", "data"} <= wire, "R-FLOW/wire-fields", construct, avp.where(ld),
                   f"wire fields parsed: {sorted(wire)}", f"wire fields parsed are {sorted(wire)}: code/flags/vendor_id/data expected",
                   key="parsed", nontrivial=False)
        # registry-built object
        cls_var = obj_var = None
        ctor = None
        for n in walk_no_nested(ld):
            if isinstance(n, ast.Assign) and isinstance(n.value, ast.Call) and call_name(n.value).endswith("get_avp_class") \
                    and isinstance(n.targets[0], ast.Name):
                cls_var = n.targets[0].id
        for n in walk_no_nested(ld):
            if isinstance(n, ast.Assign) and isinstance(n.value, ast.Call) and isinstance(n.value.func, ast.Name) \
                    and n.value.func.id == cls_var and isinstance(n.targets[0], ast.Name):
                obj_var, ctor = n.targets[0].id, n.value
        if ctor is None:
            ctx.undecided("R-FLOW/wire-fields", construct, avp.where(ld), "registry-dispatched constructor call not found", key="ctor")
        else:
            flows = set()
            for a in list(ctor.args) + [k.value for k in ctor.keywords]:
                t = ast.unparse(a)
                for f in ("data", "flags", "vendor_id", "code"):
                    if t in (f"{tmp}.{f}", f"{tmp}._{f}"):
                        flows.add(f)
            for n in walk_no_nested(ld):
                if isinstance(n, ast.Assign):
                    for t in n.targets:
                        if isinstance(t, ast.Attribute) and isinstance(t.value, ast.Name) and t.value.id == obj_var:
                            f = t.attr.lstrip("_")
                            if ast.unparse(n.value) in (f"{tmp}.{f}", f"{tmp}._{f}"):
                                flows.add(f)
            for f in ("data", "flags"):
                ctx.decide(f in flows, "R-FLOW/wire-fields", construct, avp.where(ctor),
                           f"wire {f} flows into the dictionary-class object",
                           f"the wire `{f}` field of a known AVP does not flow into the object built by the dictionary class "
                           f"(only {sorted(flows)} do): the decoded AVP carries the class default instead of what was on the wire",
                           key=f"flow:{f}")
            # the object appended is the one built; the unknown branch appends the temporary itself
            apps = [c for c in fn_calls(ld) if call_name(c).endswith(".append") and c.args]
            app_args = [ast.unparse(c.args[0]) for c in apps]
            ctx.decide(sorted(app_args) == sorted([obj_var, tmp]), "R-FLOW/wire-fields", construct, avp.where(ld),
                       "known AVPs append the class object, unknown ones the generic AVP",
                       f"load appends {app_args}", key="appended")
            # unknown branch is the KeyError handler of the dispatch
            ok = False
            for n in walk_no_nested(ld):
                if isinstance(n, ast.Try):
                    in_body = any(isinstance(x, ast.Call) and call_name(x).endswith("get_avp_class") for s in n.body for x in ast.walk(s))
                    for h in n.handlers:
                        if in_body and h.type is not None and "KeyError" in ast.unparse(h.type) and \
                                any(isinstance(x, ast.Call) and call_name(x).endswith(".append") and ast.unparse(x.args[0]) == tmp
                                    for s in h.body for x in ast.walk(s)):
                            ok = True
            ctx.decide(ok, "R-DOM/unknown-avp", construct, avp.where(ld), "an unknown (vendor, code) falls back to the generic AVP",
                       "a (vendor, code) missing from the registry is not materialised as the generic AVP", key="unknown")

    # the V-flag predicate used by the decoder masks the parsed flags with 0x80
    um = ctx.need(repo.mods.get("bromelia.utils"), "module bromelia.utils")
    iv = ctx.need(um.funcs.get("is_vendor_id"), "bromelia.utils.is_vendor_id")
    consts = [repo.fold(um, n) for n in ast.walk(iv) if isinstance(n, ast.Name) and n.id.isupper()]
    consts = [c for c in consts if isinstance(c, bytes)]
    src = ast.unparse(iv)
    ctx.decide(consts == [b"\x80"] and "&" in src and "!= 0" in src, "R-TABLE/vflag-mask", "bromelia.utils.is_vendor_id",
               f"{um.rel}:{iv.lineno}", "decoder tests the V flag with mask 0x80",
               f"is_vendor_id masks the flags with {consts}: the decoder reads the Vendor-ID field for the wrong AVPs", key="vmask")
    sym = repo.resolve(avp.mod, "is_vendor_id")
    ctx.decide(sym is not None and sym.node is iv, "R-TABLE/vflag-mask", construct, avp.where(ld), "load uses bromelia.utils.is_vendor_id",
               "DiameterAVP.load does not use bromelia.utils.is_vendor_id", key="vmask_resolve", nontrivial=False)

    # ---- 2 bytes identity ----------------------------------------------------------------------
    ctx.clause = "2-bytes-identity"
    memo = {}
    tclasses = avpdict.type_classes(repo)
    n_id = 0
    for ci in tclasses:
        ini = ci.methods.get("__init__")
        if ini is None:
            continue
        n_id += 1
        ok = summary_stores_id(repo, ci, ini, memo)
        ctx.decide(ok, "R-ALIAS/bytes-identity", f"{ci.qual}.__init__", ci.where(ini),
                   "bytes input is stored unchanged",
                   "on the isinstance(data, bytes) path the data field does not end up holding the given bytes: a decoded AVP "
                   "re-serialises to different bytes", key="bytes_identity")
    base, rows = avpdict.avp_rows(repo)
    for r in rows:
        if r.init is None or r.type_cls is None:
            continue
        special = any(k in r.ci.methods for k in ("parser_data", "encode")) or \
            any(not isinstance(s, ast.Expr) for s in r.init.body)
        n_id += 1
        params = [a.arg for a in r.init.args.args if a.arg != "self"]
        if not params:
            ctx.undecided("R-ALIAS/bytes-identity", f"{r.ci.qual}.__init__", r.ci.where(r.init), "no data parameter", key="param")
            continue
        ok, why = Ident(repo, r.ci, r.init, params[0], memo).run()
        ctx.decide(ok, "R-ALIAS/bytes-identity", f"{r.ci.qual}.__init__", r.ci.where(r.init),
                   "bytes input reaches the data field unchanged",
                   f"decoding hands the wire data to this constructor, but {why}", key="bytes_identity",
                   nontrivial=special)
    ctx.floor("identity_instances", n_id, 200)

    # ---- 3 splitter -----------------------------------------------------------------------------------
    ctx.clause = "3-splitter"
    _splitter(ctx, repo, msg)

    # ---- 4 registry ------------------------------------------------------------------------------------
    ctx.clause = "4-registry"
    _registry(ctx, repo)
    ctx.clause = "4-direct-subclass"
    for r in rows:
        ctx.hold("R-TABLE/direct-subclass", r.ci.qual, r.ci.where(), "direct subclass of DiameterAVP", key="direct",
                 nontrivial=False)
    for ci in avpdict.indirect_avp_classes(repo):
        ctx.violate("R-TABLE/direct-subclass", ci.qual, ci.where(),
                    "derives from DiameterAVP only through another class: DiameterAVP.__subclasses__() does not list it, so "
                    "its (vendor, code) decodes to the parent class or a generic AVP", key="indirect")


def _splitter(ctx, repo, msg):
    ld = ctx.need(msg.methods.get("load"), "DiameterMessage.load")
    construct = f"{msg.qual}.load"
    loop = next((s for s in ld.body if isinstance(s, ast.While)), None)
    if loop is None:
        ctx.undecided("R-MUSTPASS/splitter", construct, msg.where(ld), "no while loop", key="loop")
        return
    test_names = {n.id for n in ast.walk(loop.test) if isinstance(n, ast.Name)}
    idx = next((x.target.id for x in walk_no_nested(loop) if isinstance(x, ast.AugAssign) and isinstance(x.target, ast.Name)
                and x.target.id in test_names), "index")
    # the loop must go on whenever at least one minimal (20-octet, header-only) message is still unconsumed:
    # rewrite the test over r = len(stream) - index and normalise it with the interval algebra
    from ..intervals import ISet, test_set, Undecidable
    import copy as _copy

    class _R(ast.NodeTransformer):
        def visit_BinOp(self, node):
            if isinstance(node.op, ast.Sub) and ast.unparse(node.left) == "len(stream)" and ast.unparse(node.right) == idx:
                return ast.Name(id="__r", ctx=ast.Load())
            return self.generic_visit(node)

        def visit_Compare(self, node):
            if len(node.ops) == 1 and ast.unparse(node.left) == idx and ast.unparse(node.comparators[0]) == "len(stream)":
                flip = {ast.Lt: ast.Gt, ast.LtE: ast.GtE, ast.NotEq: ast.NotEq, ast.Gt: ast.Lt, ast.GtE: ast.LtE, ast.Eq: ast.Eq}
                return ast.Compare(left=ast.Name(id="__r", ctx=ast.Load()), ops=[flip[type(node.ops[0])]()],
                                   comparators=[ast.Constant(value=0)])
            if len(node.ops) == 1 and ast.unparse(node.comparators[0]) == idx and ast.unparse(node.left) == "len(stream)":
                return ast.Compare(left=ast.Name(id="__r", ctx=ast.Load()), ops=[node.ops[0]], comparators=[ast.Constant(value=0)])
            return self.generic_visit(node)
    rt = ast.fix_missing_locations(_R().visit(_copy.deepcopy(loop.test)))
    try:
        cont = test_set(repo, msg.mod, rt, "__r", ISet.full(0, 1 << 24))
        need = ISet([(20, 1 << 24)], 0, 1 << 24)
        missing = need.minus(cont)
        ctx.decide(missing.empty(), "R-TABLE/splitter", construct, msg.where(loop),
                   f"the loop continues while {cont} octets remain (covers every remainder >= 20)",
                   f"the splitter loop `while {ast.unparse(loop.test)}` stops with {missing.min()} unconsumed octets left: a final "
                   f"message of exactly that size (e.g. a header-only message) is silently dropped", key="loop_continues")
    except Undecidable as e:
        ctx.undecided("R-TABLE/splitter", construct, msg.where(loop), f"loop test not normalisable over the remaining length: {e}",
                      key="loop_continues")
    env = {}
    for s in walk_no_nested(loop):
        if isinstance(s, ast.Assign) and len(s.targets) == 1 and isinstance(s.targets[0], ast.Name):
            env[s.targets[0].id] = s.value

    def expand(e, d=0):
        if isinstance(e, ast.Name) and e.id in env and d < 5 and e.id != idx:
            return expand(env[e.id], d + 1)
        return e

    def txt(e):
        class T(ast.NodeTransformer):
            def visit_Name(self, node):
                if node.id in env and node.id != idx and not isinstance(env[node.id], ast.Call):
                    return T().visit(ast.parse(ast.unparse(env[node.id]), mode="eval").body)
                return node
        import copy
        return ast.unparse(T().visit(copy.deepcopy(e)))
    # message construction
    mk = [c for c in fn_calls(loop.body) if call_name(c) in ("DiameterMessage", "cls")]
    if len(mk) != 1:
        ctx.undecided("R-MUSTPASS/splitter", construct, msg.where(loop), "expected one DiameterMessage(...) per iteration", key="ctor")
        return
    c = mk[0]
    h = c.args[0] if c.args else kwarg(c, "header")
    a = c.args[1] if len(c.args) > 1 else kwarg(c, "avps")
    lo = c.args[2] if len(c.args) > 2 else kwarg(c, "loaded")
    ctx.decide(isinstance(lo, ast.Constant) and lo.value is True, "R-DOM/loaded", construct, msg.where(c),
               "decoded messages are constructed with loaded=True",
               "decoded messages are not constructed with loaded=True: append() recomputes the Message Length instead of "
               "keeping the one on the wire", key="loaded")
    hv = expand(h)
    hs = txt(hv.args[0]) if isinstance(hv, ast.Call) and call_name(hv) == "DiameterHeader.load" and hv.args else None
    hdr_len = repo.fold(msg.mod, ast.Name(id="DIAMETER_HEADER_LENGTH", ctx=ast.Load()))
    ok = hs in (f"stream[{idx}:{idx} + DIAMETER_HEADER_LENGTH]", f"stream[{idx}:{idx} + 20]") and hdr_len == 20
    ctx.decide(ok, "R-TABLE/splitter", construct, msg.where(c), "header parsed from stream[index:index+20]",
               f"header is parsed from `{hs}`", key="header_slice")
    av = expand(a)
    hname = h.id if isinstance(h, ast.Name) else None
    as_ = txt(av.args[0]) if isinstance(av, ast.Call) and call_name(av) == "DiameterAVP.load" and av.args else None
    want = {f"stream[{idx} + DIAMETER_HEADER_LENGTH:{idx} + {hname}.get_length()]", f"stream[{idx} + 20:{idx} + {hname}.get_length()]"}
    ctx.decide(as_ in want, "R-TABLE/splitter", construct, msg.where(c),
               "AVPs parsed from stream[index+20 : index+Message Length]",
               f"AVPs are parsed from `{as_}`, expected stream[{idx}+20:{idx}+header.get_length()]", key="avp_slice")
    adv = [s for s in loop.body if isinstance(s, ast.AugAssign) and isinstance(s.target, ast.Name) and s.target.id == idx]
    ctx.decide(len(adv) == 1 and ast.unparse(adv[0].value) == f"{hname}.get_length()", "R-TABLE/splitter", construct,
               msg.where(loop), "index advances by the Message Length",
               f"index advances by `{ast.unparse(adv[0].value) if adv else None}`", key="advance")
    # exactly one append of the constructed message per iteration
    cfg = make_cfg(repo, ld)
    lnode = next(n for n in cfg.nodes.values() if n.kind == "test" and n.extra is loop)
    mv = None
    for s in loop.body:
        if isinstance(s, ast.Assign) and s.value is c and isinstance(s.targets[0], ast.Name):
            mv = s.targets[0].id
    apps = [n for n in cfg.nodes.values() if n.kind == "stmt" and isinstance(n.ast, ast.Expr) and isinstance(n.ast.value, ast.Call)
            and call_name(n.ast.value).endswith(".append") and n.ast.value.args and
            (ast.unparse(n.ast.value.args[0]) == mv or n.ast.value.args[0] is c)]
    start = [t for t, l in cfg.succ[lnode.id] if l == "T"]
    once = len(apps) == 1 and start and must_pass(cfg, lambda n: n in apps, start=start[0], targets={lnode.id})
    ctx.decide(once, "R-MUSTPASS/splitter", construct, msg.where(loop),
               "exactly one append of the constructed message per iteration",
               "the constructed message is not appended exactly once per iteration (lost or duplicated message)", key="append_once")
    tgt = call_name(apps[0].ast.value)[:-7] if apps else None
    rets = [ast.unparse(n.value) for n in ast.walk(ld) if isinstance(n, ast.Return) and n.value is not None]
    ctx.decide(rets == [tgt], "R-MUSTPASS/splitter", construct, msg.where(ld), "returns the list in append order",
               f"returns {rets}", key="return", nontrivial=False)
    # constructor: self._loaded = loaded precedes the appends
    ini = ctx.need(msg.methods.get("__init__"), "DiameterMessage.__init__")
    icfg = make_cfg(repo, ini)
    dom = icfg.dominators()
    st = [n for n in icfg.nodes.values() if n.kind == "stmt" and ast.unparse(n.ast) == "self._loaded = loaded"]
    ap = [n for n in icfg.nodes.values() if any(call_name(x) in ("self.append", "self.extend") for x in node_calls(n))]
    ok = bool(st) and bool(ap) and all(st[0].id in dom[a_.id] for a_ in ap)
    ctx.decide(ok, "R-DOM/loaded", f"{msg.qual}.__init__", msg.where(ini), "the loaded flag is stored before the AVPs are appended",
               "DiameterMessage.__init__ appends the AVPs before (or without) storing the loaded flag", key="loaded_first")
    apf = ctx.need(msg.methods.get("append"), "DiameterMessage.append")
    guard = [n for n in walk_no_nested(apf) if isinstance(n, ast.If) and ast.unparse(n.test) in ("not self._loaded", "not self.loaded")]
    stores = [n for n in walk_no_nested(apf) if isinstance(n, ast.Assign) and ast.unparse(n.targets[0]) == "self.header.length"]
    ok = bool(guard) and all(any(s is x for g in guard for x in ast.walk(g)) for s in stores)
    ctx.decide(ok, "R-DOM/loaded", f"{msg.qual}.append", msg.where(apf), "length is only touched when not loaded",
               "append updates the Message Length outside the `if not self._loaded` guard", key="loaded_guard")


def _registry(ctx, repo):
    ldr = ctx.need(repo.cls("bromelia.base.DiameterAvpLoader"), "DiameterAvpLoader")
    w = ctx.need(ldr.methods.get("_get_load_avps_dictionary"), "_get_load_avps_dictionary")
    r = ctx.need(ldr.methods.get("get_avp_class"), "get_avp_class")
    # writer: update({K1: {K2: v}}) or X[K1].update({K2: v})
    pairs = []
    for c in fn_calls(w):
        if isinstance(c.func, ast.Attribute) and c.func.attr == "update" and c.args and isinstance(c.args[0], ast.Dict):
            d = c.args[0]
            tgt = c.func.value
            if isinstance(tgt, ast.Subscript):
                k1 = ast.unparse(tgt.slice)
                for k, v in zip(d.keys, d.values):
                    pairs.append((k1, ast.unparse(k), ast.unparse(v)))
            else:
                for k, v in zip(d.keys, d.values):
                    if isinstance(v, ast.Dict):
                        for k2, v2 in zip(v.keys, v.values):
                            pairs.append((ast.unparse(k), ast.unparse(k2), ast.unparse(v2)))
    for n in walk_no_nested(w):
        if isinstance(n, ast.Assign) and isinstance(n.targets[0], ast.Subscript) and isinstance(n.targets[0].value, ast.Subscript):
            pairs.append((ast.unparse(n.targets[0].value.slice), ast.unparse(n.targets[0].slice), ast.unparse(n.value)))
    loopvar = None
    for n in walk_no_nested(w):
        if isinstance(n, ast.For) and isinstance(n.target, ast.Name):
            loopvar = n.target.id
    ok = bool(pairs) and all(k1 in (f"{loopvar}.vendor_id", "VENDOR_ID_DEFAULT") and k2 == f"{loopvar}.code" and v == loopvar
                             for k1, k2, v in pairs)
    ctx.decide(ok, "R-TABLE/registry", f"{ldr.qual}._get_load_avps_dictionary", ldr.where(w),
               "registry is written as [vendor][code] -> class",
               f"registry writes {pairs}: expected [vendor][code] -> class", key="writer")
    src = ast.unparse(w)
    ctx.decide("DiameterAVP.__subclasses__()" in src, "R-TABLE/registry", f"{ldr.qual}._get_load_avps_dictionary", ldr.where(w),
               "registry enumerates DiameterAVP.__subclasses__()", "registry is not built from DiameterAVP.__subclasses__()",
               key="subclasses", nontrivial=False)
    p = [a.arg for a in r.args.args if a.arg != "self"][0]
    rets = [n.value for n in walk_no_nested(r) if isinstance(n, ast.Return) and n.value is not None]
    rk = []
    for v in rets:
        if isinstance(v, ast.Subscript) and isinstance(v.value, ast.Subscript):
            rk.append((ast.unparse(v.value.slice), ast.unparse(v.slice)))
    ok = len(rk) == 2 and all(k1 in (f"{p}.vendor_id", "VENDOR_ID_DEFAULT") and k2 == f"{p}.code" for k1, k2 in rk) \
        and {k1 for k1, _ in rk} == {f"{p}.vendor_id", "VENDOR_ID_DEFAULT"}
    ctx.decide(ok, "R-TABLE/registry", f"{ldr.qual}.get_avp_class", ldr.where(r), "registry is read as [vendor][code]",
               f"registry is read with keys {rk}: writer uses [vendor][code]", key="reader")
    # the vendor-less branch of reader and writer are selected by the same predicate kind (None test)
    wt = [ast.unparse(n.test) for n in walk_no_nested(w) if isinstance(n, ast.If) and "vendor_id" in ast.unparse(n.test)]
    rt = [ast.unparse(n.test) for n in walk_no_nested(r) if isinstance(n, ast.If) and "vendor_id" in ast.unparse(n.test)]
    ok = bool(wt) and bool(rt) and wt[0].replace(loopvar or "", "X") == rt[0].replace(p, "X")
    ctx.decide(ok, "R-SIB/registry", f"{ldr.qual}", ldr.where(), "reader and writer select the vendor-less slot by the same test",
               f"writer selects the vendor-less slot with `{wt}` but the reader with `{rt}`", key="none_test")
