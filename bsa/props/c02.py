"""C02 - decoding preserves every field on the wire and re-encodes byte-identically (structural clauses)."""
import ast

from ..astutil import strip_doc, make_cfg, call_name, fn_calls, must_pass, node_calls, walk_no_nested, kwarg
from ..paths import enum_paths, eval_bool
from .. import avpdict

META = {
    "explanation": "Field-flow completeness of DiameterAVP.load (every wire field that the dispatch key does not determine must "
                   "flow into the object appended); bytes identity of every type constructor / parser_data / encode on the "
                   "isinstance(data, bytes) path (path enumeration with an identity lattice: ID, decoded(codec), other); splitter "
                   "shape of DiameterMessage.load (one message per iteration, appended once, slices from the parsed header, "
                   "loaded=True reaching the constructor before the appends); registry writer/reader key order and the "
                   "direct-subclass rule over all dictionary classes.",
    "decided": ["wire-field flow completeness", "bytes identity in constructors", "one message per iteration", "registry key order",
                "direct-subclass rule"],
    "not_decided": ["equality of re-serialised bytes for particular inputs; that a Grouped re-parse yields the same member bytes as a whole"],
    "trusted_base": ["Python ast", "path enumeration (bsa.paths)"],
    "assumptions": ["x.decode(c).encode(c) with one codec is the identity whenever it does not raise"],
}

ID = "ID"


class Ident:
    """Identity analysis of one function on the bytes path of parameter `p`."""

    def __init__(self, repo, ci, fn, p, memo, depth=0):
        self.repo, self.ci, self.fn, self.p, self.memo, self.depth = repo, ci, fn, p, memo, depth

    def atom(self, env):
        p = self.p

        def a(e):
            if isinstance(e, ast.Call) and call_name(e) == "isinstance" and len(e.args) == 2 and isinstance(e.args[0], ast.Name):
                v = env.get(e.args[0].id)
                if v == ID or e.args[0].id == p and p not in env:
                    t = ast.unparse(e.args[1])
                    names = [x.strip() for x in t.strip("()").split(",")]
                    return "bytes" in names
            return None
        return a

    def val(self, e, env, stored):
        """abstract value of expression: ID / ('DEC', codec) / None"""
        if isinstance(e, ast.Name):
            return env.get(e.id)
        if isinstance(e, ast.Attribute) and ast.unparse(e) in ("self.data", "self._data"):
            return stored
        if isinstance(e, ast.Call):
            n = call_name(e)
            if isinstance(e.func, ast.Attribute) and e.func.attr == "decode":
                base = self.val(e.func.value, env, stored)
                if base == ID:
                    codec = ast.unparse(e.args[0]) if e.args else "'utf-8'"
                    return ("DEC", codec)
            if isinstance(e.func, ast.Attribute) and e.func.attr == "encode" and not n.startswith("self."):
                base = self.val(e.func.value, env, stored)
                if isinstance(base, tuple) and base[0] == "DEC":
                    codec = ast.unparse(e.args[0]) if e.args else "'utf-8'"
                    if codec == base[1]:
                        return ID
            if n in ("self.encode",) or n.endswith(".encode") and n.split(".")[0] == self.ci.name:
                args = [a for a in e.args if not (isinstance(a, ast.Name) and a.id == "self")]
                if args and self.val(args[0], env, stored) == ID:
                    r = self.ci.find_method("encode")
                    if r and summary_returns_id(self.repo, r[0], r[1], self.memo, self.depth + 1):
                        return ID
            if n in ("copy.copy", "bytes") and e.args and self.val(e.args[0], env, stored) == ID:
                return ID
        return None

    def run(self, want_return=False):
        """-> (ok, why).  ok iff on every normal bytes path the data field ends up holding the parameter
        (or, with want_return, every return value is the parameter)."""
        fn, p = self.fn, self.p
        results = []
        for path in enum_paths(fn.body, decide=lambda t, ev: eval_bool(t, self._atom_for(ev)), loops="skip"):
            if path.term == "raise":
                continue
            env = {p: ID}
            stored = None
            defined = False
            for e in path.events:
                if e[0] != "stmt":
                    continue
                s = e[1]
                if isinstance(s, ast.Assign) and len(s.targets) == 1:
                    t = s.targets[0]
                    if isinstance(t, ast.Name):
                        env[t.id] = self.val(s.value, env, stored)
                    elif isinstance(t, ast.Attribute) and ast.unparse(t) in ("self._data", "self.data"):
                        stored = self.val(s.value, env, stored)
                        defined = True
                    elif isinstance(t, ast.Attribute) and ast.unparse(t) == "self.avps":
                        # Grouped idiom: members re-derived from the parameter
                        if isinstance(s.value, ast.Call) and call_name(s.value) == "DiameterAVP.load" and s.value.args \
                                and self.val(s.value.args[0], env, stored) == ID:
                            stored = ID
                            defined = True
                elif isinstance(s, ast.Expr) and isinstance(s.value, ast.Call):
                    c = s.value
                    n = call_name(c)
                    args = [a for a in c.args if not (isinstance(a, ast.Name) and a.id == "self")]
                    d = kwarg(c, "data") or (args[0] if args else None)
                    if n.endswith(".parser_data") or n.endswith(".__init__") and not n.startswith("DiameterAVP."):
                        owner = n.rsplit(".", 1)[0]
                        meth = n.rsplit(".", 1)[1]
                        if owner == "self":
                            r = self.ci.find_method(meth)
                        else:
                            tci = self.repo.class_of_sym(self.repo.resolve(self.ci.mod, owner))
                            r = (tci, tci.methods[meth]) if tci is not None and meth in tci.methods else None
                        if r is not None and d is not None:
                            argv = self.val(d, env, stored)
                            if argv == ID:
                                ok = summary_stores_id(self.repo, r[0] if owner != "self" else self.ci, r[1], self.memo, self.depth + 1)
                                stored = ID if ok else None
                                defined = True
                            else:
                                stored = None
                                defined = True
                    elif n == "DiameterAVP.__init__":
                        stored = None       # resets data to None
            if want_return:
                rv = path.term_node.value if path.term == "return" and path.term_node is not None else None
                results.append(self.val(rv, env, stored) == ID if rv is not None else False)
            else:
                results.append(defined and stored == ID)
        if not results:
            return False, "no normal path on the bytes branch"
        return all(results), f"{results.count(False)} of {len(results)} bytes paths do not keep the given bytes"

    def _atom_for(self, events):
        # rebuild env lazily is expensive; for isinstance tests only the parameter itself matters
        return self.atom({self.p: ID})


def summary_stores_id(repo, ci, fn, memo, depth=0):
    key = ("S", id(fn), ci.qual)
    if key in memo:
        return memo[key]
    memo[key] = False
    if depth > 6:
        return False
    params = [a.arg for a in fn.args.args if a.arg != "self"]
    if not params:
        return False
    ok, _ = Ident(repo, ci, fn, params[0], memo, depth).run()
    memo[key] = ok
    return ok


def summary_returns_id(repo, ci, fn, memo, depth=0):
    key = ("R", id(fn), ci.qual)
    if key in memo:
        return memo[key]
    memo[key] = False
    params = [a.arg for a in fn.args.args if a.arg != "self"]
    if not params:
        return False
    ok, _ = Ident(repo, ci, fn, params[0], memo, depth).run(want_return=True)
    memo[key] = ok
    return ok


def check(ctx):
    repo = ctx.repo
    avp = ctx.need(repo.cls("bromelia.base.DiameterAVP"), "DiameterAVP")
    msg = ctx.need(repo.cls("bromelia.base.DiameterMessage"), "DiameterMessage")
    ld = ctx.need(avp.methods.get("load"), "DiameterAVP.load")
    construct = f"{avp.qual}.load"

    # ---- 1 field flow ---------------------------------------------------------------------
    ctx.clause = "1-wire-field-flow"
    tmp = None
    for n in walk_no_nested(ld):
        if isinstance(n, ast.Assign) and isinstance(n.value, ast.Call) and call_name(n.value) == "DiameterAVP" \
                and isinstance(n.targets[0], ast.Name):
            tmp = n.targets[0].id
    if tmp is None:
        ctx.undecided("R-FLOW/wire-fields", construct, avp.where(ld), "temporary DiameterAVP() not found", key="tmp")
    else:
        wire = set()
        for n in walk_no_nested(ld):
            if isinstance(n, ast.Assign) and isinstance(n.targets[0], ast.Attribute) and isinstance(n.targets[0].value, ast.Name) \
                    and n.targets[0].value.id == tmp and "stream" in ast.unparse(n.value):
                wire.add(n.targets[0].attr.lstrip("_"))
        ctx.decide({"code", "flags", "vendor_id", "data"} <= wire, "R-FLOW/wire-fields", construct, avp.where(ld),
                   f"wire fields parsed: {sorted(wire)}", f"wire fields parsed are {sorted(wire)}: code/flags/vendor_id/data expected",
                   key="parsed", nontrivial=False)
        # registry-built object, on the terms of one loop iteration (bsa.sym): T = the temporary DiameterAVP()
        from .c01 import avp_loop_paths
        from .. import sym as _s
        lp_ = avp_loop_paths(repo, avp, ld)
        T = ("call", ("name", "DiameterAVP"), (), ())
        if lp_ is None:
            ctx.undecided("R-FLOW/wire-fields", construct, avp.where(ld), "reader loop not recognised", key="ctor")
        else:
            loop_, paths_, idx_, obj_ = lp_
            done = [p_ for p_ in paths_ if p_.term in ("fall", "continue")
                    and not any(isinstance(c[0], tuple) and c[0][0] == "exc" and c[0][1] == "IndexError" for c in p_.conds)]

            def mentions(t, what):
                if t == what:
                    return True
                return isinstance(t, tuple) and any(mentions(x, what) for x in t if isinstance(x, tuple))
            flows, app_ok, unk_ok, n_known, n_unknown, shown = None, True, True, 0, 0, []
            for p_ in done:
                apps = [e[1][2][0] for e in p_.effects if e[0] == "call" and isinstance(e[1], tuple) and e[1][0] == "call"
                        and e[1][1][0] == "attr" and e[1][1][2] == "append" and len(e[1][2]) == 1]
                keyerr = any(isinstance(c[0], tuple) and c[0][0] == "exc" and "KeyError" in c[0][1] for c in p_.conds)
                shown.append(("unknown" if keyerr else "known", [_s.show(a)[:60] for a in apps]))
                if keyerr:
                    n_unknown += 1
                    unk_ok = unk_ok and apps == [T]
                    continue
                n_known += 1
                good = len(apps) == 1 and isinstance(apps[0], tuple) and apps[0][0] == "call" and isinstance(apps[0][1], tuple) \
                    and apps[0][1][0] == "call" and _s.show(apps[0][1][1]).endswith("get_avp_class") and apps[0][1][2] == (T,)
                app_ok = app_ok and good
                if not good:
                    continue
                built = apps[0]
                fl = set()
                for a_ in list(built[2]) + [v for _, v in built[3]]:
                    for f in ("data", "flags", "vendor_id", "code"):
                        if a_ in (("attr", T, f), ("attr", T, "_" + f)) or a_ == p_.get(f"{obj_}._{f}", object()):
                            fl.add(f)
                for e in p_.effects:
                    if e[0] == "store" and isinstance(e[1], str) and "." in e[1] and p_.get(e[1].rsplit(".", 1)[0]) == built:
                        f = e[1].rsplit(".", 1)[1].lstrip("_")
                        if e[2] in (("attr", T, f), ("attr", T, "_" + f)) or e[2] == p_.get(f"{obj_}._{f}", object()):
                            fl.add(f)
                flows = fl if flows is None else flows & fl
            if n_known == 0:
                ctx.undecided("R-FLOW/wire-fields", construct, avp.where(ld), "registry-dispatched constructor call not found", key="ctor")
            else:
                for f in ("data", "flags"):
                    ctx.decide(f in (flows or set()), "R-FLOW/wire-fields", construct, avp.where(loop_),
                               f"wire {f} flows into the dictionary-class object",
                               f"the wire `{f}` field of a known AVP does not flow into the object built by the dictionary class "
                               f"(only {sorted(flows or set())} do): the decoded AVP carries the class default instead of what was on the wire",
                               key=f"flow:{f}")
                ctx.decide(app_ok and unk_ok, "R-FLOW/wire-fields", construct, avp.where(ld),
                           "known AVPs append the class object, unknown ones the generic AVP",
                           f"load appends {shown}", key="appended")
                ctx.decide(n_unknown > 0 and unk_ok, "R-DOM/unknown-avp", construct, avp.where(ld),
                           "an unknown (vendor, code) falls back to the generic AVP",
                           "a (vendor, code) missing from the registry is not materialised as the generic AVP", key="unknown")

    # the V-flag predicate used by the decoder masks the parsed flags with 0x80
    um = ctx.need(repo.mods.get("bromelia.utils"), "module bromelia.utils")
    iv = ctx.need(um.funcs.get("is_vendor_id"), "bromelia.utils.is_vendor_id")
    consts = [repo.fold(um, n) for n in ast.walk(iv) if isinstance(n, ast.Name) and n.id.isupper()]
    consts = [c for c in consts if isinstance(c, bytes)]
    src = ast.unparse(iv)
    ctx.decide(consts == [b"\x80"] and "&" in src and "!= 0" in src, "R-TABLE/vflag-mask", "bromelia.utils.is_vendor_id",
               f"{um.rel}:{iv.lineno}", "decoder tests the V flag with mask 0x80",
               f"is_vendor_id masks the flags with {consts}: the decoder reads the Vendor-ID field for the wrong AVPs", key="vmask")
    sym = repo.resolve(avp.mod, "is_vendor_id")
    ctx.decide(sym is not None and sym.node is iv, "R-TABLE/vflag-mask", construct, avp.where(ld), "load uses bromelia.utils.is_vendor_id",
               "DiameterAVP.load does not use bromelia.utils.is_vendor_id", key="vmask_resolve", nontrivial=False)

    # ---- 1c decoding keeps no process-wide state --------------------------------------------------
    # the decoded objects are a function of the bytes alone: nothing on the decode path (stream readers, registry, type and
    # AVP constructors) may write a class-level / module-level variable - such state survives a decoding error and makes the
    # result of a later, well-formed stream depend on the history of earlier ones
    ctx.clause = "1c-decoder-stateless"
    n_dec = 0
    # functions the confirmed tree does not have (helpers, context managers, generators added later) that a function of the decode
    # path mentions - transitively - run on the decode path too
    from ..normalize import load_inventory as _li
    _inv_f = set(_li()["functions"])
    _is_path = lambda fi: (fi.mod.name == "bromelia.base" and fi.cls is not None and fi.cls.name in ("DiameterAVP", "DiameterMessage", "DiameterHeader", "DiameterAvpLoader")
                           and (fi.name in ("load", "get_avp_class", "_get_load_avps_dictionary", "has_updated") or fi.cls.name == "DiameterAvpLoader")) or \
        (fi.mod.name == "bromelia.types" and fi.cls is not None and fi.name in ("__init__", "parser_data")) or \
        (fi.mod.name.startswith("bromelia.avps.") and fi.cls is not None and fi.name == "__init__")
    _newf = [fi for fi in repo.funcs.values() if fi.qual not in _inv_f and ".<nested>" not in fi.qual]
    _new_on_path = set()
    _front = [fi for fi in repo.funcs.values() if _is_path(fi)]
    for _ in range(4):
        _names = {n_.id for fi in _front for n_ in ast.walk(fi.node) if isinstance(n_, ast.Name)} | \
            {n_.attr for fi in _front for n_ in ast.walk(fi.node) if isinstance(n_, ast.Attribute)}
        _add = [fi for fi in _newf if fi.name in _names and fi.qual not in _new_on_path]
        if not _add:
            break
        _new_on_path |= {fi.qual for fi in _add}
        _front = _add
    for fi in repo.funcs.values():
        mn = fi.mod.name
        on_path = (mn == "bromelia.base" and fi.cls is not None and fi.cls.name in ("DiameterAVP", "DiameterMessage", "DiameterHeader", "DiameterAvpLoader")
                   and (fi.name in ("load", "get_avp_class", "_get_load_avps_dictionary", "has_updated") or fi.cls.name == "DiameterAvpLoader")) or \
            (mn == "bromelia.types" and fi.cls is not None and fi.name in ("__init__", "parser_data")) or \
            (mn.startswith("bromelia.avps.") and fi.cls is not None and fi.name == "__init__")
        if not on_path and fi.qual not in _new_on_path:
            continue
        n_dec += 1
        _locals = {n_.id for n_ in ast.walk(fi.node) if isinstance(n_, ast.Name) and isinstance(n_.ctx, ast.Store)} | \
            {a_.arg for a_ in fi.node.args.posonlyargs + fi.node.args.args + fi.node.args.kwonlyargs}
        for x in walk_no_nested(fi.node):
            tgt = None
            if isinstance(x, (ast.Assign, ast.AugAssign, ast.AnnAssign)):
                for t in (x.targets if isinstance(x, ast.Assign) else [x.target]):
                    if isinstance(t, ast.Attribute) and isinstance(t.value, ast.Name) and t.value.id not in ("self", "cls"):
                        r_ = repo.resolve(fi.mod, t.value.id)
                        if r_ is not None and r_.kind == "class":
                            tgt = t
                        elif t.value.id not in _locals and t.value.id in fi.mod.assigns:
                            tgt = t          # attribute of a module-level object (a registry, a threading.local(), a counter holder)
                    elif isinstance(t, ast.Subscript) and isinstance(t.value, ast.Name) and t.value.id not in _locals \
                            and t.value.id in fi.mod.assigns:
                        tgt = t              # item of a module-level container
            elif isinstance(x, ast.Global):
                tgt = x
            elif isinstance(x, ast.Expr) and isinstance(x.value, ast.Call) and isinstance(x.value.func, ast.Name) and x.value.func.id == "setattr" \
                    and x.value.args and isinstance(x.value.args[0], ast.Name) and x.value.args[0].id not in _locals \
                    and x.value.args[0].id in fi.mod.assigns:
                tgt = x.value.args[0]
            if tgt is not None:
                ctx.violate("R-WHO/decoder-state", fi.qual, fi.where(x),
                            f"`{ast.unparse(x)[:70]}` writes process-wide state on the decoding path: what a byte stream decodes to "
                            f"then depends on earlier decodes (and a decoding error in between leaves the state behind)",
                            key="state:" + ast.unparse(tgt)[:40])
    if n_dec:
        ctx.hold("R-WHO/decoder-state", "bromelia decode path", "bromelia/", f"{n_dec} functions on the decode path write no class-level or "
                 f"global variable", key="stateless")

    # ---- 2 bytes identity ----------------------------------------------------------------------
    ctx.clause = "2-bytes-identity"
    memo = {}
    tclasses = avpdict.type_classes(repo)
    n_id = 0
    for ci in tclasses:
        ini = ci.methods.get("__init__")
        if ini is None:
            continue
        n_id += 1
        ok = summary_stores_id(repo, ci, ini, memo)
        ctx.decide(ok, "R-ALIAS/bytes-identity", f"{ci.qual}.__init__", ci.where(ini),
                   "bytes input is stored unchanged",
                   "on the isinstance(data, bytes) path the data field does not end up holding the given bytes: a decoded AVP "
                   "re-serialises to different bytes", key="bytes_identity")
    base, rows = avpdict.avp_rows(repo)
    for r in rows:
        if r.init is None or r.type_cls is None:
            continue
        special = any(k in r.ci.methods for k in ("parser_data", "encode")) or \
            any(not isinstance(s, ast.Expr) for s in r.init.body)
        n_id += 1
        params = [a.arg for a in r.init.args.args if a.arg != "self"]
        if not params:
            ctx.undecided("R-ALIAS/bytes-identity", f"{r.ci.qual}.__init__", r.ci.where(r.init), "no data parameter", key="param")
            continue
        ok, why = Ident(repo, r.ci, r.init, params[0], memo).run()
        ctx.decide(ok, "R-ALIAS/bytes-identity", f"{r.ci.qual}.__init__", r.ci.where(r.init),
                   "bytes input reaches the data field unchanged",
                   f"decoding hands the wire data to this constructor, but {why}", key="bytes_identity",
                   nontrivial=special)
    ctx.floor("identity_instances", n_id, 200)

    # ---- 3 splitter -----------------------------------------------------------------------------------
    ctx.clause = "3-splitter"
    _splitter(ctx, repo, msg)

    # ---- 4 registry ------------------------------------------------------------------------------------
    # decoding a Grouped AVP re-appends every member found on the wire: the append must not skip or reorder any (shared with C01)
    ctx.clause = "3b-grouped-members"
    from .c01 import _grouped
    _grouped(ctx, repo)
    ctx.clause = "4-registry"
    _registry(ctx, repo)
    ctx.clause = "4-direct-subclass"
    for r in rows:
        ctx.hold("R-TABLE/direct-subclass", r.ci.qual, r.ci.where(), "direct subclass of DiameterAVP", key="direct",
                 nontrivial=False)
    for ci in avpdict.indirect_avp_classes(repo):
        ctx.violate("R-TABLE/direct-subclass", ci.qual, ci.where(),
                    "derives from DiameterAVP only through another class: DiameterAVP.__subclasses__() does not list it, so "
                    "its (vendor, code) decodes to the parent class or a generic AVP", key="indirect")


def _splitter(ctx, repo, msg):
    ld = ctx.need(msg.methods.get("load"), "DiameterMessage.load")
    construct = f"{msg.qual}.load"
    loop = next((s for s in walk_no_nested(ld) if isinstance(s, ast.While)), None)
    if loop is None:
        ctx.undecided("R-MUSTPASS/splitter", construct, msg.where(ld), "no while loop", key="loop")
        return
    test_names = {n.id for n in ast.walk(loop.test) if isinstance(n, ast.Name)}
    stored = {t.id for x in walk_no_nested(loop) if isinstance(x, (ast.Assign, ast.AugAssign))
              for t in (x.targets if isinstance(x, ast.Assign) else [x.target]) if isinstance(t, ast.Name)}
    idx = next((n for n in sorted(test_names) if n in stored), "index")
    # the loop must go on whenever at least one minimal (20-octet, header-only) message is still unconsumed:
    # rewrite the test over r = len(stream) - index and normalise it with the interval algebra
    from ..intervals import ISet, test_set, Undecidable
    import copy as _copy

    class _R(ast.NodeTransformer):
        def visit_BinOp(self, node):
            if isinstance(node.op, ast.Sub) and ast.unparse(node.left) == "len(stream)" and ast.unparse(node.right) == idx:
                return ast.Name(id="__r", ctx=ast.Load())
            return self.generic_visit(node)

        def visit_Compare(self, node):
            if len(node.ops) == 1 and ast.unparse(node.left) == idx and ast.unparse(node.comparators[0]) == "len(stream)":
                flip = {ast.Lt: ast.Gt, ast.LtE: ast.GtE, ast.NotEq: ast.NotEq, ast.Gt: ast.Lt, ast.GtE: ast.LtE, ast.Eq: ast.Eq}
                return ast.Compare(left=ast.Name(id="__r", ctx=ast.Load()), ops=[flip[type(node.ops[0])]()],
                                   comparators=[ast.Constant(value=0)])
            if len(node.ops) == 1 and ast.unparse(node.comparators[0]) == idx and ast.unparse(node.left) == "len(stream)":
                return ast.Compare(left=ast.Name(id="__r", ctx=ast.Load()), ops=[node.ops[0]], comparators=[ast.Constant(value=0)])
            return self.generic_visit(node)
    rt = ast.fix_missing_locations(_R().visit(_copy.deepcopy(loop.test)))
    try:
        cont = test_set(repo, msg.mod, rt, "__r", ISet.full(0, 1 << 24))
        need = ISet([(20, 1 << 24)], 0, 1 << 24)
        missing = need.minus(cont)
        ctx.decide(missing.empty(), "R-TABLE/splitter", construct, msg.where(loop),
                   f"the loop continues while {cont} octets remain (covers every remainder >= 20)",
                   f"the splitter loop `while {ast.unparse(loop.test)}` stops with {missing.min()} unconsumed octets left: a final "
                   f"message of exactly that size (e.g. a header-only message) is silently dropped", key="loop_continues")
    except Undecidable as e:
        ctx.undecided("R-TABLE/splitter", construct, msg.where(loop), f"loop test not normalisable over the remaining length: {e}",
                      key="loop_continues")
    # one iteration on terms: I = index at the message start.  On every completing path exactly one
    # DiameterMessage(H, A, loaded=True) is appended with H = DiameterHeader.load(stream[I:I+20]),
    # A = DiameterAVP.load(stream[I+20 : I+H.get_length()]) and the index becomes I + H.get_length().
    from .. import sym
    I, ST = sym.S("int:I"), sym.S("stream")
    params = [a_.arg for a_ in ld.args.args if a_.arg not in ("self", "cls")]
    sname = params[0] if params else "stream"
    it = sym.Interp(fold=lambda e: repo.fold(msg.mod, e))
    try:
        paths = it.loop_body(loop, {idx: I, sname: ST})
    except sym.TooMany:
        ctx.undecided("R-MUSTPASS/splitter", construct, msg.where(loop), "too many paths through the loop body", key="ctor")
        return
    done = [p_ for p_ in paths if p_.term in ("fall", "continue")]
    if not done:
        ctx.undecided("R-MUSTPASS/splitter", construct, msg.where(loop), "no completing path through the loop body", key="ctor")
        return
    H = ("call", ("attr", ("name", "DiameterHeader"), "load"), (("slice", ST, I, sym.add(I, 20)),), ())
    HL = ("call", ("attr", H, "get_length"), (), ())
    A = ("call", ("attr", ("name", "DiameterAVP"), "load"), (("slice", ST, sym.add(I, 20), sym.add(I, HL)),), ())
    lists = set()
    for p_ in done:
        apps = [e for e in p_.effects if e[0] == "call" and isinstance(e[1], tuple) and e[1][0] == "call"
                and e[1][1][0] == "attr" and e[1][1][2] == "append" and len(e[1][2]) == 1]
        built = [e[1][2][0] for e in apps if isinstance(e[1][2][0], tuple) and e[1][2][0][0] == "call"
                 and e[1][2][0][1] in (("name", "DiameterMessage"), ("name", "cls"))]
        ctx.decide(len(apps) == 1 and len(built) == 1, "R-MUSTPASS/splitter", construct, msg.where(loop),
                   "exactly one append of the constructed message per iteration",
                   f"the constructed message is not appended exactly once per iteration (lost or duplicated message): "
                   f"{[sym.show(e[1])[:80] for e in apps]}", key="append_once")
        if len(built) != 1:
            continue
        lists.add(sym.show(apps[0][1][1][1]))
        m = built[0]
        kw = dict(m[3])
        h = m[2][0] if m[2] else kw.get("header")
        a = m[2][1] if len(m[2]) > 1 else kw.get("avps")
        lo = m[2][2] if len(m[2]) > 2 else kw.get("loaded")
        ctx.decide(lo is True, "R-DOM/loaded", construct, msg.where(loop), "decoded messages are constructed with loaded=True",
                   "decoded messages are not constructed with loaded=True: append() recomputes the Message Length instead of "
                   "keeping the one on the wire", key="loaded")
        ctx.decide(h == H, "R-TABLE/splitter", construct, msg.where(loop), "header parsed from stream[index:index+20]",
                   f"header is parsed from `{sym.show(h)}`", key="header_slice")
        ctx.decide(a == A, "R-TABLE/splitter", construct, msg.where(loop), "AVPs parsed from stream[index+20 : index+Message Length]",
                   f"AVPs are parsed from `{sym.show(a)}`, expected DiameterAVP.load(stream[I+20:I+header.get_length()])", key="avp_slice")
        adv = sym.add(p_.get(idx), I, -1)
        ctx.decide(adv == HL, "R-TABLE/splitter", construct, msg.where(loop), "index advances by the Message Length",
                   f"index advances by `{sym.show(adv)}`", key="advance")
    rets = [ast.unparse(n.value) for n in ast.walk(ld) if isinstance(n, ast.Return) and n.value is not None]
    ctx.decide(len(lists) == 1 and rets == sorted(lists), "R-MUSTPASS/splitter", construct, msg.where(ld), "returns the list in append order",
               f"returns {rets} while the messages are appended to {sorted(lists)}", key="return", nontrivial=False)
    # constructor: self._loaded = loaded precedes the appends
    ini = ctx.need(msg.methods.get("__init__"), "DiameterMessage.__init__")
    icfg = make_cfg(repo, ini)
    dom = icfg.dominators()
    st = [n for n in icfg.nodes.values() if n.kind == "stmt" and ast.unparse(n.ast) == "self._loaded = loaded"]
    ap = [n for n in icfg.nodes.values() if any(call_name(x) in ("self.append", "self.extend") for x in node_calls(n))]
    ok = bool(st) and bool(ap) and all(st[0].id in dom[a_.id] for a_ in ap)
    ctx.decide(ok, "R-DOM/loaded", f"{msg.qual}.__init__", msg.where(ini), "the loaded flag is stored before the AVPs are appended",
               "DiameterMessage.__init__ appends the AVPs before (or without) storing the loaded flag", key="loaded_first")
    apf = ctx.need(msg.methods.get("append"), "DiameterMessage.append")
    from .. import sym as _sym
    ok, n_st = True, 0
    for p_ in _sym.Interp().run(strip_doc(apf.body)):
        st_ = [e for e in p_.effects if e[0] == "store" and e[1] == "self.header.length"]
        n_st += len(st_)
        unl = [tv for c, tv in p_.conds if _sym.show(c) in ("self._loaded", "self.loaded")]
        if st_ and unl != [False]:
            ok = False
    ctx.decide(ok and n_st > 0, "R-DOM/loaded", f"{msg.qual}.append", msg.where(apf), "length is only touched when not loaded",
               "append updates the Message Length outside the `if not self._loaded` guard", key="loaded_guard")


def _registry(ctx, repo):
    """Writer and reader of the (vendor, code) -> class table, decided on the terms they build (bsa.sym): one loop
    iteration of the writer must leave table[K][X.code] = X without replacing an existing bucket, the reader must
    return table[K][P.code], and both must pick K = the Vendor-ID, or VENDOR_ID_DEFAULT when it is None."""
    from .. import sym
    ldr = ctx.need(repo.cls("bromelia.base.DiameterAvpLoader"), "DiameterAvpLoader")
    r = ctx.need(ldr.methods.get("get_avp_class"), "get_avp_class")
    # the writer is the loader method that walks the AVP classes (whatever it is called; a new helper is inlined into its caller)
    def walks_classes(fn_):
        for n in walk_no_nested(fn_):
            if isinstance(n, ast.For):
                itx_ = ast.unparse(n.iter)
                if "__subclasses__()" in itx_:
                    return True
                if isinstance(n.iter, ast.Name) and any(isinstance(a_, ast.Assign) and len(a_.targets) == 1 and isinstance(a_.targets[0], ast.Name)
                                                        and a_.targets[0].id == n.iter.id and "__subclasses__()" in ast.unparse(a_.value)
                                                        for a_ in walk_no_nested(fn_)):
                    return True
        return False
    wname = next((n_ for n_, f_ in sorted(ldr.methods.items()) if walks_classes(f_)), "_get_load_avps_dictionary")
    w = ctx.need(ldr.methods.get(wname), "the DiameterAvpLoader method that builds the (vendor, code) table")
    bm = ldr.mod
    default = repo.fold(bm, ast.Name(id="VENDOR_ID_DEFAULT", ctx=ast.Load()))
    wq, rq = f"{ldr.qual}.{wname}", f"{ldr.qual}.get_avp_class"
    # the table is published whole: the loader is a module-level singleton shared by every decoding thread, so the object bound to
    # self.avps must not be filled or changed in place (a second thread would look up an empty or partial table, get KeyError and
    # decode a known AVP as a generic one) - it is built in a local and assigned when complete
    inplace = []
    for mname, fn_ in sorted(ldr.methods.items()):
        for n in walk_no_nested(fn_):
            base = None
            if isinstance(n, ast.Subscript) and isinstance(n.ctx, (ast.Store, ast.Del)):
                base = n.value
            elif isinstance(n, ast.Call) and isinstance(n.func, ast.Attribute) and n.func.attr in ("setdefault", "update", "clear", "pop", "popitem", "__setitem__"):
                base = n.func.value
            while isinstance(base, (ast.Subscript, ast.Call)):
                base = base.value if isinstance(base, ast.Subscript) else (base.func.value if isinstance(base.func, ast.Attribute) else None)
            if base is not None and ast.unparse(base) in ("self.avps", "self._avps_table"):
                inplace.append((mname, n))
    ctx.decide(not inplace, "R-PUBLISH/registry", f"{ldr.qual}.avps", ldr.where(inplace[0][1] if inplace else w),
               "the shared class table is only ever replaced by a completely built one",
               f"{ldr.name}.{inplace[0][0] if inplace else ''} changes the table bound to self.avps in place (`{ast.unparse(inplace[0][1])[:60] if inplace else ''}`): "
               f"the loader is one module-level object used by every decoding thread, so while one thread refills the table another one "
               f"looks a known (vendor, code) up in an empty or partial table, gets KeyError and materialises the AVP as a generic DiameterAVP",
               key="published_whole")
    loops = [n for n in walk_no_nested(w) if isinstance(n, ast.For) and isinstance(n.target, ast.Name)]
    if len(loops) != 1 or not isinstance(default, bytes):
        ctx.undecided("R-TABLE/registry", wq, ldr.where(w), "expected one loop over the AVP classes and a constant default vendor", key="writer")
        return
    lp = loops[0]
    X = sym.S(lp.target.id)
    it = sym.Interp(fold=lambda e: repo.fold(bm, e))
    itx = ast.unparse(lp.iter)
    src_ok = itx == "DiameterAVP.__subclasses__()"
    if isinstance(lp.iter, ast.Name):
        defs = [n.value for n in walk_no_nested(w) if isinstance(n, ast.Assign) and len(n.targets) == 1
                and isinstance(n.targets[0], ast.Name) and n.targets[0].id == lp.iter.id]
        src_ok = len(defs) == 1 and ast.unparse(defs[0]) == "DiameterAVP.__subclasses__()"
    ctx.decide(src_ok, "R-TABLE/registry", wq, ldr.where(w), "registry enumerates DiameterAVP.__subclasses__()",
               f"registry is built from `{itx}`, not from DiameterAVP.__subclasses__()", key="subclasses", nontrivial=False)

    def vend_none(p_, obj):
        for c, tv in p_.conds:
            if c == ("cmp", "Is", ("attr", obj, "vendor_id"), None):
                return tv
        return None

    def key_ok(p_, K, obj):
        vn = vend_none(p_, obj)
        if vn is True:
            return K == default
        if vn is False:
            return K == ("attr", obj, "vendor_id")
        return False
    rows, okw = [], True
    code = ("attr", X, "code")
    tables = {n.value.id for n in walk_no_nested(w) if isinstance(n, ast.Return) and isinstance(n.value, ast.Name)} | \
        {n.value.id for n in walk_no_nested(w) if isinstance(n, ast.Assign) and len(n.targets) == 1 and ast.unparse(n.targets[0]) == "self.avps"
         and isinstance(n.value, ast.Name)}
    for p_ in it.loop_body(lp, {}):
        if p_.term not in ("fall", "continue"):
            okw = False
            rows.append(f"path ends with {p_.term}")
            continue
        entries, nclob = sym.table_writes(p_, lambda t: isinstance(t, tuple) and (t[0] == "name" and t[1] in tables or sym.show(t) == "self.avps"))
        clobber = nclob > 0
        final = None
        for k1, k2, v in entries:
            final = k1 if (k2 == code and v == X) else ("?", sym.show(k2), sym.show(v))
        rows.append((vend_none(p_, X), sym.show(final) if final is not None else None, clobber))
        okw = okw and final is not None and not clobber and key_ok(p_, final, X)
    ctx.decide(okw and bool(rows), "R-TABLE/registry", wq, ldr.where(w), "registry is written as [vendor][code] -> class",
               f"registry writes (vendor is None, key, replaces an existing bucket) = {rows}: expected table[vendor or default][code] = class "
               f"without replacing a bucket that already exists", key="writer")
    params = [a.arg for a in r.args.args if a.arg != "self"]
    P = sym.S(params[0]) if params else None
    rrows, okr = [], bool(params)
    for p_ in sym.Interp(fold=lambda e: repo.fold(bm, e)).run(strip_doc(r.body), sym.PathState({params[0]: P} if params else {}, [], [])):
        if p_.term != "return":
            if p_.term == "fall":
                okr = False
                rrows.append("falls off the end")
            continue
        v = p_.value
        good = isinstance(v, tuple) and v[0] == "sub" and v[2] == ("attr", P, "code") and isinstance(v[1], tuple) and v[1][0] == "sub" \
            and key_ok(p_, v[1][2], P)
        rrows.append((vend_none(p_, P), sym.show(v)))
        okr = okr and good
    ctx.decide(okr and bool(rrows), "R-TABLE/registry", rq, ldr.where(r), "registry is read as [vendor][code]",
               f"registry is read as (vendor is None, value) = {sorted(set(map(str, rrows)))}: the writer stores table[vendor or default][code]", key="reader")
