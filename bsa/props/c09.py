"""C09 - typed command classes build exactly the command they name."""
import ast
import json
import os

from ..core import AnalysisError, VERIF
from ..loader import is_unknown
from ..astutil import fn_calls, call_name, kwarg, make_cfg, must_pass, node_calls, walk_no_nested
from .. import avpdict, cmddict
from ..paths import enum_paths, eval_bool

META = {
    "explanation": "Table analysis over every DiameterRequest/DiameterAnswer subclass under bromelia/lib: kind vs name, folded "
                   "command code / application id widths, request-answer agreement, mandatory keys vs constructor parameters, "
                   "misspelt table keys, constructor body shape (locals() handed to _load unchanged), default/type "
                   "compatibility, decision table of DiameterMessage._load over (mandatory?, optional?, None?), the flag rule "
                   "of set_flag_by_app_id, and the frozen published argument->AVP-class pairs.",
    "decided": ["kind/name/base agreement", "command code and application id widths", "pair agreement",
                "mandatory keys are parameters", "no misspelt table key", "published argument->AVP class pairs",
                "constructor body shape", "defaults type-compatible", "_load decision table", "flag rule"],
    "not_decided": ["per-value construction and the serialise/decode round trip of built messages"],
    "trusted_base": ["Python ast", "constant folder", "reference/commands.json frozen from the pinned tree"],
    "assumptions": ["typed command classes live under bromelia/lib/*/messages.py"],
}


def _kind_of_default(repo, mod, node):
    v = repo.fold(mod, node)
    if is_unknown(v):
        return None
    return v


def check(ctx):
    repo = ctx.repo
    req, ans, rows = cmddict.command_rows(repo)
    ctx.need(req, cmddict.REQ)
    ctx.need(ans, cmddict.ANS)
    ctx.floor("command_classes", len(rows), 50)
    base, arows = avpdict.avp_rows(repo)
    avp_by_ci = {id(r.ci): r for r in arows}

    # -- 1 kind ---------------------------------------------------------------
    ctx.clause = "1-kind"
    for r in rows:
        ci = r.ci
        st, suf = cmddict.stem(ci.name)
        want = {"Request": "request", "Answer": "answer"}.get(suf)
        ctx.decide(want == r.kind, "R-TABLE/kind", ci.qual, ci.where(),
                   f"{r.kind} class named *{suf}",
                   f"class name says {suf} but it derives from Diameter{r.kind.capitalize()}: the R flag of the built "
                   f"message contradicts the command it names", key="kind", nontrivial=False)
        if r.init is None:
            ctx.undecided("R-TABLE/kind", ci.qual, ci.where(), "no own __init__", key="init")
            continue
        if r.base_init is None or r.load_call is None:
            ctx.undecided("R-MUSTPASS/ctor", ci.qual, ci.where(r.init),
                          "constructor does not call Base.__init__ and Base._load in a recognised form", key="ctor")
            continue
        bn = call_name(r.base_init).split(".")[0]
        ln = call_name(r.load_call).split(".")[0]
        ok = bn in (r.base.name, "super()") and ln in (r.base.name, "self", "DiameterMessage")
        ctx.decide(ok, "R-TABLE/kind", ci.qual, ci.where(r.base_init),
                   "explicit initialiser calls use the declared base",
                   f"constructor calls {bn}.__init__ / {ln}._load but the class derives from {r.base.name}",
                   key="base_calls")

    # -- 2 widths ----------------------------------------------------------------
    ctx.clause = "2-header-widths"
    folded = {}
    for r in rows:
        ci = r.ci
        if r.base_init is None:
            continue
        cc = repo.fold(ci.mod, r.command_code_node) if r.command_code_node is not None else None
        ctx.decide(isinstance(cc, bytes) and len(cc) == 3, "R-WIDTH/command_code", ci.qual, ci.where(r.base_init),
                   f"command_code folds to {cc!r}",
                   f"command_code= does not fold to 3 bytes ({cc!r}); DiameterHeader.dump omits a None field and any "
                   f"other width breaks the 20-byte header", key="command_code")
        app = None
        kind = None
        n = r.app_id_node
        if n is None:
            kind = "missing"
        elif isinstance(n, ast.Name) and n.id in r.params:
            kind = "param"
            d = r.defaults.get(n.id)
            dv = repo.fold(ci.mod, d) if d is not None else None
            # accepted when guarded: `if not <param>: raise` before the base initialiser, or default folds to 4 bytes
            # the base initialiser runs only on the branch where the parameter is truthy, the other branch raises
            from ..astutil import guards as _guards
            g_ = _guards(r.init)
            site = next((st_ for st_ in walk_no_nested(r.init) if isinstance(st_, ast.stmt) and st_ is not r.init
                         and any(x is r.base_init for x in ast.walk(st_)) and not isinstance(st_, (ast.If, ast.With, ast.Try, ast.For, ast.While))), None)
            truthy = lambda conds, tv: any(isinstance(t, ast.Name) and t.id == n.id and v is tv for t, v in conds)
            guarded = site is not None and truthy(g_.get(id(site), []), True) and \
                any(isinstance(x, ast.Raise) and truthy(g_.get(id(x), []), False) for x in walk_no_nested(r.init))
            ok = guarded or (isinstance(dv, bytes) and len(dv) == 4)
            ctx.decide(ok, "R-WIDTH/application_id", ci.qual, ci.where(r.base_init),
                       f"application_id is parameter `{n.id}` ({'guarded non-empty' if guarded else 'default 4 bytes'})",
                       f"application_id comes from parameter `{n.id}` whose default is {dv!r} and is not guarded: "
                       f"a None Application-ID yields a 16-byte header under a Message Length counting 20",
                       key="application_id")
        else:
            app = repo.fold(ci.mod, n)
            kind = "const"
            ctx.decide(isinstance(app, bytes) and len(app) == 4, "R-WIDTH/application_id", ci.qual,
                       ci.where(r.base_init), f"application_id folds to {app!r}",
                       f"application_id= folds to {app!r}, not 4 bytes: DiameterHeader.dump omits a None field, so the "
                       f"header is 16 bytes under a Message Length that counts 20 (own decoder rejects the message)",
                       key="application_id")
        if kind == "missing":
            ctx.violate("R-WIDTH/application_id", ci.qual, ci.where(r.base_init),
                        "no application_id passed to the base initialiser", key="application_id")
        folded[id(r)] = (cc, app, kind)

    # -- 3 pairs ---------------------------------------------------------------------
    ctx.clause = "3-pairs"
    by_mod = {}
    for r in rows:
        st, suf = cmddict.stem(r.ci.name)
        by_mod.setdefault((r.ci.mod.name, st), {})[suf] = r
    npairs = 0
    for (mn, st), d in sorted(by_mod.items()):
        if "Request" in d and "Answer" in d:
            npairs += 1
            a, b = d["Request"], d["Answer"]
            fa, fb = folded.get(id(a)), folded.get(id(b))
            if not fa or not fb:
                continue
            ctx.decide(fa[0] == fb[0], "R-TABLE/pair", f"{mn}.{st}", a.ci.where(),
                       f"request and answer share command code {fa[0]!r}",
                       f"{a.ci.name} has command code {fa[0]!r} but {b.ci.name} has {fb[0]!r}", key="pair_code")
            if fa[2] == "const" and fb[2] == "const" and isinstance(fa[1], bytes) and isinstance(fb[1], bytes):
                ctx.decide(fa[1] == fb[1], "R-TABLE/pair", f"{mn}.{st}", a.ci.where(),
                           f"request and answer share application id {fa[1]!r}",
                           f"{a.ci.name} has Application-ID {fa[1]!r} but {b.ci.name} has {fb[1]!r}", key="pair_app")
    ctx.floor("request_answer_pairs", npairs, 24)

    # -- 4/5 tables vs parameters -----------------------------------------------------------
    ctx.clause = "4-mandatory-are-parameters"
    for r in rows:
        ci = r.ci
        for tn in ("mandatory", "optionals"):
            t = getattr(r, tn)
            if t is None or t == "NOT_DICT":
                ctx.undecided("R-TABLE/tables", ci.qual, ci.where(), f"`{tn}` table missing or not a dict literal", key=tn)
        if not isinstance(r.mandatory, dict) or not isinstance(r.optionals, dict):
            continue
        for k, (vnode, vci) in r.mandatory.items():
            ctx.decide(k in r.params, "R-TABLE/mandatory-param", ci.qual, ci.where(vnode),
                       f"mandatory `{k}` is a constructor parameter",
                       f"mandatory key `{k}` is not a constructor parameter: _load never sees it, so the AVP is neither "
                       f"required nor (without **kwargs) present", key=f"mandatory:{k}")
        for tn in ("mandatory", "optionals"):
            for k, (vnode, vci) in getattr(r, tn).items():
                ctx.decide(vci is not None and id(vci) in avp_by_ci, "R-TABLE/value-class", ci.qual, ci.where(vnode),
                           f"{tn}[{k}] is dictionary class {vci.name if vci else None}",
                           f"{tn}[{k}] = {ast.unparse(vnode)} does not resolve to a dictionary AVP class",
                           key=f"{tn}:{k}", nontrivial=False)
        both = set(r.mandatory) & set(r.optionals)
        ctx.decide(not both, "R-TABLE/tables", ci.qual, ci.where(), "mandatory and optionals are disjoint",
                   f"keys {sorted(both)} are listed both as mandatory and optional", key="disjoint", nontrivial=False)
    ctx.clause = "5-misspelt-keys"

    def norm(s):
        s = s.lower()
        if s.endswith("_avp"):
            s = s[:-4]
        return s.replace("_", "")
    for r in rows:
        ci = r.ci
        if not isinstance(r.mandatory, dict) or not isinstance(r.optionals, dict):
            continue
        keys = dict(r.mandatory)
        keys.update(r.optionals)
        free = [p for p in r.params if p not in keys and p != getattr(r, "kwargs_name", None)]
        bad = []
        for p in free:
            for k, (vnode, vci) in keys.items():
                if k in r.params:
                    continue
                cname = norm(vci.name[:-3]) if vci is not None and vci.name.endswith("AVP") else None
                if norm(k) == norm(p) or (cname and cname == norm(p)):
                    bad.append((p, k))
        ctx.decide(not bad, "R-TABLE/key-spelling", ci.qual, ci.where(r.init or ci.node),
                   "every parameter that names a table entry is keyed identically",
                   f"parameter(s) {[b[0] for b in bad]} feed no table entry while table key(s) {[b[1] for b in bad]} name the "
                   f"same AVP under a different spelling: a plain value passed for the parameter is rejected",
                   key="spelling:" + ",".join(f"{p}/{k}" for p, k in bad))

    # -- 7 body shape -----------------------------------------------------------------
    ctx.clause = "7-constructor-body"
    for r in rows:
        ci = r.ci
        if r.init is None or r.load_call is None or r.base_init is None:
            continue
        lc = r.load_call
        args = [a for a in lc.args if not (isinstance(a, ast.Name) and a.id == "self")]
        ok = len(args) == 1 and isinstance(args[0], ast.Call) and call_name(args[0]) == "locals" and not args[0].args
        snap = None
        if not ok and len(args) == 1 and isinstance(args[0], ast.Name):
            # a snapshot `v = locals()` taken in the constructor itself (bound once) and handed on
            defs_ = [n for n in walk_no_nested(r.init) if isinstance(n, ast.Assign) and len(n.targets) == 1 and isinstance(n.targets[0], ast.Name)
                     and n.targets[0].id == args[0].id]
            if len(defs_) == 1 and isinstance(defs_[0].value, ast.Call) and call_name(defs_[0].value) == "locals" and not defs_[0].value.args \
                    and defs_[0] in r.init.body:
                ok, snap = True, defs_[0]
        ctx.decide(ok, "R-FLOW/locals", ci.qual, ci.where(lc), "_load receives locals()",
                   f"_load receives `{ast.unparse(args[0]) if args else None}` instead of locals(): declaration order / "
                   f"argument values are not what is loaded", key="locals")
        # names bound before the _load call other than parameters
        bound = []
        limit = (lc.lineno, lc.col_offset)
        if snap is not None:
            # what is loaded is what was bound when the snapshot was taken (statements in front of it in the constructor body)
            before_snap = {id(x) for st_ in r.init.body[:r.init.body.index(snap)] for x in ast.walk(st_)}
        for n in walk_no_nested(r.init):
            if snap is not None:
                if isinstance(n, ast.Name) and isinstance(n.ctx, ast.Store) and id(n) in before_snap:
                    bound.append(n.id)
                continue
            if isinstance(n, ast.Name) and isinstance(n.ctx, ast.Store) and (n.lineno, n.col_offset) < limit:
                bound.append(n.id)
            if isinstance(n, (ast.Import, ast.ImportFrom)) and n.lineno < lc.lineno:
                bound += [a.asname or a.name for a in n.names]
        extra = [b for b in bound if b not in r.params]
        ctx.decide(not extra, "R-FLOW/locals", ci.qual, ci.where(r.init),
                   "no local other than the parameters is bound before _load(locals())",
                   f"locals {sorted(set(extra))} are bound before _load(self, locals()): they are loaded as if they were "
                   f"AVP arguments", key="extra_locals")
        rebound = [b for b in bound if b in r.params]
        ctx.decide(not rebound, "R-FLOW/locals", ci.qual, ci.where(r.init),
                   "no parameter is rebound before _load",
                   f"parameters {sorted(set(rebound))} are rebound before _load: the loaded value is not the argument",
                   key="rebound")
        cfg = make_cfg(repo, r.init)
        on_all = must_pass(cfg, lambda n: any(c is lc for c in node_calls(n)))
        order = (r.base_init.lineno, r.base_init.col_offset) < (lc.lineno, lc.col_offset)
        ctx.decide(on_all and order, "R-MUSTPASS/ctor", ci.qual, ci.where(lc),
                   "Base.__init__ then _load on every normal path",
                   "_load is skipped on some normal path or precedes Base.__init__", key="load_all_paths")
        # parameter order check: var-kwargs last (Python enforces), nothing to do

    # -- 8 defaults -------------------------------------------------------------------------
    ctx.clause = "8-defaults"
    nd = 0
    for r in rows:
        ci = r.ci
        if not isinstance(r.mandatory, dict) or not isinstance(r.optionals, dict):
            continue
        keys = dict(r.optionals)
        keys.update(r.mandatory)
        for p, dnode in r.defaults.items():
            if p not in keys:
                continue
            vci = keys[p][1]
            if vci is None or id(vci) not in avp_by_ci:
                continue
            v = repo.fold(ci.mod, dnode)
            if is_unknown(v) or v is None:
                continue
            nd += 1
            arow = avp_by_ci[id(vci)]
            tname = arow.type_cls.name if arow.type_cls else None
            ok, why = _compatible(repo, arow, tname, v)
            ctx.decide(ok, "R-WIDTH/default", ci.qual, ci.where(dnode), f"default of `{p}` fits {vci.name} ({tname})",
                       f"default of `{p}` = {v!r} is not accepted by {vci.name} ({tname}): {why}", key=f"default:{p}")
    ctx.count("folded_defaults", nd)

    # -- 9 _load --------------------------------------------------------------------------------
    ctx.clause = "9-_load-decision-table"
    _load_table(ctx, repo)

    # -- 10 flags -----------------------------------------------------------------------------------
    ctx.clause = "10-flags"
    _flags(ctx, repo, req, ans)

    # -- 6 published reference -----------------------------------------------------------------------
    # a typed command survives serialise/decode only if decoding maps each (vendor, code) to the class that built it and
    # nothing else (shared with C02/C10)
    ctx.clause = "11-round-trip-dispatch"
    from .c02 import _registry
    _registry(ctx, repo)
    ctx.clause = "6-published-commands"
    _reference(ctx, repo, rows, folded)


def _compatible(repo, arow, tname, v):
    if tname in ("Unsigned32Type", "Integer32Type"):
        if isinstance(v, bytes):
            return len(v) == 4, "needs 4 bytes"
        return (isinstance(v, int) and not isinstance(v, bool) and tname == "Unsigned32Type"), "needs int or 4 bytes"
    if tname == "Unsigned64Type":
        if isinstance(v, bytes):
            return len(v) == 8, "needs 8 bytes"
        return isinstance(v, int) and not isinstance(v, bool), "needs int or 8 bytes"
    if tname == "EnumeratedType":
        vals = avpdict.fold_values(repo, arow)
        if isinstance(vals, (list, tuple)):
            return v in vals, "not one of the enumerators"
        return True, ""
    if tname in ("UTF8StringType", "OctetStringType", "DiameterIdentityType", "DiameterURIType"):
        if arow.ci.methods.get("encode") or arow.ci.methods.get("parser_data"):
            return True, ""
        return isinstance(v, (str, bytes)), "needs str or bytes"
    if tname == "GroupedType":
        return isinstance(v, (list, bytes)), "needs list or bytes"
    if tname == "TimeType":
        return isinstance(v, bytes) and len(v) == 4, "needs 4 bytes or datetime"
    return True, ""


def _load_table(ctx, repo):
    msg = repo.cls("bromelia.base.DiameterMessage")
    ctx.need(msg, "bromelia.base.DiameterMessage")
    fn = msg.methods.get("_load")
    ctx.need(fn, "DiameterMessage._load")
    construct = f"{msg.qual}._load"
    loops = [s for s in walk_no_nested(fn) if isinstance(s, ast.For)]
    loop = None
    for s in loops:
        if isinstance(s.target, ast.Tuple) and len(s.target.elts) == 2:
            loop = s
    if loop is None:
        ctx.undecided("R-DOM/_load", construct, msg.where(fn), "no `for name, value in ...` loop found", key="loop")
        return
    nname, vname = [e.id for e in loop.target.elts]
    # one iteration on terms (bsa.sym) under each assumption about (name in mandatory, name in optionals, value is None)
    from .. import sym
    NAME, VAL, SELF = sym.S(nname), sym.S(vname), ("name", "self")
    for M in (True, False):
        for O in (True, False):
            for N in (True, False):
                def hook(t, M=M, O=O, N=N):
                    if t == ("cmp", "In", NAME, ("attr", SELF, "mandatory")):
                        return M
                    if t == ("cmp", "In", NAME, ("attr", SELF, "optionals")):
                        return O
                    if t == ("cmp", "Is", VAL, None):
                        return N
                    if isinstance(t, tuple) and len(t) == 4 and t[0] == "cmp" and t[1] == "Is" and VAL in (t[2], t[3]):
                        o_ = t[3] if t[2] == VAL else t[2]
                        if isinstance(o_, tuple) and len(o_) == 2 and o_[0] == "name" and o_[1] in sym.SENTINELS:
                            return False      # an argument given by the caller is never the module's private sentinel object
                    if t == VAL and N:
                        return None
                    return None
                try:
                    ps = sym.Interp(hook=hook, log_calls=True).loop_body(loop, {nname: NAME, vname: VAL if not N else None})
                except sym.TooMany as e:
                    ctx.undecided("R-DOM/_load", construct, msg.where(loop), "too many paths", key="paths")
                    return
                case = f"mandatory={M},optional={O},None={N}"
                for p in ps:
                    appends = [e[1][2][0] for e in p.effects if e[0] == "ecall" and isinstance(e[1], tuple) and e[1][0] == "call"
                               and e[1][1] == ("attr", SELF, "append") and len(e[1][2]) == 1]
                    raised = p.term == "raise"
                    rname = sym.show(p.value).split("(")[0] if raised else None
                    app_txt = [sym.show(a) for a in appends]
                    V_ = VAL if not N else None
                    if M and N:
                        ok = raised and rname == "DiameterMessageError" and not appends
                        bad = f"missing mandatory argument is not rejected with DiameterMessageError (path ends {p.term}, appends {app_txt})"
                    elif M and not N:
                        ok = not raised and appends == [("call", ("sub", ("attr", SELF, "mandatory"), NAME), (V_,), ())]
                        bad = f"mandatory value must be wrapped by self.mandatory[name] and appended exactly once; got {app_txt}, term {p.term}"
                    elif O and not N:
                        ok = not raised and appends == [("call", ("sub", ("attr", SELF, "optionals"), NAME), (V_,), ())]
                        bad = f"optional value must be wrapped by self.optionals[name] and appended exactly once; got {app_txt}, term {p.term}"
                    elif not N:
                        ok = (raised and rname == "DiameterMessageError" and not appends) or (not raised and appends == [V_])
                        bad = f"extra keyword AVP must be appended as given exactly once or rejected; got {app_txt}, term {p.term}"
                    else:
                        ok = not raised and not appends
                        bad = f"a None non-mandatory argument must be skipped; got {app_txt}, term {p.term}"
                    ctx.decide(ok, "R-DOM/_load", construct, msg.where(loop), f"{case}: ok", f"{case}: {bad}",
                               key=case)
    # iteration source is the values dict in declaration order (items of the locals mapping)
    it = ast.unparse(loop.iter)
    src_ok = it.endswith(".items()") or any(
        isinstance(s, ast.Assign) and isinstance(s.targets[0], ast.Name) and s.targets[0].id == it
        and ast.unparse(s.value).endswith(".items()") for s in walk_no_nested(fn))
    ctx.decide(src_ok, "R-FLOW/_load-order", construct, msg.where(loop), "iterates values.items() in mapping order",
               f"_load iterates `{it}` which is not the items() view of the values mapping (declaration order lost)",
               key="iter")
    # header length refreshed at the end on every normal exit
    cfg = make_cfg(repo, fn)

    def refresh(n):
        if n.kind != "stmt":
            return False
        t = ast.unparse(n.ast)
        return (t.startswith("self.header.length =") and ("self.length" in t or "real_length" in t)) or \
            t in ("self.refresh()",)
    post = [n for n in cfg.nodes.values() if refresh(n) and n.lineno > loop.lineno]
    ok = bool(post) and must_pass(cfg, lambda n: n in post)
    ctx.decide(ok, "R-MUSTPASS/_load-refresh", construct, msg.where(fn),
               "header length refreshed after the loop on every normal exit",
               "DiameterMessage._load can return without refreshing the header length after loading the AVPs",
               key="refresh")
    # kwargs merged before iteration
    src = ast.unparse(fn)
    ctx.decide("values.update(_kwargs)" in src or ".update(" in src.split("for ")[0], "R-FLOW/_load-kwargs", construct,
               msg.where(fn), "extra keyword AVPs are merged after the declared arguments",
               "extra keyword AVPs are not merged into the values mapping", key="kwargs", nontrivial=False)


def _flags(ctx, repo, req, ans):
    msg = repo.cls("bromelia.base.DiameterMessage")
    fn = msg.methods.get("set_flag_by_app_id")
    ctx.need(fn, "DiameterMessage.set_flag_by_app_id")
    construct = f"{msg.qual}.set_flag_by_app_id"
    param = [a.arg for a in fn.args.args if a.arg != "self"][0]

    for is_default in (True, False):
        for kind in ("request", "answer"):
            for was_p in (False, True):
                def atom(e, is_default=is_default, kind=kind, was_p=was_p):
                    if isinstance(e, ast.Compare) and len(e.ops) == 1 and isinstance(e.left, ast.Name) and e.left.id == param:
                        c = repo.fold(msg.mod, e.comparators[0])
                        if c == b"\x00\x00\x00\x00":
                            if isinstance(e.ops[0], ast.Eq):
                                return is_default
                            if isinstance(e.ops[0], ast.NotEq):
                                return not is_default
                    t = ast.unparse(e)
                    if t == "isinstance(self, DiameterRequest)":
                        return kind == "request"
                    if t == "isinstance(self, DiameterAnswer)":
                        return kind == "answer"
                    if t == "self.header.is_proxiable()":
                        return was_p
                    if t == "self.header.is_request()":
                        return False
                    return None
                ps = list(enum_paths(fn.body, decide=lambda t, ev: eval_bool(t, atom)))
                for p in ps:
                    sets = {}
                    for c, _ in p.calls():
                        n = call_name(c)
                        if n.startswith("self.header.set_") and c.args and isinstance(c.args[0], ast.Constant):
                            sets[n.split(".")[-1]] = c.args[0].value
                    final_p = sets.get("set_proxiable_bit", was_p)
                    final_r = sets.get("set_request_bit", False)
                    case = f"app_default={is_default},kind={kind},P_before={was_p}"
                    okp = final_p == (not is_default)
                    okr = final_r == (kind == "request")
                    redundant = ("set_proxiable_bit" in sets and sets["set_proxiable_bit"] == was_p)
                    if was_p and not is_default:
                        # a header already proxiable: constructors always start from flags 0
                        continue
                    ctx.decide(okp and okr and not redundant, "R-DOM/flags", construct, msg.where(fn), f"{case}: ok",
                               f"{case}: P flag ends {final_p} (want {not is_default}), R flag set={final_r} "
                               f"(want {kind == 'request'}){' redundant toggle raises' if redundant else ''}", key=case)
    # both constructors hand the same application_id to the header and to set_flag_by_app_id
    for cls in (req, ans):
        ini = cls.methods.get("__init__")
        ctx.need(ini, f"{cls.name}.__init__")
        # on terms: every path that returns normally calls set_flag_by_app_id exactly once, and the application id it receives
        # is the one some path gives to the header it builds (keywords may arrive through a dict, `**fields`)
        from .. import sym as _sy
        from ..astutil import strip_doc as _sd
        ps_ = [a_.arg for a_ in ini.args.args if a_.arg != "self"]
        on_all, flag_args, hdr_apps, n_paths = True, set(), set(), 0
        try:
            paths_ = _sy.Interp(fold=lambda e: repo.fold(cls.mod, e), log_calls=True).run(
                _sd(ini.body), _sy.PathState({a_: _sy.S(a_) for a_ in ps_}, [], []))
        except _sy.TooMany:
            paths_ = []
        for p_ in paths_:
            if p_.term == "raise":
                continue
            n_paths += 1
            fl_, seen_ = [], set()
            for e in p_.effects:
                if e[0] not in ("ecall", "call") or not (isinstance(e[1], tuple) and e[1] and e[1][0] == "call") or id(e[2]) in seen_:
                    continue
                seen_.add(id(e[2]))
                fname = _sy.show(e[1][1])
                if fname.endswith("set_flag_by_app_id"):
                    a_ = [x for x in e[1][2] if x != ("name", "self") and x != _sy.S("self")]
                    fl_.append(a_[0] if a_ else dict(e[1][3]).get("app_id"))
                elif fname == "DiameterHeader":
                    v_ = dict(e[1][3]).get("application_id")
                    if v_ is not None:
                        hdr_apps.add(v_)
            on_all = on_all and len(fl_) == 1
            flag_args |= set(fl_)
        ok = n_paths > 0 and len(flag_args) == 1 and next(iter(flag_args)) in hdr_apps
        ctx.decide(ok and on_all, "R-FLOW/flags", f"{cls.qual}.__init__", cls.where(ini),
                   "set_flag_by_app_id runs on every path with the application id given to the header",
                   "set_flag_by_app_id is skipped on some path or receives a different application id than the header",
                   key="flag_arg")
        # request draws identifiers only when no header is supplied (shared with C15)


def commands_of(repo, rows, folded):
    out = {}
    for r in rows:
        f = folded.get(id(r))
        d = {"kind": r.kind,
             "command_code": f[0].hex() if f and isinstance(f[0], bytes) else None,
             "application_id": (f[1].hex() if f and isinstance(f[1], bytes) else (f[2] if f else None)),
             "params": list(r.params)}
        for tn in ("mandatory", "optionals"):
            t = getattr(r, tn)
            d[tn] = {k: (v[1].qual if v[1] is not None else None) for k, v in t.items()} if isinstance(t, dict) else None
        out[r.ci.qual] = d
    return out


def _reference(ctx, repo, rows, folded):
    p = os.path.join(VERIF, "reference", "commands.json")
    if not os.path.exists(p):
        raise AnalysisError("reference/commands.json missing")
    ref = json.load(open(p))["commands"]
    cur = commands_of(repo, rows, folded)
    for q, want in ref.items():
        got = cur.get(q)
        if got is None:
            ctx.violate("R-TABLE/published", q, "-", "published command class no longer exists", key="exists")
            continue
        diffs = []
        for k in ("kind", "command_code", "application_id"):
            if want[k] != got[k]:
                diffs.append(f"{k}: published {want[k]!r}, now {got[k]!r}")
        for tn in ("mandatory", "optionals"):
            w, g = want.get(tn) or {}, got.get(tn) or {}
            for k in w:
                if k not in g:
                    diffs.append(f"{tn}[{k}] removed")
                elif w[k] != g[k]:
                    diffs.append(f"{tn}[{k}]: published {w[k]}, now {g[k]}")
        wp = [x for x in want["params"] if x in got["params"]]
        gp = [x for x in got["params"] if x in want["params"]]
        if wp != gp:
            diffs.append("relative order of published constructor arguments changed")
        missing = [x for x in want["params"] if x not in got["params"]]
        if missing:
            diffs.append(f"published arguments removed: {missing}")
        ctx.decide(not diffs, "R-TABLE/published", q, repo.cls(q).where() if repo.cls(q) else "-",
                   "published command identity unchanged", "published command changed: " + "; ".join(diffs), key="published")
    ctx.count("reference_commands", len(ref))
