"""Small AST helpers shared by the rules."""
import ast

from .cfg import CFG, ExcHierarchy


def dotted(node):
    try:
        return ast.unparse(node)
    except Exception:
        return ""


def call_name(call):
    return dotted(call.func)


def header_exprs(cnode):
    """Expressions evaluated *by this CFG node itself* (not by nested statements)."""
    a = cnode.ast
    k = cnode.kind
    if k == "stmt":
        if isinstance(a, (ast.FunctionDef, ast.ClassDef, ast.AsyncFunctionDef)):
            return []
        return [a]
    if k == "test":
        return [a]
    if k == "iter":
        return [a.iter]
    if k == "with_enter":
        return [it.context_expr for it in a.items]
    return []


def walk_no_nested(node):
    """ast.walk that does not descend into nested function/class/lambda bodies."""
    todo = [node]
    while todo:
        n = todo.pop()
        yield n
        for c in ast.iter_child_nodes(n):
            if isinstance(c, (ast.FunctionDef, ast.AsyncFunctionDef, ast.ClassDef, ast.Lambda)):
                continue
            todo.append(c)


def node_calls(cnode):
    out = []
    for e in header_exprs(cnode):
        for n in walk_no_nested(e):
            if isinstance(n, ast.Call):
                out.append(n)
    out.sort(key=lambda c: (c.lineno, c.col_offset))
    return out


def fn_calls(fn):
    """the calls of a function (nested scopes excluded) in the order of the statements that contain them, and by position
    inside one statement.  (Statement order is structural, not by line number: inlined and unrolled statements keep the line
    numbers of the code they were copied from.)"""
    roots = fn if isinstance(fn, list) else [fn]
    order = {}

    def number(node):
        # pre-order over statements, children in field order
        if isinstance(node, ast.stmt):
            order[id(node)] = len(order)
        for c in ast.iter_child_nodes(node):
            if isinstance(c, (ast.FunctionDef, ast.AsyncFunctionDef, ast.ClassDef, ast.Lambda)) and c is not node:
                continue
            number(c)
    out = []

    def collect(node, cur):
        if isinstance(node, ast.stmt):
            cur = order.get(id(node), cur)
        if isinstance(node, ast.Call):
            out.append((cur, getattr(node, "lineno", 0), getattr(node, "col_offset", 0), len(out), node))
        for c in ast.iter_child_nodes(node):
            if isinstance(c, (ast.FunctionDef, ast.AsyncFunctionDef, ast.ClassDef, ast.Lambda)):
                continue
            collect(c, cur)
    for r in roots:
        number(r)
    for r in roots:
        collect(r, -1)
    out.sort(key=lambda t: t[:4])
    return [t[4] for t in out]


def kwarg(call, name):
    for k in call.keywords:
        if k.arg == name:
            return k.value
    return None


def arg_or_kw(call, idx, name):
    v = kwarg(call, name)
    if v is not None:
        return v
    if idx is not None and len(call.args) > idx and not any(isinstance(a, ast.Starred) for a in call.args[:idx + 1]):
        return call.args[idx]
    return None


def is_self_attr(node, attr=None, selfname="self"):
    return isinstance(node, ast.Attribute) and isinstance(node.value, ast.Name) and node.value.id == selfname \
        and (attr is None or node.attr == attr)


def names_in(node):
    return {n.id for n in ast.walk(node) if isinstance(n, ast.Name)}


def attr_chain(node):
    """a.b.c -> ['a','b','c'] or None"""
    parts = []
    while isinstance(node, ast.Attribute):
        parts.append(node.attr)
        node = node.value
    if isinstance(node, ast.Name):
        parts.append(node.id)
        return parts[::-1]
    return None


def assigned_targets(stmt):
    """Target expressions written by a simple statement."""
    out = []
    if isinstance(stmt, ast.Assign):
        for t in stmt.targets:
            out += list(_flatten(t))
    elif isinstance(stmt, (ast.AugAssign, ast.AnnAssign)):
        out.append(stmt.target)
    return out


def _flatten(t):
    if isinstance(t, (ast.Tuple, ast.List)):
        for e in t.elts:
            yield from _flatten(e)
    else:
        yield t


def make_cfg(repo, fn, raises=None):
    return CFG(fn, raises, ExcHierarchy(repo))


def must_pass(cfg, pred, start=None, targets=None):
    """Every path from start (entry) to any target (normal exit) passes a node n with pred(n)."""
    start = start or cfg.entry
    targets = targets or {cfg.exit}
    seen = set()
    st = [start]
    if pred(cfg.nodes[start]):
        return True
    seen.add(start)
    while st:
        n = st.pop()
        if n in targets:
            return False
        for m, l in cfg.succ.get(n, []):
            if m in seen:
                continue
            seen.add(m)
            if pred(cfg.nodes[m]):
                continue
            st.append(m)
    return True


def witness_avoiding(cfg, pred, start=None, targets=None):
    """Shortest path start->target that avoids all pred nodes (or None)."""
    import collections
    start = start or cfg.entry
    targets = targets or {cfg.exit}
    par = {start: None}
    dq = collections.deque([start])
    while dq:
        n = dq.popleft()
        if n in targets:
            path = []
            while par[n] is not None:
                p, l = par[n]
                path.append((p, l, n))
                n = p
            return path[::-1]
        for m, l in cfg.succ.get(n, []):
            if m in par or pred(cfg.nodes[m]):
                continue
            par[m] = (n, l)
            dq.append(m)
    return None


def const_str(node):
    return node.value if isinstance(node, ast.Constant) and isinstance(node.value, str) else None


def strip_doc(body):
    if body and isinstance(body[0], ast.Expr) and isinstance(body[0].value, ast.Constant) \
            and isinstance(body[0].value.value, str):
        return body[1:]
    return body


def is_logging_stmt(stmt):
    """Expression statement that is only a logging / print call."""
    if isinstance(stmt, ast.Expr) and isinstance(stmt.value, ast.Call):
        n = call_name(stmt.value)
        last = n.split(".")[-1]
        if last in ("debug", "info", "warning", "error", "exception", "critical", "print", "log"):
            return True
    if isinstance(stmt, ast.Expr) and isinstance(stmt.value, ast.Constant):
        return True
    return False


def field_copy_verdict(cfg, target, want_src, other_srcs):
    """Verdict for "field `target` is assigned from `want_src` on every normal path".
    Returns (verdict, detail): 'HOLDS' | 'VIOLATED' | 'UNDECIDED'."""
    stores = [n for n in cfg.nodes.values() if n.kind == "stmt" and isinstance(n.ast, ast.Assign)
              and any(ast.unparse(t) == target for t in n.ast.targets)]
    if not stores:
        return "VIOLATED", f"`{target}` is never assigned"
    if not must_pass(cfg, lambda n: n in stores):
        w = cfg.describe_path(witness_avoiding(cfg, lambda n: n in stores))
        return "VIOLATED", f"`{target}` is not assigned on every path to the return (path {w})"
    vals = {ast.unparse(n.ast.value) for n in stores}
    if vals == {want_src}:
        return "HOLDS", f"`{target}` <- `{want_src}` on every path"
    wrong = vals & set(other_srcs)
    if wrong:
        return "VIOLATED", f"`{target}` is assigned from {sorted(wrong)} instead of `{want_src}`"
    # last store wins: if every path's last store is the wanted one it still holds
    good = [n for n in stores if ast.unparse(n.ast.value) == want_src]
    bad = [n for n in stores if ast.unparse(n.ast.value) != want_src]
    if good and all(must_pass(cfg, lambda n: n in good, start=t) for b in bad for t, l in cfg.succ[b.id] if l not in ("exc", "excp")):
        return "HOLDS", f"`{target}` <- `{want_src}` is the last store on every path"
    return "UNDECIDED", f"`{target}` is assigned from {sorted(vals)}: not recognised as a copy of `{want_src}`"


def strip_not(test, truth=True):
    """(test, truth) with leading `not`s folded into the polarity and negative comparison operators made positive."""
    while isinstance(test, ast.UnaryOp) and isinstance(test.op, ast.Not):
        test, truth = test.operand, not truth
    if isinstance(test, ast.Compare) and len(test.ops) == 1 and isinstance(test.ops[0], (ast.IsNot, ast.NotEq, ast.NotIn)):
        pos = {ast.IsNot: ast.Is, ast.NotEq: ast.Eq, ast.NotIn: ast.In}[type(test.ops[0])]
        test = ast.copy_location(ast.Compare(left=test.left, ops=[pos()], comparators=test.comparators), test)
        truth = not truth
    return test, truth


def guards(fn):
    """id(stmt) -> [(test, truth), ...] of the enclosing `if`s (outermost first), polarity-normalised; every statement
    of the function (not nested defs) has an entry.  Shape independent: `if not c: raise` and `if c: .. else: raise`
    give the raise the same guard (c, False)."""
    out = {}

    def walk(stmts, conds):
        for s in stmts:
            out[id(s)] = list(conds)
            if isinstance(s, ast.If):
                t, v = strip_not(s.test)
                walk(s.body, conds + [(t, v)])
                walk(s.orelse, conds + [(t, not v)])
            elif isinstance(s, (ast.For, ast.While, ast.With)):
                walk(s.body, conds)
                walk(getattr(s, "orelse", []), conds)
            elif isinstance(s, ast.Try):
                walk(s.body, conds)
                for h in s.handlers:
                    walk(h.body, conds)
                walk(s.orelse, conds)
                walk(s.finalbody, conds)
    walk(fn.body if not isinstance(fn, list) else fn, [])
    return out


def deep_stmts(node, kinds=None):
    """statements at any depth (not nested defs), in source order"""
    out = [n for n in walk_no_nested(node) if isinstance(n, ast.stmt) and n is not node and (kinds is None or isinstance(n, kinds))]
    out.sort(key=lambda n: (getattr(n, "lineno", 0), getattr(n, "col_offset", 0)))
    return out


def blocks_of(node):
    """every statement list of a function (bodies, else branches, handlers ...), not nested defs"""
    out = []
    for n in walk_no_nested(node):
        for fld in ("body", "orelse", "finalbody"):
            b = getattr(n, fld, None)
            if isinstance(b, list) and b and isinstance(b[0], ast.stmt):
                out.append(b)
    return out


def rebuilds_from_members(fn, buf="self._data", lists=("self.avps", "self._avps")):
    """`<buf> = b''` followed (same statement list) by `for v in <members>: <buf> += v.dump()`; any loop variable name."""
    for b in blocks_of(fn):
        reset = None
        for i, s in enumerate(b):
            if isinstance(s, ast.Assign) and len(s.targets) == 1 and ast.unparse(s.targets[0]) == buf \
                    and isinstance(s.value, ast.Constant) and s.value.value == b"":
                reset = i
            if reset is not None and isinstance(s, ast.For) and isinstance(s.target, ast.Name) and ast.unparse(s.iter) in lists:
                v = s.target.id
                if any(isinstance(x, ast.AugAssign) and isinstance(x.op, ast.Add) and ast.unparse(x.target) == buf
                       and ast.unparse(x.value) == f"{v}.dump()" for x in s.body):
                    return True
    return False


def guard_facts(conds):
    """Atoms forced by a list of (test, truth) guards: ({atom text: bool}, [tests that force nothing, as (text, truth)])"""
    from .paths import implied_atoms
    facts, residual = {}, []
    for t, v in conds:
        f = implied_atoms(t, v)
        if f:
            facts.update(f)
        else:
            residual.append((ast.unparse(t), v))
    return facts, residual
