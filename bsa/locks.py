"""Lock identities and lockset dataflow (A2/A3) over the statement CFG."""
import ast

from .astutil import make_cfg, node_calls, call_name, header_exprs, walk_no_nested

LOCK_CTORS = {"threading.Lock", "threading.RLock", "Lock", "RLock", "manager.Lock", "multiprocessing.Lock"}
EVENT_CTORS = {"threading.Event", "Event", "manager.Event"}
QUEUE_CTORS = {"queue.Queue", "Queue", "manager.Queue", "multiprocessing.Queue"}

# receivers whose type flows through constructor arguments / containers: (class, attribute) -> class name.
# One line of reason each; every entry was confirmed against the assignments the code does make.
FIELD_TYPE_HINTS = {
    ("State", "association"): "DiameterAssociation",            # State.__init__(diameter_association) <- PeerStateMachine._load_states
    ("PeerStateMachine", "association"): "DiameterAssociation",  # PeerStateMachine(self._association) in Diameter.start
    ("BaseMessageProcessor", "association"): "DiameterAssociation",
    ("DiameterAssociation", "transport"): "TcpConnection",      # TcpClient/TcpServer/Sctp* all derive from TcpConnection
    ("Diameter", "_association"): "DiameterAssociation",
    ("Diameter", "_peer_state_machine"): "PeerStateMachine",
    ("Worker", "app"): "Diameter",
}


class FieldKinds:
    """(class name, field) -> 'lock' | 'event' | 'queue' from `self.f = threading.Lock()` style assignments."""

    def __init__(self, repo):
        self.repo = repo
        self.kind = {}
        self.class_by_name = {}
        for ci in repo.classes:
            self.class_by_name.setdefault(ci.name, ci)
            for f in ci.methods.values():
                for n in ast.walk(f):
                    if isinstance(n, ast.Assign) and isinstance(n.value, ast.Call):
                        cn = call_name(n.value)
                        k = "lock" if cn in LOCK_CTORS else "event" if cn in EVENT_CTORS else "queue" if cn in QUEUE_CTORS else None
                        if k:
                            for t in n.targets:
                                if isinstance(t, ast.Attribute) and isinstance(t.value, ast.Name) and t.value.id == "self":
                                    self.kind[(ci.name, t.attr)] = k
            for name, v in ci.attrs.items():
                if isinstance(v, ast.Call):
                    cn = call_name(v)
                    k = "lock" if cn in LOCK_CTORS else "event" if cn in EVENT_CTORS else "queue" if cn in QUEUE_CTORS else None
                    if k:
                        self.kind[(ci.name, name)] = k

    def owner_of(self, ci, field):
        """class in ci's MRO (or subclasses' shared base) that declares the field"""
        for k in ci.mro():
            if (k.name, field) in self.kind:
                return k.name
        return None

    def resolve(self, ci, expr):
        """expr (ast) evaluated inside a method of class ci -> (owner class name, field, kind) or None"""
        if isinstance(expr, ast.Attribute):
            base = expr.value
            if isinstance(base, ast.Name) and base.id == "self" and ci is not None:
                o = self.owner_of(ci, expr.attr)
                if o:
                    return (o, expr.attr, self.kind[(o, expr.attr)])
                return None
            if isinstance(base, ast.Name):
                c = self.class_by_name.get(base.id)
                if c is not None:
                    o = self.owner_of(c, expr.attr)
                    if o:
                        return (o, expr.attr, self.kind[(o, expr.attr)])
                return None
            if isinstance(base, ast.Attribute) and isinstance(base.value, ast.Name) and base.value.id == "self" and ci is not None:
                tname = None
                for k in ci.mro():
                    tname = FIELD_TYPE_HINTS.get((k.name, base.attr)) or tname
                if tname and tname in self.class_by_name:
                    tci = self.class_by_name[tname]
                    o = self.owner_of(tci, expr.attr)
                    if o:
                        return (o, expr.attr, self.kind[(o, expr.attr)])
            if isinstance(base, ast.Attribute) and isinstance(base.value, ast.Attribute) and ci is not None:
                # self.a.b.f
                inner = base.value
                if isinstance(inner.value, ast.Name) and inner.value.id == "self":
                    t1 = None
                    for k in ci.mro():
                        t1 = FIELD_TYPE_HINTS.get((k.name, inner.attr)) or t1
                    if t1 and t1 in self.class_by_name:
                        t2 = None
                        for k in self.class_by_name[t1].mro():
                            t2 = FIELD_TYPE_HINTS.get((k.name, base.attr)) or t2
                        if t2 and t2 in self.class_by_name:
                            o = self.owner_of(self.class_by_name[t2], expr.attr)
                            if o:
                                return (o, expr.attr, self.kind[(o, expr.attr)])
        return None


def lock_ops(fk, ci, cnode):
    """[(op, lockid, call)] for a CFG node: op in acquire/release/with_enter/with_exit"""
    out = []
    if cnode.kind in ("with_enter", "with_exit"):
        for it in cnode.ast.items:
            e = it.context_expr
            lid = _lock_id(fk, ci, e)
            if lid:
                out.append(("acquire" if cnode.kind == "with_enter" else "release", lid, e))
        return out
    for c in node_calls(cnode):
        if isinstance(c.func, ast.Attribute) and c.func.attr in ("acquire", "release"):
            lid = _lock_id(fk, ci, c.func.value)
            if lid:
                out.append((c.func.attr, lid, c))
    return out


def _lock_id(fk, ci, e):
    r = fk.resolve(ci, e)
    if r and r[2] == "lock":
        return f"{r[0]}.{r[1]}"
    if isinstance(e, ast.Name) and "lock" in e.id.lower():
        return f"local:{e.id}"
    if isinstance(e, ast.Attribute) and "lock" in e.attr.lower() and r is None:
        return f"expr:{ast.unparse(e)}"
    return None


class LockFlow:
    """may-held and must-held locksets at every CFG node of one function."""

    def __init__(self, repo, fk, fi, entry_held=frozenset(), raises=None):
        self.repo, self.fk, self.fi = repo, fk, fi
        self.cfg = make_cfg(repo, fi.node, raises)
        self.ci = fi.cls
        self.ops = {nid: lock_ops(fk, self.ci, n) for nid, n in self.cfg.nodes.items()}

        def transfer(node, st):
            may, must = st
            for op, lid, _ in self.ops[node.id]:
                if op == "acquire":
                    may = may | {lid}
                    must = must | {lid}
                else:
                    may = may - {lid}
                    must = must - {lid}
            return (may, must)

        def join(a, b):
            return (a[0] | b[0], a[1] & b[1])

        def edge(node, st, label):
            # with_exit nodes release on the way out even on exceptional edges (handled as nodes);
            # an exceptional edge out of a node means the node's own effect did not happen
            return st
        init = (frozenset(entry_held), frozenset(entry_held))
        self.IN, self.OUT = self.cfg.forward(init, transfer, join, edge_transfer=edge)

    def held_at_exit(self, which="exit"):
        nid = self.cfg.exit if which == "exit" else self.cfg.rexit
        st = self.IN.get(nid)
        return st[0] if st else frozenset()

    def must_at(self, nid):
        st = self.IN.get(nid)
        return st[1] if st else frozenset()

    def may_at(self, nid):
        st = self.IN.get(nid)
        return st[0] if st else frozenset()
