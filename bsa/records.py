"""Layer A0, records: NEW immutable record classes (NamedTuple / namedtuple) are transparent.

A record class that is not in the inventory of the confirmed tree was introduced by a refactoring to carry a few values
around.  The normal form removes it again:
  R1  X(a, b).f            -> the argument bound to field f          (the other arguments are pure)
  R2  X(a, b).p            -> the body of the read-only property p with self.<field> replaced by the arguments
  R3  X(a, b).m(..)        -> handled by the helper inliner (N1) with self bound to the construction
  R4  X(a, b) is None      -> False
  a record construction with simple arguments is a value like a literal tuple: P5 propagates a local bound once to it, the table
  passes (U1, U10, U11, U14) accept it as a table element, and new module-level tables of records are substituted like any
  other new constant.
"""
import ast
import copy


class RecordInfo:
    def __init__(self, name, fields, defaults, ci=None, params=None):
        self.name, self.fields, self.defaults, self.ci = name, list(fields), dict(defaults), ci
        self.params = list(params) if params is not None else list(fields)     # constructor parameter of each field, same order

    def bind(self, call):
        """{field: argument expression} of a construction, or None when it cannot be matched"""
        if any(isinstance(a, ast.Starred) for a in call.args) or any(k.arg is None for k in call.keywords):
            return None
        if len(call.args) > len(self.fields):
            return None
        by_param = dict(zip(self.params, call.args))
        for k in call.keywords:
            if k.arg not in self.params or k.arg in by_param:
                return None
            by_param[k.arg] = k.value
        out = {}
        for f, p_ in zip(self.fields, self.params):
            if p_ in by_param:
                out[f] = by_param[p_]
            elif f in self.defaults:
                out[f] = self.defaults[f]
            else:
                return None
        return out


class Records:
    def __init__(self, repo, inv):
        self.repo = repo
        self.by_node = {}        # id(ClassDef | namedtuple Call) -> RecordInfo
        self.names = {}          # simple name or import alias -> RecordInfo  (None when ambiguous)
        known_classes = set(inv.get("class_names", {}))
        for m in repo.mods.values():
            known_names = set(inv.get("module_names", {}).get(m.name, []))
            for name, vals in m.assigns.items():
                if name in known_names or len(vals) != 1:
                    continue
                fields = self._namedtuple_fields(m, vals[0])
                if fields is not None:
                    self._add(name, vals[0], RecordInfo(name, fields, {}))
        for _round in range(2):       # (a record class may derive from a namedtuple bound to a module-level name)
            for m in repo.mods.values():
                for cname, defs in getattr(m, "class_defs", {}).items():
                    for node in defs:
                        if f"{m.name}.{cname}" in known_classes or id(node) in self.by_node:
                            continue
                        info = self._from_classdef(m, node)
                        if info is not None:
                            self._add(cname, node, info)
        # import aliases
        for m in repo.mods.values():
            for alias, (tm, attr) in m.imports.items():
                if attr is not None and attr in self.names and self.names[attr] is not None and alias != attr:
                    self._name(alias, self.names[attr])

    def _name(self, name, info):
        if name in self.names and self.names[name] is not info:
            self.names[name] = None
        else:
            self.names[name] = info

    def _add(self, name, node, info):
        self.by_node[id(node)] = info
        self._name(name, info)

    def _namedtuple_fields(self, m, e):
        if not (isinstance(e, ast.Call) and ast.unparse(e.func) in ("namedtuple", "collections.namedtuple") and len(e.args) >= 2):
            return None
        f = e.args[1]
        if isinstance(f, ast.Name):
            vals = m.assigns.get(f.id)
            f = vals[0] if vals and len(vals) == 1 else f
        if isinstance(f, ast.Constant) and isinstance(f.value, str):
            return f.value.replace(",", " ").split()
        if isinstance(f, (ast.List, ast.Tuple)) and all(isinstance(x, ast.Constant) and isinstance(x.value, str) for x in f.elts):
            return [x.value for x in f.elts]
        return None

    def _from_classdef(self, m, node):
        ci = self.repo.class_by_node.get(id(node))
        for b in node.bases:
            if ast.unparse(b) in ("NamedTuple", "typing.NamedTuple"):
                fields, defaults = [], {}
                for s in node.body:
                    if isinstance(s, ast.AnnAssign) and isinstance(s.target, ast.Name):
                        fields.append(s.target.id)
                        if s.value is not None:
                            defaults[s.target.id] = s.value
                return RecordInfo(node.name, fields, defaults, ci)
            fields = self._namedtuple_fields(m, b)
            if fields is not None:
                return RecordInfo(node.name, fields, {}, ci)
            if isinstance(b, ast.Name) and self.names.get(b.id) is not None and not any(
                    isinstance(s_, ast.FunctionDef) and s_.name in ("__new__", "__init__") for s_ in node.body):
                base = self.names[b.id]
                return RecordInfo(node.name, base.fields, base.defaults, ci)
        # a plain value-holder class: no bases, `__init__` only stores its parameters into attributes, no other method (nor any
        # other code of the repository) stores into attributes of an instance
        if not node.bases and not node.keywords:
            ini = next((s_ for s_ in node.body if isinstance(s_, ast.FunctionDef) and s_.name == "__init__"), None)
            if ini is None or ini.args.vararg or ini.args.kwarg or ini.args.kwonlyargs or not ini.args.args:
                return None
            selfn = ini.args.args[0].arg
            params = [a.arg for a in ini.args.args[1:]]
            body = [s_ for s_ in ini.body if not (isinstance(s_, ast.Expr) and isinstance(s_.value, ast.Constant))]
            fields, used = [], []
            for s_ in body:
                if isinstance(s_, ast.Assign) and len(s_.targets) == 1 and isinstance(s_.targets[0], ast.Attribute) \
                        and isinstance(s_.targets[0].value, ast.Name) and s_.targets[0].value.id == selfn \
                        and isinstance(s_.value, ast.Name) and s_.value.id in params and s_.value.id not in used:
                    fields.append(s_.targets[0].attr)
                    used.append(s_.value.id)
                else:
                    return None
            if sorted(used) != sorted(params) or not fields:
                return None
            for s_ in node.body:
                if isinstance(s_, ast.FunctionDef) and s_ is not ini:
                    sn = s_.args.args[0].arg if s_.args.args else None
                    for x in ast.walk(s_):
                        if isinstance(x, ast.Attribute) and isinstance(x.ctx, (ast.Store, ast.Del)) and isinstance(x.value, ast.Name) and x.value.id == sn:
                            return None
            defaults = {}
            dl = ini.args.defaults
            for p_, d in zip(params[len(params) - len(dl):], dl):
                defaults[fields[used.index(p_)]] = d
            ordered_fields = [fields[used.index(p_)] for p_ in params]
            return RecordInfo(node.name, ordered_fields, defaults, ci, params=params)
        return None

    # ---- queries
    def info_of_call(self, e):
        if isinstance(e, ast.Call) and isinstance(e.func, ast.Name):
            return self.names.get(e.func.id)
        return None

    def is_value(self, e, simple):
        """a record construction all of whose arguments satisfy `simple` (or are record values themselves)"""
        info = self.info_of_call(e)
        if info is None:
            return False
        b = info.bind(e)
        return b is not None and all(simple(v) or self.is_value(v, simple) for v in list(e.args) + [k.value for k in e.keywords])

    def field(self, e, attr):
        """R1/R2 on `<record construction>.attr`: the replacement expression or None"""
        info = self.info_of_call(e)
        if info is None:
            return None
        b = info.bind(e)
        if b is None:
            return None
        if attr in b:
            return copy.deepcopy(b[attr])
        if attr == "_asdict":
            return None
        if info.ci is not None:
            # a class-level constant of the record class, bound once in the class body
            cvals = [s_.value for s_ in info.ci.node.body if isinstance(s_, ast.Assign) and any(
                isinstance(t, ast.Name) and t.id == attr for t in s_.targets)]
            cvals += [s_.value for s_ in info.ci.node.body if isinstance(s_, ast.AnnAssign) and s_.value is not None
                      and isinstance(s_.target, ast.Name) and s_.target.id == attr]
            if len(cvals) == 1 and isinstance(cvals[0], ast.Constant) and all(
                    is_pure_simple(v) for v in b.values()):
                return copy.deepcopy(cvals[0])
            prop = info.ci.props.get(attr, {}).get("get") if hasattr(info.ci, "props") else None
            if prop is not None:
                from .normalize import single_expr_of
                expr_ = single_expr_of(copy.deepcopy(prop.body))
                if expr_ is not None:
                    selfname = prop.args.args[0].arg if prop.args.args else "self"

                    class S(ast.NodeTransformer):
                        def visit_Attribute(self_, n):
                            if isinstance(n.value, ast.Name) and n.value.id == selfname and isinstance(n.ctx, ast.Load) and n.attr in b:
                                return ast.copy_location(copy.deepcopy(b[n.attr]), n)
                            self_.generic_visit(n)
                            return n

                        def visit_Name(self_, n):
                            if n.id == selfname and isinstance(n.ctx, ast.Load):
                                return ast.copy_location(copy.deepcopy(e), n)
                            return n
                    return S().visit(expr_)
        return None


def is_pure_simple(e):
    from .desugar import is_pure
    return is_pure(e)


RECORDS = None        # set by normalize.apply() for the tree being analysed
