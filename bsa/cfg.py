"""L1: per-function statement CFG with exceptional edges, dominators, dataflow.

Node kinds: entry, exit (normal), rexit (exceptional exit), stmt, test (if/while),
iter (for header), dispatch (try handler dispatch), handler, with_enter, with_exit,
join.  Edge labels: 'n' normal, 'T'/'F' branch outcome, 'exc' exceptional, 'ret'.
"""
import ast
import collections


class Node:
    __slots__ = ("id", "kind", "ast", "extra")

    def __init__(self, id, kind, node=None, extra=None):
        self.id, self.kind, self.ast, self.extra = id, kind, node, extra

    @property
    def lineno(self):
        a = self.ast
        if isinstance(a, tuple):
            a = a[-1]
        return getattr(a, "lineno", 0)

    def __repr__(self):
        return f"N{self.id}:{self.kind}@{self.lineno}"


BUILTIN_EXC_PARENTS = {
    "BaseException": None, "Exception": "BaseException", "KeyboardInterrupt": "BaseException",
    "SystemExit": "BaseException", "GeneratorExit": "BaseException",
    "ArithmeticError": "Exception", "LookupError": "Exception", "IndexError": "LookupError",
    "KeyError": "LookupError", "ValueError": "Exception", "UnicodeError": "ValueError",
    "UnicodeDecodeError": "UnicodeError", "UnicodeEncodeError": "UnicodeError",
    "TypeError": "Exception", "AttributeError": "Exception", "NameError": "Exception",
    "OSError": "Exception", "ConnectionError": "OSError", "BlockingIOError": "OSError",
    "BrokenPipeError": "ConnectionError", "ConnectionResetError": "ConnectionError",
    "TimeoutError": "OSError", "RuntimeError": "Exception", "NotImplementedError": "RuntimeError",
    "AssertionError": "Exception", "StopIteration": "Exception", "OverflowError": "ArithmeticError",
    "ZeroDivisionError": "ArithmeticError", "ImportError": "Exception",
    "ModuleNotFoundError": "ImportError", "struct.error": "Exception",
    "AddressValueError": "ValueError", "ipaddress.AddressValueError": "ValueError",
    "queue.Empty": "Exception", "Empty": "Exception",
    "BrokenBarrierError": "RuntimeError", "threading.BrokenBarrierError": "RuntimeError",
}


class ExcHierarchy:
    """Subclass test over builtin exception names + the repository's exception classes."""

    def __init__(self, repo):
        self.parent = dict(BUILTIN_EXC_PARENTS)
        m = repo.mods.get("bromelia.exceptions")
        if m:
            for name, defs in m.class_defs.items():
                d = defs[-1]
                b = d.bases[0] if d.bases else None
                self.parent[name] = ast.unparse(b) if b is not None else "object"

    def _norm(self, name):
        short = name.split(".")[-1]
        if short in self.parent:
            return short
        return name

    def ancestors(self, name):
        out = [name]
        seen = set()
        while name in self.parent and self.parent[name] and name not in seen:
            seen.add(name)
            name = self.parent[name]
            out.append(name)
        return out

    def catches(self, handler, exc):
        """True/False/None(unknown) whether `except handler` catches exception class `exc`."""
        if handler is None or handler == "BaseException":
            return True
        exc = self._norm(exc.split("#")[0])
        handler = self._norm(handler)
        if exc == "*":
            return None
        if exc not in self.parent:
            return None if handler not in ("Exception",) else None
        return handler in self.ancestors(exc)


def handler_names(h):
    if h.type is None:
        return [None]
    if isinstance(h.type, ast.Tuple):
        return [ast.unparse(e) for e in h.type.elts]
    return [ast.unparse(h.type)]


class CFG:
    def __init__(self, fn, raises=None, hier=None, handler_resolver=None):
        """raises(astnode) -> set of exception class names the evaluation of that
        statement/expression may raise ('*' = unknown class)."""
        self.fn = fn
        self.raises = raises or (lambda n: set())
        self.hier = hier
        self.hres = handler_resolver or getattr(raises, "handler_resolver", None)
        self.nodes = {}
        self.succ = collections.defaultdict(list)
        self.pred = collections.defaultdict(list)
        self._n = 0
        self.entry = self.new("entry", fn)
        self.exit = self.new("exit", fn)
        self.rexit = self.new("rexit", fn)
        self.escapes = set()
        self.raise_sites = collections.defaultdict(set)   # node id -> exc names
        top = dict(loop=None, exc=[{"kind": "top", "node": self.rexit, "raised": self.escapes}], fin=[])
        ends = self.block(fn.body, [self.entry], top)
        self.link(ends, self.exit)

    # -- construction ----------------------------------------------------
    def new(self, kind, node=None, extra=None):
        self._n += 1
        self.nodes[self._n] = Node(self._n, kind, node, extra)
        return self._n

    def edge(self, a, b, l="n"):
        if (b, l) not in self.succ[a]:
            self.succ[a].append((b, l))
            self.pred[b].append((a, l))

    def link(self, preds, n, l="n"):
        for p in preds:
            if isinstance(p, tuple):
                self.edge(p[0], n, p[1])
            else:
                self.edge(p, n, l)

    def add_exc(self, n, astnode, ctx, explicit=None):
        r = set(explicit) if explicit is not None else (self.raises(astnode) if astnode is not None else set())
        if r:
            self.raise_sites[n] |= r
            self.deliver(n, r, ctx["exc"], len(ctx["exc"]) - 1)

    def deliver(self, src, names, frames, i, label="exc"):
        """Route each exception class raised at `src` to the innermost frame that handles it.
        label 'exc' = the statement at src did not complete; 'excp' = an exception propagates after src completed
        (end of a finally body / with-exit)."""
        fr = frames[i]
        if fr["kind"] == "top":
            self.edge(src, fr["node"], label)
            fr["raised"] |= names
            return
        if fr["kind"] == "fin":
            self.edge(src, fr["node"], label)
            fr["raised"] |= names
            return
        # try frame with handlers
        rest = set()
        for e in names:
            caught = False
            for h in fr["handlers"]:
                res = [self.hier.catches(hn, e) if self.hier else (True if hn in (None, "BaseException") else None)
                       for hn in h["names"]]
                if any(r is True for r in res):
                    self.edge(src, h["node"], label)
                    h["caught"].add(e)
                    caught = True
                    break
                if any(r is None for r in res):
                    self.edge(src, h["node"], label)
                    h["caught"].add(e)
            if not caught:
                rest.add(e)
        if rest:
            self.deliver(src, rest, frames, i - 1, label)

    def block(self, stmts, preds, ctx):
        for s in stmts:
            preds = self.stmt(s, preds, ctx)
        return preds

    def _route_return(self, n, ctx):
        if ctx["fin"]:
            ctx["fin"][-1]["returns"].append(n)
        else:
            self.edge(n, self.exit, "ret")

    def stmt(self, s, preds, ctx):
        if isinstance(s, (ast.FunctionDef, ast.ClassDef, ast.AsyncFunctionDef)):
            n = self.new("stmt", s)
            self.link(preds, n)
            return [n]
        if isinstance(s, ast.If):
            t = self.new("test", s.test, s)
            self.link(preds, t)
            self.add_exc(t, s.test, ctx)
            a = self.block(s.body, [(t, "T")], ctx)
            b = self.block(s.orelse, [(t, "F")], ctx) if s.orelse else [(t, "F")]
            return a + b
        if isinstance(s, (ast.While, ast.For)):
            if isinstance(s, ast.While):
                t = self.new("test", s.test, s)
                self.add_exc(t, s.test, ctx)
            else:
                t = self.new("iter", s, s)
                self.add_exc(t, s.iter, ctx)
            self.link(preds, t)
            loop = {"brk": [], "cont": t, "fin_depth": len(ctx["fin"])}
            c2 = dict(ctx, loop=loop)
            infinite = isinstance(s, ast.While) and isinstance(s.test, ast.Constant) and bool(s.test.value)
            body_end = self.block(s.body, [(t, "T")], c2)
            self.link(body_end, t)
            out = [] if infinite else [(t, "F")]
            if s.orelse:
                out = self.block(s.orelse, out, ctx)
            return out + loop["brk"]
        if isinstance(s, ast.Break):
            n = self.new("stmt", s)
            self.link(preds, n)
            lp = ctx["loop"]
            if len(ctx["fin"]) > lp["fin_depth"]:
                ctx["fin"][-1]["breaks"].append((n, lp))
            else:
                lp["brk"].append(n)
            return []
        if isinstance(s, ast.Continue):
            n = self.new("stmt", s)
            self.link(preds, n)
            lp = ctx["loop"]
            if len(ctx["fin"]) > lp["fin_depth"]:
                ctx["fin"][-1]["conts"].append((n, lp))
            else:
                self.edge(n, lp["cont"])
            return []
        if isinstance(s, ast.Return):
            n = self.new("stmt", s)
            self.link(preds, n)
            self.add_exc(n, s.value, ctx)
            self._route_return(n, ctx)
            return []
        if isinstance(s, ast.Raise):
            n = self.new("stmt", s)
            self.link(preds, n)
            names = set()
            if s.exc is None:
                names = set(ctx.get("reraise") or {"*"})
            else:
                e = s.exc
                if isinstance(e, ast.Call):
                    e = e.func
                names = {ast.unparse(e).split(".")[-1]}
                names |= self.raises(s.exc) if isinstance(s.exc, ast.Call) else set()
            self.add_exc(n, None, ctx, explicit=names)
            return []
        if isinstance(s, (ast.With, ast.AsyncWith)):
            return self._with(s, preds, ctx)
        if isinstance(s, ast.Try):
            return self._try(s, preds, ctx)
        n = self.new("stmt", s)
        self.link(preds, n)
        self.add_exc(n, s, ctx)
        return [n]

    def _with(self, s, preds, ctx):
        ent = self.new("with_enter", s)
        self.link(preds, ent)
        for it in s.items:
            self.add_exc(ent, it.context_expr, ctx)
        finrec = {"returns": [], "breaks": [], "conts": []}
        fin_exc = {"kind": "fin", "node": self.new("with_exit", s, "exc"), "raised": set()}
        c_body = dict(ctx, exc=ctx["exc"] + [fin_exc], fin=ctx["fin"] + [finrec])
        body_end = self.block(s.body, [ent], c_body)
        out = []
        if body_end:
            x = self.new("with_exit", s, "normal")
            self.link(body_end, x)
            out = [x]
        if fin_exc["raised"]:
            self.deliver(fin_exc["node"], fin_exc["raised"], ctx["exc"], len(ctx["exc"]) - 1, "excp")
        if finrec["returns"]:
            x = self.new("with_exit", s, "ret")
            self.link(finrec["returns"], x)
            self._route_return(x, ctx)
        for n, lp in finrec["breaks"]:
            x = self.new("with_exit", s, "brk")
            self.edge(n, x)
            if len(ctx["fin"]) > lp["fin_depth"]:
                ctx["fin"][-1]["breaks"].append((x, lp))
            else:
                lp["brk"].append(x)
        for n, lp in finrec["conts"]:
            x = self.new("with_exit", s, "cont")
            self.edge(n, x)
            if len(ctx["fin"]) > lp["fin_depth"]:
                ctx["fin"][-1]["conts"].append((x, lp))
            else:
                self.edge(x, lp["cont"])
        return out

    def _hnames(self, h):
        names = handler_names(h)
        if self.hres is None:
            return names
        out = []
        for n in names:
            r = self.hres(n) if n is not None else None
            out += (r if r else [n])
        return out

    def _try(self, s, preds, ctx):
        has_fin = bool(s.finalbody)
        finrec = {"returns": [], "breaks": [], "conts": []} if has_fin else None
        fin_exc = {"kind": "fin", "node": self.new("join", s, "finally_exc"), "raised": set()} if has_fin else None
        fin_stack = ctx["fin"] + ([finrec] if has_fin else [])
        outer_exc = ctx["exc"] + ([fin_exc] if has_fin else [])
        handlers = [{"h": h, "names": self._hnames(h), "node": self.new("handler", h), "caught": set()} for h in s.handlers]
        frame = {"kind": "try", "handlers": handlers, "node": None}
        c_body = dict(ctx, exc=outer_exc + ([frame] if handlers else []), fin=fin_stack)
        body_end = self.block(s.body, preds, c_body)
        c_rest = dict(ctx, exc=outer_exc, fin=fin_stack)
        outs = self.block(s.orelse, body_end, c_rest) if s.orelse else list(body_end)
        for h in handlers:
            if h["caught"]:
                self.nodes[h["node"]].extra = sorted(h["caught"])
                c_h = dict(c_rest, reraise=set(h["caught"]))
                outs += self.block(h["h"].body, [h["node"]], c_h)
        if has_fin:
            f_norm = self.block(s.finalbody, outs, ctx) if outs else []
            if fin_exc["raised"] or self.pred.get(fin_exc["node"]):
                f_exc = self.block(s.finalbody, [fin_exc["node"]], ctx)
                for e in f_exc:
                    e0 = e[0] if isinstance(e, tuple) else e
                    self.deliver(e0, fin_exc["raised"] or {"*"}, ctx["exc"], len(ctx["exc"]) - 1, "excp")
            if finrec["returns"]:
                f_ret = self.block(s.finalbody, finrec["returns"], ctx)
                for e in f_ret:
                    e0 = e[0] if isinstance(e, tuple) else e
                    self._route_return(e0, ctx)
            for n, lp in finrec["breaks"]:
                f_b = self.block(s.finalbody, [n], ctx)
                for e in f_b:
                    e0 = e[0] if isinstance(e, tuple) else e
                    lp["brk"].append(e0)
            for n, lp in finrec["conts"]:
                f_c = self.block(s.finalbody, [n], ctx)
                for e in f_c:
                    self.link([e], lp["cont"])
            return f_norm
        return outs

    # -- analyses ---------------------------------------------------------
    def reachable(self, start=None, skip_edges=None):
        start = start or self.entry
        seen = {start}
        st = [start]
        while st:
            n = st.pop()
            for m, l in self.succ.get(n, []):
                if skip_edges and (n, m, l) in skip_edges:
                    continue
                if m not in seen:
                    seen.add(m)
                    st.append(m)
        return seen

    def order(self):
        """Reverse post-order from entry."""
        seen, out = set(), []

        def dfs(n):
            stack = [(n, iter(self.succ.get(n, [])))]
            seen.add(n)
            while stack:
                node, it = stack[-1]
                adv = False
                for m, _ in it:
                    if m not in seen:
                        seen.add(m)
                        stack.append((m, iter(self.succ.get(m, []))))
                        adv = True
                        break
                if not adv:
                    out.append(node)
                    stack.pop()
        dfs(self.entry)
        return out[::-1]

    def dominators(self):
        order = self.order()
        allset = set(order)
        dom = {n: set(allset) for n in order}
        dom[self.entry] = {self.entry}
        changed = True
        while changed:
            changed = False
            for n in order:
                if n == self.entry:
                    continue
                ps = [p for p, _ in self.pred.get(n, []) if p in dom]
                new = set.intersection(*[dom[p] for p in ps]) if ps else set()
                new = new | {n}
                if new != dom[n]:
                    dom[n] = new
                    changed = True
        return dom

    def forward(self, init, transfer, join, bottom=None, edge_transfer=None):
        """Generic forward dataflow.  transfer(node, state_in) -> state_out (applied on
        normal/T/F/ret edges).  Exceptional edges carry edge_transfer(node, state_in, 'exc')
        if given, else state_in (the statement did not complete).
        Returns (IN, OUT) dicts."""
        IN = {self.entry: init}
        OUT = {}
        work = collections.deque([self.entry])
        inq = {self.entry}
        while work:
            n = work.popleft()
            inq.discard(n)
            s_in = IN[n]
            s_out = transfer(self.nodes[n], s_in)
            OUT[n] = s_out
            for m, l in self.succ.get(n, []):
                if l == "exc":
                    v = edge_transfer(self.nodes[n], s_in, l) if edge_transfer else s_in
                else:
                    v = edge_transfer(self.nodes[n], s_out, l) if edge_transfer else s_out
                if m not in IN:
                    IN[m] = v
                    new = True
                else:
                    j = join(IN[m], v)
                    new = j != IN[m]
                    IN[m] = j
                if new and m not in inq:
                    work.append(m)
                    inq.add(m)
        return IN, OUT

    def shortest_path(self, src, dst):
        par = {src: None}
        dq = collections.deque([src])
        while dq:
            n = dq.popleft()
            if n == dst:
                break
            for m, l in self.succ.get(n, []):
                if m not in par:
                    par[m] = (n, l)
                    dq.append(m)
        if dst not in par:
            return None
        path = []
        n = dst
        while par[n] is not None:
            p, l = par[n]
            path.append((p, l, n))
            n = p
        return path[::-1]

    def describe_path(self, path):
        out = []
        for a, l, b in path or []:
            na = self.nodes[a]
            if na.kind in ("stmt", "test", "iter", "with_enter", "handler"):
                tag = f"L{na.lineno}"
                if l in ("T", "F", "exc"):
                    tag += f"[{l}]"
                out.append(tag)
        return "->".join(out)

    def stmts_nodes(self):
        return [n for n in self.nodes.values() if n.kind in ("stmt", "test", "iter", "with_enter")]
